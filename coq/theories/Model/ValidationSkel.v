(* Model/ValidationSkel.v — C18 extension: the REGENERATED control skeletons and their execution.

   tools/facts_c18.py slices the body of selected functions down to the guard-relevant statements
   (raise ValueError, return, the if/else and for statements containing them, try/except-raise, calls of
   functions that have their own validation model) and writes that slice as a prefix token stream into
   Extracted/Facts.v (c18_skeletons).  This file
     1. decodes the token stream into a statement tree (parse_stmts),
     2. gives the tree an executable semantics (exec) relative to an INTERPRETATION of the atoms, of the
        collections that loops / any(...) range over and of the watched calls.  The interpretations are the
        hand-written part: they say what each atomic Python test reads from the input abstraction of
        Model/Validation.v.  Atoms are keyed by their source text, so an edited test no longer resolves
        (the execution answers Crashed), and a moved / reordered / dropped guard changes the tree.
   Properties/C18.v proves  exec (decoded regenerated skeleton) interp i = api_* i  for ALL inputs i.
   NO proofs in this file. *)
From Coq Require Import String QArith.
From CKT Require Import Common.Base Model.Validation.
Close Scope Q_scope.
Open Scope string_scope.

Inductive gexp :=
| GAtom (t : string)
| GNot (e : gexp)
| GAnd (a b : gexp)
| GOr (a b : gexp)
| GAny (var coll : string) (e : gexp).

Inductive stmt :=
| SRaise
| SReturn
| SCall (callee : string)
| STry (what : string)
| SIf (test : gexp) (body orelse : list stmt)
| SFor (header : string) (body : list stmt).

(* ---------- decoding the token stream ---------- *)
Definition tok := (string * string)%type.
Fixpoint parse_gexp (fuel : nat) (ts : list tok) : option (gexp * list tok) :=
  match fuel with
  | O => None
  | S f =>
    match ts with
    | (tag, txt) :: r =>
        if tag =? "atom" then Some (GAtom txt, r)
        else if tag =? "not" then
          match parse_gexp f r with Some (e, r') => Some (GNot e, r') | None => None end
        else if (tag =? "and") || (tag =? "or") then
          match parse_gexp f r with
          | Some (a, r1) => match parse_gexp f r1 with
                            | Some (b, r2) => Some (if tag =? "and" then GAnd a b else GOr a b, r2)
                            | None => None end
          | None => None end
        else if tag =? "any" then
          match r with
          | (tag2, coll) :: r1 =>
              if tag2 =? "in" then
                match parse_gexp f r1 with Some (e, r2) => Some (GAny txt coll e, r2) | None => None end
              else None
          | [] => None
          end
        else None
    | [] => None
    end
  end.

(* parses statements up to (not including) an "else"/"end" token or the end of the stream *)
Fixpoint parse_stmts (fuel : nat) (ts : list tok) : option (list stmt * list tok) :=
  match fuel with
  | O => None
  | S f =>
    match ts with
    | [] => Some ([], [])
    | (tag, txt) :: r =>
        if (tag =? "else") || (tag =? "end") then Some ([], ts)
        else if tag =? "raise" then
          match parse_stmts f r with Some (l, r') => Some (SRaise :: l, r') | None => None end
        else if tag =? "return" then
          match parse_stmts f r with Some (l, r') => Some (SReturn :: l, r') | None => None end
        else if tag =? "call" then
          match parse_stmts f r with Some (l, r') => Some (SCall txt :: l, r') | None => None end
        else if tag =? "try" then
          match parse_stmts f r with Some (l, r') => Some (STry txt :: l, r') | None => None end
        else if tag =? "if" then
          match parse_gexp f r with
          | Some (t, (tg1, _) :: r1) =>
              if tg1 =? "then" then
                match parse_stmts f r1 with
                | Some (b, (tg2, _) :: r2) =>
                    if tg2 =? "else" then
                      match parse_stmts f r2 with
                      | Some (o, (tg3, _) :: r3) =>
                          if tg3 =? "end" then
                            match parse_stmts f r3 with Some (l, r') => Some (SIf t b o :: l, r') | None => None end
                          else None
                      | _ => None end
                    else None
                | _ => None end
              else None
          | _ => None end
        else if tag =? "for" then
          match parse_stmts f r with
          | Some (b, (tg2, _) :: r2) =>
              if tg2 =? "end" then
                match parse_stmts f r2 with Some (l, r') => Some (SFor txt b :: l, r') | None => None end
              else None
          | _ => None end
        else None
    end
  end.
Definition decode (ts : list tok) : option (list stmt) :=
  match parse_stmts (S (length ts)) ts with Some (l, []) => Some l | _ => None end.

(* ---------- execution ---------- *)
Inductive flow := FNext | FReturned | FRefused | FCrashed.
Definition fseq (a : flow) (b : flow) : flow := match a with FNext => b | x => x end.
Definition flow_of (o : outcome) : flow := match o with Ok _ => FNext | Refused => FRefused | Crashed => FCrashed end.
Definition outcome_of (f : flow) : outcome :=
  match f with FNext | FReturned => Proceeds | FRefused => Refused | FCrashed => Crashed end.

Section Exec.
Variables I E : Type.
(* element stack: the values bound by the enclosing loops / any(...) variables, innermost first *)
Variable atom : string -> I -> list E -> option bool.
Variable coll : string -> I -> list E -> option (list E).
Variable call : string -> I -> list E -> option outcome.
Variable i : I.

Fixpoint eval (e : gexp) (st : list E) : option bool :=
  match e with
  | GAtom t => atom t i st
  | GNot a => option_map negb (eval a st)
  | GAnd a b => match eval a st with
                | Some true => eval b st          (* short circuit, as Python *)
                | x => x end
  | GOr a b => match eval a st with
               | Some false => eval b st
               | x => x end
  | GAny _ c a =>
      match coll c i st with
      | None => None
      | Some es =>
          (fix anyl (l : list E) : option bool :=
             match l with
             | [] => Some false
             | x :: r => match eval a (x :: st) with
                         | Some true => Some true
                         | Some false => anyl r
                         | None => None end
             end) es
      end
  end.

Fixpoint exec_stmt (s : stmt) (st : list E) {struct s} : flow :=
  match s with
  | SRaise => FRefused
  | SReturn => FReturned
  | SCall f => match call f i st with Some o => flow_of o | None => FCrashed end
  | STry t => match atom t i st with Some true => FRefused | Some false => FNext | None => FCrashed end
  | SIf t b o =>
      match eval t st with
      | None => FCrashed
      | Some true => (fix go (l : list stmt) : flow :=
                        match l with [] => FNext | x :: r => fseq (exec_stmt x st) (go r) end) b
      | Some false => (fix go (l : list stmt) : flow :=
                         match l with [] => FNext | x :: r => fseq (exec_stmt x st) (go r) end) o
      end
  | SFor h b =>
      match coll h i st with
      | None => FCrashed
      | Some es =>
          (fix loop (l : list E) : flow :=
             match l with
             | [] => FNext
             | e :: r => fseq ((fix go (l' : list stmt) : flow :=
                                  match l' with [] => FNext | x :: r' => fseq (exec_stmt x (e :: st)) (go r') end) b)
                              (loop r)
             end) es
      end
  end.
Fixpoint exec_list (l : list stmt) (st : list E) : flow :=
  match l with [] => FNext | x :: r => fseq (exec_stmt x st) (exec_list r st) end.
Definition run (l : list stmt) : outcome := outcome_of (exec_list l []).
End Exec.

(* ---------- the regenerated skeletons ---------- *)
From CKT Require Import Extracted.Facts.
Definition skeleton_of (f : string) : option (list stmt) :=
  match find (fun p => String.eqb (fst p) f) c18_skeletons with Some p => decode (snd p) | None => None end.

(* ====================================================================================================
   INTERPRETATIONS (hand-written): what every atomic test reads from the abstraction
   ==================================================================================================== *)

(* ---------- partition_problem ---------- *)
Inductive pp_elem := PObs (len phase : nat) | PIdle (acts : bool).
Definition pp_eff_labels (i : pp_in) : list label :=
  match pp_labels i with Some l => l | None => auto_labels (pp_nq i) (pp_insts i) end.
Definition pp_atom (t : string) (i : pp_in) (st : list pp_elem) : option bool :=
  if t =? "partition_labels is not None" then Some (negb (is_none (pp_labels i)))
  else if t =? "partition_labels is None" then Some (is_none (pp_labels i))
  else if t =? "len(partition_labels) != circuit.num_qubits" then
    match pp_labels i with Some l => Some (negb (length l =? pp_nq i)%nat) | None => None end      (* len(None): TypeError *)
  else if t =? "observables is not None" then Some (negb (is_none (pp_obs i)))
  else if t =? "observables" then Some (match pp_obs i with Some (_ :: _) => true | _ => false end)   (* truthiness *)
  else if t =? "len(obs) != circuit.num_qubits" then
    match st with PObs n _ :: _ => Some (negb (n =? pp_nq i)%nat) | _ => None end
  else if t =? "obs.phase != 0" then
    match st with PObs _ p :: _ => Some (negb (p =? 0)%nat) | _ => None end
  else if t =? "len(circuit.cregs) != 0" then Some (negb (pp_ncregs i =? 0)%nat)
  else if t =? "circuit.num_clbits != 0" then Some (negb (pp_nclbits i =? 0)%nat)
  (* idle group: the abstraction keeps, per observable, whether it acts on a None-labelled qubit; the dictionary
     entry None exists exactly when some qubit carries the label None, and without such a qubit no element acts *)
  else if t =? "idle_observables is not None" then Some true
  else if t =? "obs.x.any()" then match st with PIdle b :: _ => Some b | _ => None end
  else if t =? "obs.z.any()" then match st with PIdle _ :: _ => Some false | _ => None end
  else None.
Definition pp_coll (c : string) (i : pp_in) (st : list pp_elem) : option (list pp_elem) :=
  if c =? "observables" then
    match pp_obs i with Some o => Some (map (fun p => PObs (fst p) (snd p)) o) | None => None end
  else if c =? "idle_observables" then
    Some (map (fun sup => PIdle (existsb (fun q => is_none (nth q (pp_eff_labels i) None)) sup)) (pp_support_eff i))
  else None.
Definition pp_call (f : string) (i : pp_in) (st : list pp_elem) : option outcome :=
  if f =? "_partition_labels_from_circuit" then Some Proceeds
  else if f =? "partition_circuit_qubits" then
    Some (match pp_labels i with Some l => pcq_loop l (pp_insts i) | None => Proceeds end)
  else if f =? "separate_circuit" then
    Some (match pp_labels i with Some l => refuse_if (none_label_used l (pp_insts i)) | None => Proceeds end)
  else if f =? "decompose_observables" then Some Proceeds
  else None.
Definition run_partition_problem (sk : list stmt) (i : pp_in) : outcome :=
  run pp_in pp_elem pp_atom pp_coll pp_call i sk.

(* ---------- reconstruct_expectation_values ---------- *)
Inductive rc_elem := RObs (phase : nat) | RSub (phases : list nat) | RCount (n groups : nat).
Definition rc_atom (t : string) (i : rec_in) (st : list rc_elem) : option bool :=
  if t =? "isinstance(observables, PauliList)" then Some (is_oplist (rc_oform i))
  else if t =? "isinstance(observables, Mapping)" then Some (is_odict (rc_oform i))
  else if t =? "isinstance(results, (SamplerResult, PrimitiveResult))" then Some (is_rresult (rc_rform i))
  else if t =? "isinstance(results, Mapping)" then Some (is_rdict (rc_rform i))
  else if t =? "observables.keys() != results.keys()" then Some (negb (rc_keys_match i))
  else if t =? "obs.phase != 0" then match st with RObs p :: _ => Some (negb (p =? 0)%nat) | _ => None end
  else if t =? "len(current_result) != len(coefficients) * len(so.groups)" then
    match st with RCount n g :: _ => Some (negb (n =? rc_ncoef i * g)%nat) | _ => None end
  else None.
Definition rc_coll (c : string) (i : rec_in) (st : list rc_elem) : option (list rc_elem) :=
  if c =? "observables" then Some (map RObs (hd [] (rc_phases i)))
  else if c =? "(label, subobservable) in observables.items()" then Some (map RSub (rc_phases i))
  else if c =? "subobservable" then match st with RSub l :: _ => Some (map RObs l) | _ => None end
  else if c =? "(label, so) in subsystem_observables.items()" then
    Some (map (fun p => RCount (fst p) (snd p)) (rc_counts i))
  else None.
Definition rc_call (f : string) (i : rec_in) (st : list rc_elem) : option outcome :=
  if f =? "decompose_observables" then Some Proceeds else None.
Definition run_reconstruct (sk : list stmt) (i : rec_in) : outcome :=
  run rec_in rc_elem rc_atom rc_coll rc_call i sk.

(* ---------- simulate_statevector_outcomes ---------- *)
Definition sim_atom (t : string) (i : list sim_inst) (st : list sim_inst) : option bool :=
  match st with
  | s :: _ =>
      if t =? "inst.operation.condition_bits" then Some (si_cond s)
      else if t =? "opname in ('measure', 'reset')" then Some (si_nonunitary s)
      else if t =? "len(inst.clbits) != 0" then Some (negb (si_nclbits s =? 0)%nat)
      else None
  | [] => None
  end.
Definition sim_coll (c : string) (i : list sim_inst) (st : list sim_inst) : option (list sim_inst) :=
  if c =? "inst in qc.data" then Some i else None.
Definition sim_call (f : string) (i : list sim_inst) (st : list sim_inst) : option outcome := None.
Definition run_simulate (sk : list stmt) (i : list sim_inst) : outcome :=
  run (list sim_inst) sim_inst sim_atom sim_coll sim_call i sk.

(* Model/ObservablesExt.v -- C17 extension round: recombination of the public-call result of
   decompose_observables, and the label glue (Python labels, dict-key equality, the harness's Interner).
   Executable definitions only; proofs in Proofs/ObservablesExtP.v.  Imported by Properties/C17.v only. *)
From CKT Require Import Common.Base Model.Observables.


(* Recombination of the PUBLIC-CALL result: row i of every group's sub-observables scattered back to
   the group's qubit indices (the list D is decompose_call's value: (label, qubits, sub-observables)). *)
Definition row_groups (i : nat) (D : list (nat * list nat * list pauli)) : list (list nat * pauli) :=
  map (fun t => (snd (fst t), nth i (snd t) (mkP 0 []))) D.

Definition recombine_row (n i : nat) (D : list (nat * list nat * list pauli)) : list letter :=
  recombine1 n (row_groups i D).

(* all qubit indices named by the result, group after group *)
Definition covered (D : list (nat * list nat * list pauli)) : list nat :=
  concat (map (fun t => snd (fst t)) D).

(* Labels as Python objects.  Up to here a label is a nat: the harness interns the Python labels.
   The glue is modelled now: L is any type of labels, leqb the dict-key equality of Python
   (hash(a) == hash(b) and (a is b or a == b)); a dict keeps the FIRST key object of a class. *)
Section GenLabels.
  Variable L : Type.
  Variable leqb : L -> L -> bool.

  Fixpoint add_to_group_g (l : L) (i : nat) (g : list (L * list nat)) : list (L * list nat) :=
    match g with
    | [] => [(l, [i])]
    | (l', qs) :: r => if leqb l l' then (l', qs ++ [i]) :: r else (l', qs) :: add_to_group_g l i r
    end.

  Fixpoint groups_from_g (labels : list L) (i : nat) (g : list (L * list nat)) : list (L * list nat) :=
    match labels with
    | [] => g
    | l :: r => groups_from_g r (S i) (add_to_group_g l i g)
    end.

  Definition qubits_by_subsystem_g (labels : list L) : list (L * list nat) := groups_from_g labels 0 [].

  (* harness/common.py Interner:  if x not in d: d[x] = len(d);  return d[x]
     `seen` = the keys of d in insertion order; the id of a key is its position. *)
  Fixpoint find_key (x : L) (seen : list L) : option nat :=
    match seen with
    | [] => None
    | y :: r => if leqb x y then Some 0 else option_map S (find_key x r)
    end.

  Fixpoint intern_list (seen : list L) (xs : list L) : list nat :=
    match xs with
    | [] => []
    | x :: r => match find_key x seen with
                | Some i => i :: intern_list seen r
                | None => length seen :: intern_list (seen ++ [x]) r
                end
    end.

  Fixpoint keys_after (seen : list L) (xs : list L) : list L :=
    match xs with
    | [] => seen
    | x :: r => match find_key x seen with
                | Some _ => keys_after seen r
                | None => keys_after (seen ++ [x]) r
                end
    end.

  (* the id the finished Interner returns for x (x already seen) *)
  Definition intern_id (labels : list L) (x : L) : nat :=
    match find_key x (keys_after [] labels) with Some i => i | None => length (keys_after [] labels) end.
  (* renumbering of the keys of a Python-level grouping (specification side of the interning contract) *)
  Definition relabel (f : L -> nat) (g : list (L * list nat)) : list (nat * list nat) :=
    map (fun lq => (f (fst lq), snd lq)) g.
End GenLabels.
Arguments add_to_group_g {L}. Arguments groups_from_g {L}. Arguments qubits_by_subsystem_g {L}.
Arguments find_key {L}. Arguments intern_list {L}. Arguments keys_after {L}. Arguments intern_id {L}.

(* Model/Experiments.v — executable model of cutting_experiments.py :
     generate_cutting_experiments, _get_mapping_ids_by_partition, _get_bases_by_partition, _get_bases
   built on the models of the parts it calls:
     Model/Measurement.v  (_get_pauli_indices, _append_measurement_register, _append_measurement_circuit)
     Model/Decompose.v    (decompose_qpd_instructions, inplace=True on the fresh copy)
     Model/ResetPasses.v  (_remove_resets_in_zero_state, _remove_final_resets, _consolidate_resets)
   No proofs here (Proofs/ExperimentsP.v).

   INPUTS THAT ARE ORACLE RESULTS (randomness and Qiskit's grouping are other properties' business):
   * weights : sdict — the dictionary returned by generate_qpd_weights(bases, num_samples) on THIS call, in dict
     order: joint map ids -> (weight, WeightType).  (C04 is about how it is drawn.)
   * the commuting observable groups of every partition: ObservableCollection(subobservables).groups, as
     (letters of general_observable by qubit index, pauli_indices), or the exception the constructor raised
     (Refused = ValueError, e.g. a phase; Crashed = anything else).  (C11 is about how they are built.)
   * env : handle -> basis maps ; cenv : handle -> basis coefficients (equal handles <=> QPDBasis.__eq__).
   * gh, gsx : the interned ids of HGate / SXGate.

   REPRESENTATION.  A (sub)circuit is the `mcirc` of Model/Measurement.v: #qubits, #clbits, classical registers
   as (name == "observable_measurements", clbit indices), instruction list.  A register already named
   "qpd_measurements" in an input circuit (CircuitError in add_register) is outside the model.
   Partition labels are interned as nat by Python ==/hash (dict-key semantics); dicts are association lists in
   insertion order with distinct keys.

   F2 (REPAIRED behaviour, the one property C19 demands): when a group's pauli_indices is empty, the final resets
   are removed BEFORE the placeholder measurement of qubit 0 is appended (the unrepaired /repo appends it after a
   trailing reset, which then survives the final-reset pass). *)
From Coq Require Import QArith Qabs.
From CKT Require Import Common.Base Common.Circ Model.Decompose Model.Measurement Model.ResetPasses
  Model.Observables Model.Grouping.
Close Scope Q_scope.

(* ---------------------------------------------------------------------------------------------
   numbers and the weights dictionary.  These types deliberately do NOT come from Model/Weights.v (which depends
   on the regenerated Extracted/Facts.v): the C05 correspondence cone stays independent of Facts.  The bridge to
   Model/Weights.v (same shapes) is at the end of Proofs/ExperimentsP.v.
   --------------------------------------------------------------------------------------------- *)
Definition jkey : Type := list nat.                              (* joint map ids, one per basis *)
Inductive wkind := KExact | KSampled.                            (* WeightType.EXACT / WeightType.SAMPLED *)
Definition wkind_eqb (a b : wkind) : bool :=
  match a, b with KExact, KExact => true | KSampled, KSampled => true | _, _ => false end.
Inductive nsamples := NFin (q : Q) | NPosInf | NNegInf | NNaN.   (* the int/float num_samples *)
Definition sdict : Type := list (jkey * (Q * wkind)).            (* generate_qpd_weights' dict, in dict order *)
Definition sumQ (l : list Q) : Q := fold_right Qplus 0%Q l.      (* sum / np.sum *)
Definition prodQ (l : list Q) : Q := fold_right Qmult 1%Q l.     (* np.prod *)

(* ---------------------------------------------------------------------------------------------
   arguments and result
   --------------------------------------------------------------------------------------------- *)

(* a CommutingObservableGroup as generation sees it *)
Record ogroup := mkOG {
  og_general : list nat ;        (* letters of cog.general_observable, one per qubit index (0 I, 1 X, 2 Y, 3 Z) *)
  og_indices : list nat          (* cog.pauli_indices *)
}.
Definition og_of_cog (c : cog) : ogroup := mkOG (plets (cg_general c)) (cg_indices c).

Inductive circuits_arg :=
| CSingle (qc : mcirc)                          (* a QuantumCircuit *)
| CDict (d : list (nat * mcirc))                (* a dict label -> QuantumCircuit *)
| COther.                                       (* anything else *)

Inductive observables_arg :=
| OPaulis (gs : res (list ogroup))              (* a PauliList; gs = ObservableCollection(decompose_observables(obs, "A"*n)["A"]).groups *)
| ODict (d : list (nat * res (list ogroup)))    (* a dict label -> PauliList; per label ObservableCollection(so).groups *)
| OOther.                                       (* anything else *)

Inductive experiments :=
| OutList (l : list mcirc)
| OutDict (d : list (nat * list mcirc)).

Definition sample : Type := jkey * (Q * wkind).
Definition s_ids (s : sample) : jkey := fst s.
Definition s_w (s : sample) : Q := fst (snd s).
Definition s_t (s : sample) : wkind := snd (snd s).

(* ---------------------------------------------------------------------------------------------
   helpers
   --------------------------------------------------------------------------------------------- *)
Fixpoint mapM {A B} (f : A -> res B) (l : list A) : res (list B) :=
  match l with
  | [] => Ok []
  | x :: r => res_bind (f x) (fun y => res_map (cons y) (mapM f r))
  end.

Fixpoint alookup {V} (d : list (nat * V)) (k : nat) : option V :=
  match d with
  | [] => None
  | (k', v) :: r => if Nat.eqb k k' then Some v else alookup r k
  end.

(* d[k] = v : an existing key keeps its position *)
Fixpoint aset {V} (d : list (nat * V)) (k : nat) (v : V) : list (nat * V) :=
  match d with
  | [] => [(k, v)]
  | (k', v') :: r => if Nat.eqb k k' then (k', v) :: r else (k', v') :: aset r k v
  end.

(* `not num_samples >= 1` is False exactly for a number >= 1 and +inf (NNaN compares False) *)
Definition ge1 (N : nsamples) : bool :=
  match N with NFin q => Qle_bool 1 q | NPosInf => true | NNegInf => false | NNaN => false end.

(* np.sign *)
Definition qsign (q : Q) : Q :=
  match Qnum q with Z0 => 0%Q | Zpos _ => 1%Q | Zneg _ => (-1)%Q end.

(* ---------------------------------------------------------------------------------------------
   _get_mapping_ids_by_partition
     for i, inst in enumerate(circ.data): if SingleQubitQPDGate:
         decomp_id = int(inst.operation.label.split("_")[-1])     (label None / no integer suffix -> ValueError)
         subcirc_qpd_gate_ids[label].append([i]); subcirc_map_ids[label].append(decomp_id)
   --------------------------------------------------------------------------------------------- *)
(* None: not a one-qubit placeholder; Some None: placeholder without usable suffix; Some (Some k): suffix k *)
Definition suffix_of (x : instr) : option (option nat) :=
  match iop x with
  | Qpd1 _ _ _ (Some (_, Some k)) => Some (Some k)
  | Qpd1 _ _ _ _ => Some None
  | _ => None
  end.

Fixpoint mapping_scan (i : nat) (c : circ) : res (list (list nat) * list nat) :=
  match c with
  | [] => Ok ([], [])
  | x :: r =>
      match suffix_of x with
      | None => mapping_scan (S i) r
      | Some None => Refused
      | Some (Some k) => res_map (fun p => ([i] :: fst p, k :: snd p)) (mapping_scan (S i) r)
      end
  end.

Definition mapping : Type := list (nat * (list (list nat) * list nat)).   (* label -> (qpd_gate_ids, map_ids) *)

Fixpoint mapping_by_partition (d : list (nat * mcirc)) : res mapping :=
  match d with
  | [] => Ok []
  | (l, qc) :: r =>
      res_bind (mapping_scan 0 (mdata qc)) (fun m => res_map (cons (l, m)) (mapping_by_partition r))
  end.

(* ---------------------------------------------------------------------------------------------
   _get_bases_by_partition
     bases_dict[decomp_id] = operation.basis   for every listed gate, partitions in dict order, gates in order
     bases = [bases_dict[key] for key in sorted(bases_dict.keys())]
   (the listed gates are exactly the one-qubit placeholders, all with a suffix at this point)
   --------------------------------------------------------------------------------------------- *)
Definition bases_step (acc : list (nat * nat)) (x : instr) : list (nat * nat) :=
  match iop x with
  | Qpd1 b _ _ (Some (_, Some k)) => aset acc k b
  | _ => acc
  end.

Definition bases_dict (d : list (nat * mcirc)) : list (nat * nat) :=
  fold_left (fun acc lc => fold_left bases_step (mdata (snd lc)) acc) d [].

Definition bases_by_partition (d : list (nat * mcirc)) : list nat :=
  let bd := bases_dict d in
  map (fun k => match alookup bd k with Some b => b | None => 0 end) (isort (map fst bd)).

(* ---------------------------------------------------------------------------------------------
   _get_bases (unseparated circuit)
     SingleQubitQPDGate -> ValueError ; TwoQubitQPDGate: bases.append(basis); qpd_gate_ids.append([i])
   --------------------------------------------------------------------------------------------- *)
Fixpoint get_bases (i : nat) (c : circ) : res (list nat * list (list nat)) :=
  match c with
  | [] => Ok ([], [])
  | x :: r =>
      match iop x with
      | Qpd1 _ _ _ _ => Refused
      | Qpd2 b _ _ => res_map (fun p => (b :: fst p, [i] :: snd p)) (get_bases (S i) r)
      | _ => get_bases (S i) r
      end
  end.

(* ---------------------------------------------------------------------------------------------
   coefficients
   --------------------------------------------------------------------------------------------- *)
(* QPDBasis.kappa = sum(abs(coeffs)) *)
Definition kappa_of (cs : list Q) : Q := sumQ (map Qabs cs).
(* kappa = np.prod([basis.kappa for basis in bases]) *)
Definition kappa_all (coeffs : list (list Q)) : Q := prodQ (map kappa_of coeffs).

(* [basis.coeffs[map_id] for basis, map_id in strict_zip(bases, map_ids)] :
   IndexError (Crashed) at the first out-of-range id, ValueError (Refused) from strict_zip when the lengths differ *)
Fixpoint chosen_coeffs (coeffs : list (list Q)) (ids : jkey) : res (list Q) :=
  match coeffs, ids with
  | [], [] => Ok []
  | cs :: rc, i :: ri =>
      match nth_error cs i with
      | None => Crashed
      | Some c => res_map (cons c) (chosen_coeffs rc ri)
      end
  | _, _ => Refused
  end.

(* num_samples = sum([value[0] for value in random_samples.values()]).  The running sum is reduced to lowest terms
   after every addition (Qred is the identity up to ==), only so that evaluating the model on a few hundred float
   weights stays fast; Proofs/ExperimentsP.v: total_weight W == sumQ (map s_w W). *)
Definition total_weight (W : sdict) : Q := fold_right (fun s acc => Qred (s_w s + acc)%Q) 0%Q W.

(* sampled_coeff = (redundancy / num_samples) * (kappa * np.sign(actual_coeff)) *)
Definition coeff_value (total kap w : Q) (cs : list Q) : Q :=
  ((w / total) * (kap * qsign (prodQ cs)))%Q.

(* sorted(random_samples.items(), key=lambda x: x[1][0], reverse=True): descending by weight, STABLE
   (equal weights keep their dict order).  Insertion sort folding from the right: an element goes before the
   first later element whose weight is <= its own. *)
Fixpoint ins_desc (x : sample) (l : list sample) : list sample :=
  match l with
  | [] => [x]
  | y :: r => if Qle_bool (s_w y) (s_w x) then x :: l else y :: ins_desc x r
  end.
Definition sort_samples (d : sdict) : list sample := fold_right ins_desc [] d.

(* ---------------------------------------------------------------------------------------------
   one subexperiment
   --------------------------------------------------------------------------------------------- *)
(* tuple(map_ids[j] for j in subcirc_map_ids[label]) : IndexError (Crashed) when a cut id is not an index *)
Fixpoint project (joint : jkey) (sfx : list nat) : res jkey :=
  match sfx with
  | [] => Ok []
  | k :: r =>
      match nth_error joint k with
      | None => Crashed
      | Some m => res_map (cons m) (project joint r)
      end
  end.

Definition with_data (qc : mcirc) (d : circ) : mcirc := mkMC (mnq qc) (mnc qc) (mcregs qc) d.

(*  new_qc = _append_measurement_register(subcircuit, cog)                 copy + ClassicalRegister "observable_measurements"
    decompose_qpd_instructions(new_qc, ids, map_ids_tmp, inplace=True)     + ClassicalRegister "qpd_measurements" (last)
    [F2 repair]  if not cog.pauli_indices: _remove_final_resets(new_qc)
    _append_measurement_circuit(new_qc, cog, inplace=True)                                                      *)
Definition build1 (gh gsx : nat) (env : benv) (qc : mcirc) (ids : list (list nat)) (ms : jkey) (g : ogroup)
  : res mcirc :=
  res_bind (append_measurement_register qc (og_indices g)) (fun q1 =>
  res_bind (decompose env (mdata q1) (mnc q1) ids (Some (map (fun m => Some (Z.of_nat m)) ms))) (fun dk =>
    let q2 := mkMC (mnq q1) (mnc q1 + snd dk) (mcregs q1 ++ [(false, seq (mnc q1) (snd dk))]) (fst dk) in
    let q3 := match og_indices g with
              | [] => with_data q2 (remove_final_resets (mnq q2) (mdata q2))
              | _ :: _ => q2
              end in
    append_measurement_circuit gh gsx q3 (og_general g) (og_indices g) None)).

(* the three passes applied to every subexperiment at the end:
   _remove_resets_in_zero_state, _remove_final_resets, _consolidate_resets *)
Definition optimise (e : mcirc) : mcirc := with_data e (optimise_resets (mnq e) (mdata e)).

(* what the loops know about one partition: the circuit, subcirc_qpd_gate_ids[label], and subcirc_map_ids[label]
   (None in the unseparated form: all joint map ids are used) *)
Record pinfo := mkPI { pi_qc : mcirc ; pi_ids : list (list nat) ; pi_sfx : option (list nat) }.

(*  for label, so in subsystem_observables.items():
        subcircuit = subcircuit_dict[label]                                  (KeyError -> Crashed)
        if is_separated: map_ids_tmp = tuple(map_ids[j] for j in subcirc_map_ids[label])
        for j, cog in enumerate(so.groups): ... subexperiments_dict[label].append(new_qc)                       *)
Definition per_label (gh gsx : nat) (env : benv) (table : list (nat * pinfo)) (joint : jkey)
           (lo : nat * list ogroup) : res (list mcirc) :=
  match alookup table (fst lo) with
  | None => Crashed
  | Some p =>
      res_bind (match pi_sfx p with None => Ok joint | Some sfx => project joint sfx end) (fun ms =>
      mapM (build1 gh gsx env (pi_qc p) (pi_ids p) ms) (snd lo))
  end.

(* subexperiments_dict[label] in order of first append; element z*G + j comes from sample z, group j *)
Definition column (li : nat) (rows : list (list (list mcirc))) : list mcirc :=
  concat (map (fun row => nth li row []) rows).

Definition collect (labels : list nat) (rows : list (list (list mcirc))) : list (nat * list mcirc) :=
  filter (fun le => negb (Nat.eqb (length (snd le)) 0))
         (map (fun li => (nth li labels 0, map optimise (column li rows))) (seq 0 (length labels))).

(* the shared second half of generate_cutting_experiments *)
Definition core (gh gsx : nat) (env : benv) (coeffs : list (list Q)) (table : list (nat * pinfo))
           (og : list (nat * list ogroup)) (weights : sdict)
  : res (list (nat * list mcirc) * list (Q * wkind)) :=
  let kap := kappa_all coeffs in
  let total := total_weight weights in
  res_bind
    (mapM (fun s : sample =>
             res_bind (chosen_coeffs coeffs (s_ids s)) (fun cs =>
             res_bind (mapM (per_label gh gsx env table (s_ids s)) og) (fun row =>
             Ok ((coeff_value total kap (s_w s) cs, s_t s), row))))
          (sort_samples weights))
    (fun rows => Ok (collect (map fst og) (map snd rows), map fst rows)).

(* {label: ObservableCollection(so) for label, so in observables.items()} : the first exception wins *)
Fixpoint all_groups (od : list (nat * res (list ogroup))) : res (list (nat * list ogroup)) :=
  match od with
  | [] => Ok []
  | (l, r) :: rest => res_bind r (fun gs => res_map (cons (l, gs)) (all_groups rest))
  end.

Definition table_of (d : list (nat * mcirc)) (M : mapping) : list (nat * pinfo) :=
  map (fun lq => (fst lq,
                  match alookup M (fst lq) with
                  | Some m => mkPI (snd lq) (fst m) (Some (snd m))
                  | None => mkPI (snd lq) [] (Some [])          (* unreachable: M has the keys of d *)
                  end)) d.

Definition label_A : nat := 0.

(* ---------------------------------------------------------------------------------------------
   generate_cutting_experiments(circuits, observables, num_samples)
   --------------------------------------------------------------------------------------------- *)
Definition generate (gh gsx : nat) (env : benv) (cenv : list (list Q))
           (circuits : circuits_arg) (observables : observables_arg) (N : nsamples) (weights : sdict)
  : res (experiments * list (Q * wkind)) :=
  let coeffs_of (bases : list nat) := map (fun b => nth b cenv []) bases in
  match circuits, observables with
  | CSingle _, ODict _ | CSingle _, OOther => Refused           (* QuantumCircuit but not a PauliList *)
  | CDict _, OPaulis _ | CDict _, OOther => Refused             (* dict but observables not a dict *)
  | _, _ =>
      if negb (ge1 N) then Refused else                         (* not num_samples >= 1 *)
      match circuits, observables with
      | CSingle qc, OPaulis gs =>
          res_bind gs (fun groups =>                            (* decompose_observables + ObservableCollection *)
          res_bind (get_bases 0 (mdata qc)) (fun bi =>
          res_bind (core gh gsx env (coeffs_of (fst bi)) [(label_A, mkPI qc (snd bi) None)]
                         [(label_A, groups)] weights) (fun r =>
          match fst r with
          | [(_, l)] => Ok (OutList l, snd r)
          | _ => Crashed                                        (* assert len(subexperiments_out.keys()) == 1 *)
          end)))
      | CDict d, ODict od =>
          res_bind (mapping_by_partition d) (fun M =>
          let bases := bases_by_partition d in
          res_bind (all_groups od) (fun og =>
          res_bind (core gh gsx env (coeffs_of bases) (table_of d M) og weights) (fun r =>
          Ok (OutDict (fst r), snd r))))
      | _, _ => Crashed                                         (* circuits.items(): AttributeError *)
      end
  end.

(* Model/Validation.v — C18: the argument-validation blocks of every public entry point.

   For each entry point there is an INPUT ABSTRACTION (a record / argument list holding exactly
   what the validation code reads) and a total function  api_f : input -> outcome  made of the
   validation blocks IN SOURCE ORDER.  outcome = res unit from Base.v:
       Proceeds (= Ok tt)  validation passed; the rest of the function runs (modelled by C01..C17)
       Refused             a ValueError was raised.  It carries no value: nothing is returned
       Crashed             another exception (only where the source order puts an undocumented
                           failure before a documented one, e.g. IndexError on circuit.data[k])
   NO proofs in this file.

   Repaired behaviour is what is modelled for the three entry points that can mutate their
   argument (inplace=True): every check happens BEFORE the first assignment
     F7  decompose_qpd_instructions   (unrepaired: map ids are range-checked by the basis_id
                                       setter inside the assignment loop)
     F12 partition_circuit_qubits     (unrepaired: circuit.data[i] replaced inside the checking loop)
     F13 cut_gates                    (unrepaired: likewise)
   *_final gives the state of the argument after a call with inplace=True.
   dq_run_interleaved is the UNREPAIRED loop of decompose_qpd_instructions, kept only to state
   the difference (Properties/C18.v, c18_f7_interleaved_breaks_frame).

   Outside the model (the harness never sends them): negative Python indices into circuit.data,
   duplicate ids in cut_gates, zero-length PauliList with a QuantumCircuit, non-numeric budgets. *)
From Coq Require Import QArith.
From CKT Require Import Common.Base.
Close Scope Q_scope.

Definition outcome := res unit.
Notation Proceeds := (Ok tt).

(* sequencing of validation blocks *)
Definition andthen (a b : outcome) : outcome :=
  match a with Ok _ => b | Refused => Refused | Crashed => Crashed end.
Definition refuse_if (c : bool) : outcome := if c then Refused else Proceeds.

Definition is_none {A} (o : option A) : bool := match o with None => true | Some _ => false end.

(* ---------- numeric limits: Python float/int including the IEEE specials ---------- *)
Inductive budget := BNum (q : Q) | BNaN | BInf | BNegInf.
(* b >= k  and  b < k  with Python semantics: every comparison with NaN is False *)
Definition b_ge (b : budget) (k : Q) : bool :=
  match b with BNum q => Qle_bool k q | BInf => true | BNaN => false | BNegInf => false end.
Definition b_lt (b : budget) (k : Q) : bool :=
  match b with BNum q => negb (Qle_bool k q) | BNegInf => true | BNaN => false | BInf => false end.
Definition Q1 : Q := 1 # 1.
Definition Q0 : Q := 0 # 1.

(* ---------- qpd/weights.py  _generate_qpd_weights:  if not num_samples >= 1 ---------- *)
Definition api_generate_qpd_weights (n : budget) : outcome := refuse_if (negb (b_ge n Q1)).

(* ---------- automated_cut_finding.py DeviceConstraints.__post_init__ ---------- *)
Definition api_device_constraints (w : budget) : outcome := refuse_if (b_lt w Q1).

(* ---------- cut_finding/optimization_settings.py __post_init__ ---------- *)
Definition api_opt_settings (max_gamma : budget) (max_backjumps : option budget) : outcome :=
  andthen (refuse_if (b_lt max_gamma Q1))
          (refuse_if (match max_backjumps with Some b => b_lt b Q0 | None => false end)).

(* ---------- qpd/decompositions.py ---------- *)
(* what qpdbasis_from_instruction reads from the gate *)
Record gate_desc := mkGD {
  gd_registered : bool;   (* gate.name in _qpdbasis_from_instruction_funcs *)
  gd_param : bool;        (* registered function reads _theta_from_instruction (rxx ryy rzz crx cry crz cp) *)
  gd_bound : bool;        (* float(gate.params[0]) succeeds *)
  gd_gate2 : bool;        (* isinstance(gate, Gate) and gate.num_qubits == 2 *)
  gd_matrix : bool        (* gate.to_matrix() succeeds *)
}.
Definition api_theta (bound : bool) : outcome := refuse_if (negb bound).
Definition api_from_instruction (g : gate_desc) : outcome :=
  if gd_registered g then (if gd_param g then api_theta (gd_bound g) else Proceeds)
  else if gd_gate2 g then refuse_if (negb (gd_matrix g))
  else Refused.

(* ---------- circuits as the partitioning code sees them ---------- *)
Inductive gkind := KBarrier | KQpd2 | KOp (d : gate_desc).
Record ginst := mkG { gi_kind : gkind; gi_qs : list nat }.
Definition label := option nat.            (* None = the Python label None; Some k = interned hashable *)
Definition label_beq : label -> label -> bool := option_beq Nat.eqb.
Fixpoint distinct (l : list label) : list label :=
  match l with
  | [] => []
  | x :: r => if existsb (label_beq x) r then distinct r else x :: distinct r
  end.
(* len({partition_labels[idx] for idx in qubit_indices}) *)
Definition spanned (labels : list label) (qs : list nat) : nat :=
  length (distinct (map (fun q => nth q labels None) qs)).
Definition is_qpd2 (g : ginst) : bool := match gi_kind g with KQpd2 => true | _ => false end.
Definition is_barrier (g : ginst) : bool := match gi_kind g with KBarrier => true | _ => false end.

(* ---------- cutting_decomposition.py partition_circuit_qubits ---------- *)
Inductive pcq_act := PSkip | PCut | PRefuse.
Definition pcq_step (labels : list label) (g : ginst) : pcq_act :=
  match gi_kind g with
  | KBarrier => PSkip
  | k =>
    if (length (gi_qs g) <=? 1) || (spanned labels (gi_qs g) =? 1) then PSkip
    else if 2 <? length (gi_qs g) then PRefuse
    else match k with
         | KQpd2 => PSkip
         | KOp d => match api_from_instruction d with Ok _ => PCut | _ => PRefuse end
         | KBarrier => PSkip
         end
  end.
Definition pcq_refuses (labels : list label) (g : ginst) : bool :=
  match pcq_step labels g with PRefuse => true | _ => false end.
Definition pcq_cuts (labels : list label) (g : ginst) : bool :=
  match pcq_step labels g with PCut => true | _ => false end.
Definition pcq_loop (labels : list label) (insts : list ginst) : outcome :=
  refuse_if (existsb (pcq_refuses labels) insts).

Record pcq_in := mkPcq { pq_nq : nat; pq_labels : list label; pq_insts : list ginst }.
Definition api_pcq (i : pcq_in) : outcome :=
  andthen (refuse_if (negb (length (pq_labels i) =? pq_nq i)))
          (pcq_loop (pq_labels i) (pq_insts i)).
(* which positions of the ARGUMENT hold a TwoQubitQPDGate after the call with inplace=True *)
Definition pcq_final (i : pcq_in) : list bool :=
  match api_pcq i with
  | Ok _ => map (fun g => is_qpd2 g || pcq_cuts (pq_labels i) g) (pq_insts i)
  | _ => map is_qpd2 (pq_insts i)
  end.

(* UNREPAIRED loop (F12, current behaviour; used only when KNOWN_FINDINGS lists F12 and for the
   refutation example): circuit.data[i] is replaced inside the checking loop *)
Fixpoint pcq_interleaved (labels : list label) (insts : list ginst) : outcome * list bool :=
  match insts with
  | [] => (Proceeds, [])
  | g :: r => match pcq_step labels g with
              | PRefuse => (Refused, map is_qpd2 (g :: r))
              | a => let (o, t) := pcq_interleaved labels r in
                     (o, (is_qpd2 g || match a with PCut => true | _ => false end) :: t)
              end
  end.
Definition pcq_run_interleaved (i : pcq_in) : outcome * list bool :=
  if negb (length (pq_labels i) =? pq_nq i) then (Refused, map is_qpd2 (pq_insts i))
  else pcq_interleaved (pq_labels i) (pq_insts i).

(* ---------- cutting_decomposition.py cut_gates ---------- *)
Record cg_in := mkCg { cg_ncregs : nat; cg_nclbits : nat; cg_ops : list gate_desc; cg_ids : list nat }.
Fixpoint cg_check (ops : list gate_desc) (ids : list nat) : outcome :=
  match ids with
  | [] => Proceeds
  | k :: r => match nth_error ops k with
              | None => Crashed                                  (* IndexError *)
              | Some d => andthen (api_from_instruction d) (cg_check ops r)
              end
  end.
Definition has_clbits (ncregs nclbits : nat) : bool := negb (ncregs =? 0) || negb (nclbits =? 0).
Definition api_cut_gates (i : cg_in) : outcome :=
  andthen (refuse_if (has_clbits (cg_ncregs i) (cg_nclbits i))) (cg_check (cg_ops i) (cg_ids i)).
(* which positions of the argument were replaced (inplace=True) *)
Definition cg_final (i : cg_in) : list bool :=
  match api_cut_gates i with
  | Ok _ => map (fun k => existsb (Nat.eqb k) (cg_ids i)) (seq 0 (length (cg_ops i)))
  | _ => repeat false (length (cg_ops i))
  end.

(* UNREPAIRED loop (F13, current behaviour): each gate is replaced as soon as its basis exists;
   a replaced position holds a TwoQubitQPDGate, which from_instruction does not support *)
Definition qpd_desc : gate_desc := mkGD false false false false false.
Fixpoint cg_interleaved (ops : list gate_desc) (done : list bool) (ids : list nat) : outcome * list bool :=
  match ids with
  | [] => (Proceeds, done)
  | k :: r => match nth_error ops k with
              | None => (Crashed, done)
              | Some d => match api_from_instruction d with
                          | Ok _ => cg_interleaved (upd ops k qpd_desc) (upd done k true) r
                          | e => (e, done)
                          end
              end
  end.
Definition cg_run_interleaved (i : cg_in) : outcome * list bool :=
  let none := repeat false (length (cg_ops i)) in
  if has_clbits (cg_ncregs i) (cg_nclbits i) then (Refused, none)
  else cg_interleaved (cg_ops i) none (cg_ids i).

(* ---------- cutting_decomposition.py partition_problem ---------- *)
Record pp_in := mkPp {
  pp_nq : nat;
  pp_labels : option (list label);
  pp_obs : option (list (nat * nat));      (* per observable: (len(obs), obs.phase) *)
  pp_ncregs : nat;
  pp_nclbits : nat;
  pp_insts : list ginst;
  pp_support : list (list nat)             (* per observable: the qubits it acts on non-trivially *)
}.
Definition none_label_used (l : list label) (insts : list ginst) : bool :=
  existsb (fun g => existsb (fun q => is_none (nth q l None)) (gi_qs g)) insts.
(* automatic labels (_partition_labels_from_circuit): only which qubits get None matters here:
   exactly the qubits no instruction touches *)
Definition touched (insts : list ginst) (q : nat) : bool := existsb (fun g => existsb (Nat.eqb q) (gi_qs g)) insts.
Definition auto_labels (nq : nat) (insts : list ginst) : list label :=
  map (fun q => if touched insts q then Some 0 else None) (seq 0 nq).
(* fifth guard (idle group): an observable acts non-trivially on a qubit whose label is None *)
Definition idle_observable (l : list label) (support : list (list nat)) : bool :=
  existsb (existsb (fun q => is_none (nth q l None))) support.
(* `if observables:` is a truthiness test: None and the empty list skip the idle-group check *)
Definition pp_support_eff (i : pp_in) : list (list nat) :=
  match pp_obs i with Some (_ :: _) => pp_support i | _ => [] end.
Definition api_partition_problem (i : pp_in) : outcome :=
  andthen (refuse_if (match pp_labels i with Some l => negb (length l =? pp_nq i) | None => false end))
 (andthen (refuse_if (match pp_obs i with Some o => existsb (fun p => negb (fst p =? pp_nq i)) o | None => false end))
 (andthen (refuse_if (match pp_obs i with Some o => existsb (fun p => negb (snd p =? 0)) o | None => false end))
 (andthen (refuse_if (has_clbits (pp_ncregs i) (pp_nclbits i)))
   (match pp_labels i with
    | None =>               (* automatic labels = connected components: no gate spans two of them *)
        refuse_if (idle_observable (auto_labels (pp_nq i) (pp_insts i)) (pp_support_eff i))
    | Some l => andthen (pcq_loop l (pp_insts i))                         (* partition_circuit_qubits *)
               (andthen (refuse_if (none_label_used l (pp_insts i)))      (* separate_circuit: label None must be idle *)
                        (refuse_if (idle_observable l (pp_support_eff i))))
    end)))).

(* ---------- automated_cut_finding.py find_cuts ---------- *)
Record fc_in := mkFc { fc_insts : list ginst; fc_gamma : budget; fc_backjumps : option budget }.
(* qc_to_cco_circuit: QPDBasis.from_instruction on every two-qubit Gate *)
Definition fc_convert_refuses (g : ginst) : bool :=
  match gi_kind g with
  | KOp d => gd_gate2 d && (length (gi_qs g) =? 2) && negb (is_ok (api_from_instruction d))
  | _ => false
  end.
(* cut_optimization_next_state_func: a multi-qubit non-barrier gate on other than 2 qubits *)
Definition fc_wide (g : ginst) : bool := negb (is_barrier g) && (2 <? length (gi_qs g)).
Definition api_find_cuts (i : fc_in) : outcome :=
  andthen (refuse_if (existsb fc_convert_refuses (fc_insts i)))
 (andthen (api_opt_settings (fc_gamma i) (fc_backjumps i))
          (refuse_if (existsb fc_wide (fc_insts i)))).

Definition any_phase (l : list nat) : bool := existsb (fun p => negb (p =? 0)) l.

(* ---------- cutting_experiments.py generate_cutting_experiments ---------- *)
Inductive cform := CCircuit | CDict | COther.     (* type of `circuits` *)
Inductive oform := OPauliList | ODict | OOther.   (* type of `observables` *)
Inductive gen_kind := GQpd1 (suffix_int : bool)   (* SingleQubitQPDGate; int(label.split("_")[-1]) succeeds *)
                    | GQpd2 | GOther.
Definition is_q1 (k : gen_kind) : bool := match k with GQpd1 _ => true | _ => false end.
Definition bad_label (k : gen_kind) : bool := match k with GQpd1 false => true | _ => false end.
Definition is_ccircuit c := match c with CCircuit => true | _ => false end.
Definition is_cdict c := match c with CDict => true | _ => false end.
Definition is_oplist o := match o with OPauliList => true | _ => false end.
Definition is_odict o := match o with ODict => true | _ => false end.
Definition api_get_bases (c : list gen_kind) : outcome := refuse_if (existsb is_q1 c).
Definition api_mapping_ids (cs : list (list gen_kind)) : outcome :=
  refuse_if (existsb (existsb bad_label) cs).
Record gen_in := mkGen { ge_cform : cform; ge_oform : oform; ge_budget : budget;
                         ge_circs : list (list gen_kind);    (* one list per subcircuit, dict order *)
                         ge_phases : list (list nat);        (* dict form: phases of observables[label], dict order *)
                         ge_tail : list (bool * bool) }.     (* per observables label, in order:
                                                                (label is a key of circuits, observable width = subcircuit width) *)
(* experiment loop: subcircuit_dict[label] (KeyError) then _append_measurement_circuit's qubit-count check *)
Fixpoint gen_tail (t : list (bool * bool)) : outcome :=
  match t with
  | [] => Proceeds
  | (haskey, sizeok) :: r => if negb haskey then Crashed else if negb sizeok then Refused else gen_tail r
  end.
Definition api_generate (i : gen_in) : outcome :=
  andthen (refuse_if (is_ccircuit (ge_cform i) && negb (is_oplist (ge_oform i))))
 (andthen (refuse_if (is_cdict (ge_cform i) && negb (is_odict (ge_oform i))))
 (andthen (refuse_if (negb (b_ge (ge_budget i) Q1)))
   (match ge_cform i with
    | CCircuit => andthen (api_get_bases (hd [] (ge_circs i))) (gen_tail (ge_tail i))
                  (* a phase on a PauliList is silently dropped here (observables_restricted_to_subsystem) *)
    | CDict => andthen (api_mapping_ids (ge_circs i))
              (andthen (refuse_if (existsb any_phase (ge_phases i)))      (* ObservableCollection -> CommutingObservableGroup *)
                       (gen_tail (ge_tail i)))
    | COther => Crashed                                  (* circuits.items(): AttributeError *)
    end))).

(* ---------- cutting_reconstruction.py reconstruct_expectation_values ---------- *)
Inductive rform := RResult | RDict | ROther.      (* SamplerResult/PrimitiveResult | Mapping | else *)
Definition is_rresult r := match r with RResult => true | _ => false end.
Definition is_rdict r := match r with RDict => true | _ => false end.
Record rec_in := mkRec {
  rc_oform : oform;
  rc_rform : rform;
  rc_phases : list (list nat);     (* per subsystem in observables order (one list for a PauliList) *)
  rc_keys_match : bool;            (* observables.keys() == results.keys() *)
  rc_ncoef : nat;
  rc_counts : list (nat * nat)     (* per subsystem: (len(results[label]), number of commuting groups) *)
}.
Definition rc_count_guard (i : rec_in) : outcome :=
  refuse_if (existsb (fun p => negb (fst p =? rc_ncoef i * snd p)) (rc_counts i)).
Definition api_reconstruct (i : rec_in) : outcome :=
  match rc_oform i with
  | OPauliList =>
      andthen (refuse_if (negb (is_rresult (rc_rform i))))
     (andthen (refuse_if (any_phase (hd [] (rc_phases i))))
              (rc_count_guard i))
  | ODict =>
      andthen (refuse_if (negb (is_rdict (rc_rform i))))
     (andthen (refuse_if (negb (rc_keys_match i)))
     (andthen (refuse_if (existsb any_phase (rc_phases i)))
              (rc_count_guard i)))
  | OOther => Refused
  end.

(* ---------- qpd/qpd_basis.py ---------- *)
(* maps abstracted to the tuple length of every map *)
Definition api_set_maps (ar : list nat) : outcome :=
  match ar with
  | [] => Refused
  | a0 :: r => andthen (refuse_if (2 <? a0)) (refuse_if (existsb (fun a => negb (a =? a0)) r))
  end.
Definition api_set_coeffs (nmaps ncoeffs : nat) : outcome := refuse_if (negb (ncoeffs =? nmaps)).
Definition api_qpdbasis (ar : list nat) (ncoeffs : nat) : outcome :=
  andthen (api_set_maps ar) (api_set_coeffs (length ar) ncoeffs).

(* ---------- qpd/instructions/qpd_gate.py ---------- *)
Definition in_range (m : Z) (n : nat) : bool := (0 <=? m)%Z && (m <? Z.of_nat n)%Z.
Definition api_set_basis_id (nmaps : nat) (bid : option Z) : outcome :=
  refuse_if (match bid with Some b => negb (in_range b nmaps) | None => false end).
Definition api_set_qubit_id (basis_nq : nat) (qid : Z) : outcome :=
  refuse_if (Z.of_nat basis_nq <=? qid)%Z.
(* SingleQubitQPDGate(basis, qubit_id, basis_id=bid): BaseQPDGate.__init__ (basis_id setter), then _set_qubit_id *)
Definition api_q1gate (basis_nq nmaps : nat) (qid : Z) (bid : option Z) : outcome :=
  andthen (api_set_basis_id nmaps bid) (api_set_qubit_id basis_nq qid).
Definition api_q2gate (basis_nq nmaps : nat) (bid : option Z) : outcome :=
  andthen (refuse_if (negb (basis_nq =? 2))) (api_set_basis_id nmaps bid).

(* ---------- qpd/decompose.py decompose_qpd_instructions ---------- *)
Inductive dq_inst := DQ (basis nmaps : nat) (bid : option nat)   (* BaseQPDGate: basis handle (== class), len(basis.maps), basis_id *)
                   | DOther.
(* map_ids: None = argument omitted; an ENTRY None is refused by the pre-validation (32107ac).
   dq_two: the positions of the circuit that hold a TwoQubitQPDGate (read by the 50945eb guard) *)
Record dq_in := mkDq { dq_circ : list dq_inst; dq_ids : list (list nat); dq_maps : option (list (option Z));
                       dq_two : list nat }.

(* _validate_qpd_instructions, in source order (7 raise sites) *)
Section DqValidate.
Variable two : list nat.
Definition dq_is_two (k : nat) : bool := existsb (Nat.eqb k) two.
Section Members.
Variable pair : bool.           (* len(decomp_ids) == 2 *)
Fixpoint dq_members (c : list dq_inst) (b0 : nat) (g : list nat) : outcome :=
  match g with
  | [] => Proceeds
  | k :: r => match nth_error c k with
              | None => Crashed                                             (* IndexError *)
              | Some DOther => Refused                                      (* not a QPD gate *)
              | Some (DQ b _ _) => if negb (b =? b0) then Refused           (* bases differ *)
                                   else if pair && dq_is_two k then Refused (* TwoQubitQPDGate inside a pair *)
                                   else dq_members c b0 r
              end
  end.
End Members.
Definition dq_group (c : list dq_inst) (g : list nat) : outcome :=
  if negb ((length g =? 1) || (length g =? 2)) then Refused else
  match g with
  | [] => Refused
  | k0 :: _ => match nth_error c k0 with
               | None => Crashed
               | Some DOther => Refused
               | Some (DQ b0 _ _) => dq_members (length g =? 2) c b0 g
               end
  end.
Fixpoint dq_groups (c : list dq_inst) (ids : list (list nat)) : outcome :=
  match ids with [] => Proceeds | g :: r => andthen (dq_group c g) (dq_groups c r) end.
End DqValidate.
Definition dq_is_qpd (x : dq_inst) : bool := match x with DQ _ _ _ => true | DOther => false end.
Fixpoint has_dup (l : list nat) : bool :=
  match l with [] => false | x :: r => existsb (Nat.eqb x) r || has_dup r end.
(* len(set(flat_ids)) != len(flat_ids) *)
Definition dq_repeated (ids : list (list nat)) : bool := has_dup (concat ids).
Definition dq_total_mismatch (c : list dq_inst) (ids : list (list nat)) : bool :=
  negb (length (filter dq_is_qpd c) =? list_sum (map (@length nat) ids)).
Definition api_validate_qpd (two : list nat) (c : list dq_inst) (ids : list (list nat)) : outcome :=
  andthen (dq_groups two c ids)
 (andthen (refuse_if (dq_repeated ids))
          (refuse_if (dq_total_mismatch c ids))).
Definition dq_validate (i : dq_in) : outcome := api_validate_qpd (dq_two i) (dq_circ i) (dq_ids i).

(* first pass (F7 repair): every map id against the basis of every gate it will be assigned to *)
Definition map_ok (m : option Z) (n : nat) : bool := match m with Some z => in_range z n | None => false end.
Definition dq_gate_ok (c : list dq_inst) (m : option Z) (k : nat) : bool :=
  match nth_error c k with Some (DQ _ n _) => map_ok m n | _ => true end.
Definition dq_check (c : list dq_inst) (gm : list (list nat * option Z)) : bool :=
  forallb (fun p => forallb (dq_gate_ok c (snd p)) (fst p)) gm.
(* second pass: the assignment loop *)
Definition bid_of_map (m : option Z) : option nat := option_map Z.to_nat m.
Definition dq_set (c : list dq_inst) (k : nat) (m : option Z) : list dq_inst :=
  match nth_error c k with Some (DQ b n _) => upd c k (DQ b n (bid_of_map m)) | _ => c end.
Definition dq_assign_group (c : list dq_inst) (g : list nat) (m : option Z) : list dq_inst :=
  fold_left (fun c' k => dq_set c' k m) g c.
Fixpoint dq_assign (c : list dq_inst) (gm : list (list nat * option Z)) : list dq_inst :=
  match gm with [] => c | p :: r => dq_assign (dq_assign_group c (fst p) (snd p)) r end.

(* _decompose_qpd_instructions (c8b859e): every QPD gate needs a basis_id BEFORE any rewriting *)
Definition dq_unset (x : dq_inst) : bool := match x with DQ _ _ None => true | _ => false end.
Definition dq_stage3 (c : list dq_inst) : outcome * list dq_inst :=
  (refuse_if (existsb dq_unset c), c).
(* (outcome of validation + map-id stage + unset check, state of the argument circuit with inplace=True
   at that point: nothing has been rewritten yet) *)
Definition dq_run (i : dq_in) : outcome * list dq_inst :=
  let c := dq_circ i in
  match dq_validate i with
  | Ok _ =>
      match dq_maps i with
      | None => dq_stage3 c
      | Some ms =>
          if negb (length (dq_ids i) =? length ms) then (Refused, c)
          else let gm := combine (dq_ids i) ms in
               if dq_check c gm then dq_stage3 (dq_assign c gm) else (Refused, c)
      end
  | Refused => (Refused, c)
  | Crashed => (Crashed, c)
  end.
Definition api_decompose (i : dq_in) : outcome := fst (dq_run i).
Definition dq_final (i : dq_in) : list dq_inst := snd (dq_run i).

(* the UNREPAIRED loop (for reference only): check and assignment interleaved, as the basis_id
   setter does it; stops at the first bad id with the earlier assignments already made *)
Fixpoint dq_interleaved_group (c : list dq_inst) (g : list nat) (m : option Z) : outcome * list dq_inst :=
  match g with
  | [] => (Proceeds, c)
  | k :: r => if dq_gate_ok c m k then dq_interleaved_group (dq_set c k m) r m else (Refused, c)
  end.
Fixpoint dq_interleaved (c : list dq_inst) (gm : list (list nat * option Z)) : outcome * list dq_inst :=
  match gm with
  | [] => (Proceeds, c)
  | p :: r => match dq_interleaved_group c (fst p) (snd p) with
              | (Ok _, c') => dq_interleaved c' r
              | e => e
              end
  end.
Definition dq_run_interleaved (i : dq_in) : outcome * list dq_inst :=
  let c := dq_circ i in
  match dq_validate i with
  | Ok _ =>
      match dq_maps i with
      | None => (Proceeds, c)
      | Some ms => if negb (length (dq_ids i) =? length ms) then (Refused, c)
                   else dq_interleaved c (combine (dq_ids i) ms)
      end
  | Refused => (Refused, c)
  | Crashed => (Crashed, c)
  end.

(* ---------- utils/transforms.py separate_circuit ---------- *)
Record sep_in := mkSep { sp_nq : nat; sp_labels : option (list label);
                         sp_insts : list (bool * list nat) }.   (* (is barrier, qubits) *)
(* _split_barriers: an n-qubit barrier becomes n one-qubit barriers *)
Definition sp_split (insts : list (bool * list nat)) : list (list nat) :=
  flat_map (fun p : bool * list nat => if fst p then map (fun q => [q]) (snd p) else [snd p]) insts.
Fixpoint api_sep_instructions (labels : list label) (insts : list (list nat)) : outcome :=
  match insts with
  | [] => Proceeds
  | qs :: r =>
      if existsb (fun q => is_none (nth q labels None)) qs then Refused
      else match spanned labels qs with
           | 1 => api_sep_instructions labels r
           | 0 => Crashed                      (* assert len(partitions_spanned) != 0 *)
           | _ => Refused
           end
  end.
Definition api_separate (i : sep_in) : outcome :=
  match sp_labels i with
  | None => Proceeds
  | Some l => andthen (refuse_if (negb (length l =? sp_nq i)))
                      (api_sep_instructions l (sp_split (sp_insts i)))
  end.

(* ---------- wire_cutting_transforms.py expand_observables ---------- *)
Definition api_expand (obs_nq : nat) (orig_qubits final_qubits : list nat) : outcome :=
  andthen (refuse_if (negb (obs_nq =? length orig_qubits)))
          (refuse_if (existsb (fun q => negb (existsb (Nat.eqb q) final_qubits)) orig_qubits)).

(* ---------- utils/simulation.py simulate_statevector_outcomes ---------- *)
Record sim_inst := mkSim { si_cond : bool; si_nonunitary : bool (* measure / reset *); si_nclbits : nat }.
Definition sim_refuses (s : sim_inst) : bool :=
  si_cond s || (negb (si_nonunitary s) && negb (si_nclbits s =? 0)).
Definition api_simulate (insts : list sim_inst) : outcome := refuse_if (existsb sim_refuses insts).

(* ---------- utils/observable_grouping.py ---------- *)
(* letters 0=I 1=X 2=Y 3=Z; an entry None = something other than a Pauli *)
Fixpoint mgo_merge (rv o : list nat) : option (list nat) :=
  match rv, o with
  | r :: rs, x :: xs =>
      if x =? 0 then option_map (cons r) (mgo_merge rs xs)
      else if r =? x then option_map (cons r) (mgo_merge rs xs)
      else if negb (r =? 0) then None
      else option_map (cons x) (mgo_merge rs xs)
  | _, _ => Some rv
  end.
Fixpoint mgo_loop (nq : nat) (rv : list nat) (obs : list (option (list nat))) : outcome :=
  match obs with
  | [] => Proceeds
  | None :: _ => Refused
  | Some o :: r => if negb (length o =? nq) then Refused
                   else match mgo_merge rv o with None => Refused | Some rv' => mgo_loop nq rv' r end
  end.
Definition api_mgo (obs : list (option (list nat))) (num_qubits : option nat) : outcome :=
  match obs with
  | [] => Refused
  | o0 :: _ =>
      let nq := match num_qubits with Some n => n | None => match o0 with Some l => length l | None => 0 end end in
      mgo_loop nq (repeat 0 nq) obs
  end.
Definition api_cog (phases : list nat) : outcome := refuse_if (any_phase phases).

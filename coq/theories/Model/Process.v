(* Model/Process.v — process-state model for property C09.

   What lives for the whole life of a Python process that has imported qiskit_addon_cutting
   (the list is the extracted fact c09_module_globals, see Properties/C09.v):

     cut_finding/cutting_actions.py:25     disjoint_subcircuit_actions = ActionNames()     (filled by 5 define_action at import)
     cut_finding/cut_optimization.py:132   cut_optimization_search_funcs = SearchFunctions(...)
     cut_finding/lo_cuts_optimizer.py:33   cut_optimization_search_funcs = SearchFunctions(...)   (the one find_cuts uses)
     qpd/decompositions.py:68              _qpdbasis_from_instruction_funcs = {}          (filled by decorators at import)
     numpy's global RandomState, Python's global `random` state

   and the three classes of public calls of the property, as a transition function
       step : gstate -> call -> gstate * result
   that performs exactly the reads and writes of process state found by tools/facts_c09.py
   (c09_global_writes / c09_global_uses / c09_rng_uses).  What the calls compute from their
   arguments (the models of C07 / C05 / C02) is abstract: a record of oracle functions.
   No proofs here (Proofs/ProcessP.v). *)
From Coq Require Import String QArith Qabs.
From CKT Require Import Common.Base.
Close Scope Q_scope.
Open Scope string_scope.
Open Scope list_scope.

(* ------------------------------------------------------------------------------------------ *)
(* ActionNames  (cut_finding/search_space_generator.py:26-96)                                 *)
(* ------------------------------------------------------------------------------------------ *)

(* action names and group names are None or a string *)
Definition gname := option string.
Definition gname_eqb (a b : gname) : bool := option_beq String.eqb a b.

(* An action object is stateless (fact c09_registry_method_writes lists no self-write for the
   action classes); it is what get_name() / get_group_names() return. *)
Record action := mkA { a_name : gname ; a_groups : list gname }.

Definition action_beq (a b : action) : bool :=
  gname_eqb (a_name a) (a_name b) && list_beq gname_eqb (a_groups a) (a_groups b).

(* the two dicts, in Python insertion order *)
Record action_names := mkAN {
  action_dict : list (gname * action) ;
  group_dict  : list (gname * list action) }.

Definition an_empty : action_names := mkAN [] [].        (* ActionNames.__init__ *)

Fixpoint dict_mem {V} (k : gname) (d : list (gname * V)) : bool :=
  match d with
  | [] => false
  | (k', _) :: r => gname_eqb k k' || dict_mem k r
  end.

(* self.group_dict[name].append(action_object)   for a key that is present *)
Fixpoint dict_append (k : gname) (a : action) (d : list (gname * list action)) : list (gname * list action) :=
  match d with
  | [] => []
  | (k', l) :: r => if gname_eqb k k' then (k', l ++ [a]) :: r else (k', l) :: dict_append k a r
  end.

(*  if name not in self.group_dict: self.group_dict[name] = []
    self.group_dict[name].append(action_object)                                   *)
Definition group_add (gd : list (gname * list action)) (k : gname) (a : action) : list (gname * list action) :=
  if dict_mem k gd then dict_append k a gd else gd ++ [(k, [a])].

(* define_action: `assert name not in self.action_dict` (AssertionError = Crashed), insert, then
   one group_add per group name in the order of get_group_names() *)
Definition define_action (an : action_names) (a : action) : res action_names :=
  if dict_mem (a_name a) (action_dict an) then Crashed
  else Ok (mkAN (action_dict an ++ [(a_name a, a)])
                (fold_left (fun gd g => group_add gd g a) (a_groups a) (group_dict an))).

(* get_action_subset(action_list, action_groups)  (search_space_generator.py:99-117) *)
Definition intersects (gs : list gname) (a : action) : bool :=
  existsb (fun g => existsb (gname_eqb g) (a_groups a)) gs.

Definition get_action_subset (l : list action) (groups : option (list gname)) : list action :=
  match groups with
  | None => l
  | Some gs => let gs' := match gs with [] => [None] | _ => gs end in filter (intersects gs') l
  end.

Definition define_all (start : res action_names) (l : list action) : res action_names :=
  fold_left (fun acc a => res_bind acc (fun c => define_action c a)) l start.

(* ActionNames.copy(list_of_groups): READS self.action_dict, fills a NEW container *)
Definition an_copy (an : action_names) (groups : option (list gname)) : res action_names :=
  define_all (Ok an_empty) (get_action_subset (map snd (action_dict an)) groups).

(* OptimizationSettings.get_cut_search_groups (optimization_settings.py:117-135) under LO-only flags *)
Definition cut_search_groups (gate_lo wire_lo : bool) : list gname :=
  [None] ++ (if gate_lo then [Some "GateCut"] else []) ++ (if wire_lo then [Some "WireCut"] else []).

(* the five import-time registrations of cutting_actions.py, in source order (fact c09_action_table) *)
Definition registered_actions : list action :=
  [ mkA None [None; Some "TwoQubitGates"] ;
    mkA (Some "CutTwoQubitGate") [Some "GateCut"; Some "TwoQubitGates"] ;
    mkA (Some "CutLeftWire")  [Some "WireCut"; Some "TwoQubitGates"] ;
    mkA (Some "CutRightWire") [Some "WireCut"; Some "TwoQubitGates"] ;
    mkA (Some "CutBothWires") [Some "WireCut"; Some "TwoQubitGates"] ].

Definition import_actions : res action_names := define_all (Ok an_empty) registered_actions.

(* observable view used by the correspondence: keys, names/groups of the stored objects, group members *)
Definition an_view (an : action_names) : list (gname * (gname * list gname)) * list (gname * list gname) :=
  (map (fun p => (fst p, (a_name (snd p), a_groups (snd p)))) (action_dict an),
   map (fun p => (fst p, map a_name (snd p))) (group_dict an)).

(* ------------------------------------------------------------------------------------------ *)
(* SearchFunctions  (search_space_generator.py:120-189): five slots holding function objects  *)
(* ------------------------------------------------------------------------------------------ *)

Definition func_id := string.     (* a function object = its definition; the harness checks `is` *)

Record func_table := mkFT {
  cost_func : option func_id ;
  next_state_func : option func_id ;
  goal_state_func : option func_id ;
  upperbound_cost_func : option func_id ;
  mincost_bound_func : option func_id }.

Definition set_goal (t : func_table) (v : option func_id) : func_table :=
  mkFT (cost_func t) (next_state_func t) v (upperbound_cost_func t) (mincost_bound_func t).
Definition set_cost (t : func_table) (v : option func_id) : func_table :=
  mkFT v (next_state_func t) (goal_state_func t) (upperbound_cost_func t) (mincost_bound_func t).
Definition set_next (t : func_table) (v : option func_id) : func_table :=
  mkFT (cost_func t) v (goal_state_func t) (upperbound_cost_func t) (mincost_bound_func t).

(* greedy_best_first_search (cco_utils.py:133-139), the ONLY writes to a SearchFunctions object
   outside import time (fact c09_global_writes, the three PARAM-WRITE entries of cco_utils):
       search_space_funcs.goal_state_func = cast(Callable, search_space_funcs.goal_state_func)
       search_space_funcs.cost_func       = cast(Callable, search_space_funcs.cost_func)
       search_space_funcs.next_state_func = cast(Callable, search_space_funcs.next_state_func)
   typing.cast returns its second argument. *)
Definition greedy_writes (t : func_table) : func_table :=
  let t1 := set_goal t (goal_state_func t) in
  let t2 := set_cost t1 (cost_func t1) in
  set_next t2 (next_state_func t2).

Definition table_of (c n g u m : string) : func_table := mkFT (Some c) (Some n) (Some g) (Some u) (Some m).

(* both module-level tables are built from the same five functions (fact c09_func_tables) *)
Definition import_funcs : func_table :=
  table_of "cut_optimization_upper_bound_cost_func" "cut_optimization_next_state_func"
           "cut_optimization_goal_state_func" "cut_optimization_upper_bound_cost_func"
           "cut_optimization_min_cost_bound_func".

Definition ft_view (t : func_table) : list (option func_id) :=
  [cost_func t; next_state_func t; goal_state_func t; upperbound_cost_func t; mincost_bound_func t].

(* ------------------------------------------------------------------------------------------ *)
(* process state                                                                              *)
(* ------------------------------------------------------------------------------------------ *)

(* An opaque token naming a generator state (the harness interns sha256(get_state())). No model
   function inspects it; only oracle functions may map one token to another. *)
Definition rng_state := nat.

Record gstate := mkG {
  action_registry : action_names ;   (* cutting_actions.disjoint_subcircuit_actions *)
  funcs_cutopt : func_table ;        (* cut_optimization.cut_optimization_search_funcs *)
  funcs_lo : func_table ;            (* lo_cuts_optimizer.cut_optimization_search_funcs *)
  basis_registry : list string ;     (* keys of decompositions._qpdbasis_from_instruction_funcs *)
  np_global : rng_state ;            (* numpy.random global RandomState *)
  py_global : rng_state }.           (* random module global Random *)

Definition registries (g : gstate) : action_names * func_table * func_table * list string :=
  (action_registry g, funcs_cutopt g, funcs_lo g, basis_registry g).

(* ------------------------------------------------------------------------------------------ *)
(* calls                                                                                      *)
(* ------------------------------------------------------------------------------------------ *)

(* seed of OptimizationParameters: an integer, or None = numpy pulls entropy from the operating
   system; that entropy is then an (arbitrary) input of the call *)
Inductive seed_spec (tape : Type) := Seeded (s : Z) | Unseeded (entropy : tape).
Arguments Seeded {tape} s.
Arguments Unseeded {tape} entropy.

(* num_samples of generate_cutting_experiments: np.inf or a finite number *)
Inductive nsamples := NInf | NFin (n : Q).

(* threshold = 1 / num_samples  (weights.py:265);  1/inf = 0.0 *)
Definition threshold (ns : nsamples) : Q :=
  match ns with NInf => 0%Q | NFin n => (1 / n)%Q end.

(* ---- qpd_basis.py / weights.py: the quantity that decides between the all-exact branch and sampling ---- *)
Definition qsum (l : list Q) : Q := fold_right Qplus 0%Q l.

(* QPDBasis.coeffs setter (qpd_basis.py):  weights = np.abs(coeffs); kappa = sum(weights); probabilities = weights / kappa *)
Definition probabilities (coeffs : list Q) : list Q :=
  let kappa := qsum (map Qabs coeffs) in map (fun c => (Qabs c / kappa)%Q) coeffs.

Definition nonzero_atol_c09 : Q := (1 # 100000000000000)%Q.       (* weights._NONZERO_ATOL = 1e-14 *)

Definition qmin (a b : Q) : Q := if Qle_bool a b then a else b.

(* _min_filter_nonzero(vals) = np.min(vals[~np.isclose(vals, 0, atol)]) ; np.min of an empty selection raises ValueError *)
Definition min_filter_nonzero (vals : list Q) : option Q :=
  match filter (fun v => negb (Qle_bool (Qabs v) nonzero_atol_c09)) vals with
  | [] => None
  | v :: r => Some (fold_left qmin r v)
  end.

(* np.prod([_min_filter_nonzero(probs) for probs in independent_probabilities]) ; None = the ValueError above *)
Fixpoint prod_min_nonzero (bases : list (list Q)) : option Q :=
  match bases with
  | [] => Some 1%Q
  | b :: r => match min_filter_nonzero (probabilities b), prod_min_nonzero r with
              | Some m, Some p => Some (m * p)%Q
              | _, _ => None
              end
  end.

(* External components.  Each field is a function, so "same inputs, same output" is built in;
   the contract of a field is the comment next to it. *)
Record oracles := mkO {
  args_fc : Type ; args_ge : Type ; args_fi : Type ;      (* circuits, constraints, observables, gates … *)
  tape : Type ;                                             (* the stream of doubles of one numpy Generator *)
  res_fc : Type ; res_ge : Type ; res_fi : Type ;
  (* O-rng: np.random.default_rng(seed) for an int seed is a function of that int *)
  seeded_tape : Z -> tape ;
  fc_gate_lo : args_fc -> bool ;
  fc_wire_lo : args_fc -> bool ;
  (* find_cuts as a function of everything it READS: the fresh filtered copy of the action registry,
     the LO function table (after the greedy pass), the decomposition registry (qc_to_cco_circuit and cut_gates
     call QPDBasis.from_instruction), its arguments, and the tape of the per-search Generator (model of C07) *)
  find_cuts_pure : res action_names -> func_table -> list string -> args_fc -> tape -> res_fc ;
  (* the coefficient lists (QPDBasis.coeffs) of the bases of the cut gates of the problem, one list per basis *)
  ge_coeffs : args_ge -> list (list Q) ;
  (* weights.py:275-372 whenever the all-exact branch is not certainly taken (see clearly_all_exact): does control reach
     _populate_samples (np.random.choice)?  Includes the outcome of the float comparison inside the rounding margin. *)
  tail_reaches_sampler : args_ge -> Q -> bool ;
  (* O-choice: np.random.choice on the GLOBAL RandomState consumes state *)
  np_advance : rng_state -> args_ge -> Q -> rng_state ;
  (* generate_cutting_experiments when no sampling happens (model of C05/C04 exact part) *)
  gen_exact_pure : list string -> args_ge -> nsamples -> res_ge ;
  (* … and when sampling happens: additionally reads the global numpy state *)
  gen_sampled : list string -> args_ge -> nsamples -> rng_state -> res_ge ;
  (* QPDBasis.from_instruction: reads the decomposition registry (model of C02) *)
  from_instruction_pure : list string -> args_fi -> res_fi }.

Section Process.
Variable O : oracles.

Inductive call :=
| FindCuts (a : args_fc O) (s : seed_spec (tape O))
| Gen (a : args_ge O) (ns : nsamples)              (* GenExact a = Gen a NInf *)
| FromInstruction (a : args_fi O).

Definition GenExact (a : args_ge O) : call := Gen a NInf.

Inductive result :=
| RFind (r : res_fc O)
| RGen (r : res_ge O)
| RBasis (r : res_fi O).

Definition tape_of (s : seed_spec (tape O)) : tape O :=
  match s with Seeded z => seeded_tape O z | Unseeded e => e end.

(* _generate_qpd_weights (weights.py:256-287):
      if not num_samples >= 1: raise ValueError(...)                  (refused before anything is touched)
      threshold = 1 / num_samples
      if smallest_probability >= threshold:  … return retval          (all exact: no RNG)
   otherwise control may reach _populate_samples. *)
Definition ns_valid (ns : nsamples) : bool :=
  match ns with NInf => true | NFin n => Qle_bool 1 n end.

Definition smallest_probability (a : args_ge O) : option Q := prod_min_nonzero (ge_coeffs O a).

(* The code compares two binary64 numbers: np.prod(...) >= 1/num_samples.  The model decides in exact rationals and
   therefore only where the decision is robust against rounding: the all-exact branch is CERTAINLY taken when the exact
   smallest probability exceeds the exact threshold by the relative margin 2^-40 (k factors and one reciprocal, each
   rounded to 53 bits, err by a relative 2^-53(2k+1) << 2^-40).  Inside the margin and below the threshold the model
   makes no claim: the oracle tail_reaches_sampler decides (e.g. five cx bases, num_samples = 7776 = 6^5: exactly on the
   boundary in Q, but the float product is < the float reciprocal and the code samples).  threshold 0 (num_samples = inf)
   has margin 0. *)
Definition float_margin : Q := (1 # 1099511627776)%Q.      (* 2^-40 *)

Definition clearly_all_exact (t p : Q) : bool := Qle_bool (t * (1 + float_margin))%Q p.

Definition reaches_sampler (a : args_ge O) (ns : nsamples) : bool :=
  if negb (ns_valid ns) then false
  else match smallest_probability a with
       | None => false                       (* ValueError out of np.min: refused before any sampling *)
       | Some p => if clearly_all_exact (threshold ns) p then false
                   else tail_reaches_sampler O a (threshold ns)
       end.

(* the classes of calls the property speaks about: every find_cuts and from_instruction call, and every generation
   that does not reach the sampler — num_samples = inf always (lemma exact_never_samples), and also every finite
   num_samples >= 1/smallest_probability ("all exact weights") *)
Definition exact_class (c : call) : bool :=
  match c with
  | FindCuts _ _ => true
  | Gen a ns => negb (reaches_sampler a ns)
  | FromInstruction _ => true
  end.

Definition step (g : gstate) (c : call) : gstate * result :=
  match c with
  | FindCuts a s =>
      (* CutOptimization.__init__ (cut_optimization.py:219-227): cut_actions = search_space_actions.copy(cut_groups) *)
      let fresh := an_copy (action_registry g) (Some (cut_search_groups (fc_gate_lo O a) (fc_wire_lo O a))) in
      (* greedy_cut_optimization -> greedy_best_first_search(start_state, self.search_funcs, …): self.search_funcs IS
         lo_cuts_optimizer.cut_optimization_search_funcs (LOCutsOptimizer.__init__ puts it into search_engine_config) *)
      let tbl := greedy_writes (funcs_lo g) in
      (* BestFirstPriorityQueue.__init__: self.random_gen = np.random.default_rng(seed) — a new local Generator *)
      let t := tape_of s in
      (mkG (action_registry g) (funcs_cutopt g) tbl (basis_registry g) (np_global g) (py_global g),
       RFind (find_cuts_pure O fresh tbl (basis_registry g) a t))
  | Gen a ns =>
      if reaches_sampler a ns then
        (mkG (action_registry g) (funcs_cutopt g) (funcs_lo g) (basis_registry g)
             (np_advance O (np_global g) a (threshold ns)) (py_global g),
         RGen (gen_sampled O (basis_registry g) a ns (np_global g)))
      else (g, RGen (gen_exact_pure O (basis_registry g) a ns))
  | FromInstruction a =>
      (g, RBasis (from_instruction_pure O (basis_registry g) a))
  end.

(* A history: calls of the three kinds, interleaved with arbitrary interference of the environment with the
   two global generators (np.random.seed(..), np.random.random(), random.seed(..), random.random() …). *)
Inductive event := Call (c : call) | Perturb (np py : rng_state).

Definition estep (g : gstate) (e : event) : gstate :=
  match e with
  | Call c => fst (step g c)
  | Perturb np py => mkG (action_registry g) (funcs_cutopt g) (funcs_lo g) (basis_registry g) np py
  end.

Definition run (g : gstate) (h : list event) : gstate := fold_left estep h g.

(* results observed along a history (None for a Perturb) *)
Fixpoint trace (g : gstate) (h : list event) : list (gstate * option result) :=
  match h with
  | [] => []
  | e :: r =>
      let g' := estep g e in
      (g', match e with Call c => Some (snd (step g c)) | Perturb _ _ => None end) :: trace g' r
  end.

(* histories made of calls of the three classes only *)
Definition exact_event (e : event) : bool :=
  match e with Call c => exact_class c | Perturb _ _ => false end.

End Process.

(* a registry as define_action builds it: distinct keys, every key is the name of the action stored under it *)
Definition wf_registry (an : action_names) : Prop :=
  NoDup (map fst (action_dict an)) /\ map a_name (map snd (action_dict an)) = map fst (action_dict an).

Arguments Call {O} c.
Arguments Perturb {O} np py.

(* keys of _qpdbasis_from_instruction_funcs after import = the decorator arguments of decompositions.py in source
   order (fact registry_names; obligation c09_facts_basis_registry) *)
Definition import_basis : list string :=
  ["swap"; "iswap"; "dcx"; "rxx"; "ryy"; "rzz"; "crx"; "cry"; "crz"; "cs"; "csdg"; "cp"; "csx"; "csxdg";
   "cx"; "cy"; "cz"; "ch"; "ecr"; "move"].

(* the state right after `import qiskit_addon_cutting` in a fresh interpreter whose global generators are in
   states np, py (their initial seeding comes from the operating system: arbitrary) *)
Definition fresh_process (actions : action_names) (basis : list string) (np py : rng_state) : gstate :=
  mkG actions import_funcs import_funcs basis np py.

(* Model/DecomposeEq.v — decompose_qpd_instructions with QPDBasis.__eq__ modelled explicitly.

   Model/Decompose.v identifies QPD bases by a handle that the harness interns with the IMPLEMENTATION's
   `==` (equal handle <=> QPDBasis.__eq__).  Here a handle is the identity of the QPDBasis OBJECT
   (interned by `is`), every object carries its maps, its coefficient vector and its qubit count, and the
   comparison made by _validate_qpd_instructions (`compare_basis != tmp_basis`) is the model function
   `rbasis_eqb` (qpd/qpd_basis.py:QPDBasis.__eq__: same class, equal numbers of maps and of coefficients,
   `maps == other.maps`, `coeffs == other.coeffs`).  Everything after the validation is the code of
   Model/Decompose.v run on the object handles: every gate uses the maps of ITS OWN basis object.
   No proofs here (Proofs/DecomposeEqP.v). *)
From CKT Require Import Common.Base Common.Circ Model.Decompose.

(* a coefficient is the exact value of the binary64 number, as a reduced fraction (float == is then
   structural equality, apart from -0.0 == 0.0 and NaN, which the harness does not produce) *)
Definition coeff := (Z * positive)%type.
Record rbasis := mkRB { rnq : nat ; rmaps : basis ; rcoeffs : list coeff }.
Definition renv := list rbasis.          (* object handle -> QPDBasis object *)
Definition rb_none : rbasis := mkRB 0 [] [].

Definition coeff_eqb (a b : coeff) : bool := Z.eqb (fst a) (fst b) && Pos.eqb (snd a) (snd b).
(* one entry of maps: a tuple with one operation list per qubit (the second list is [] for a one-qubit basis,
   whose tuples have length 1: the tuple lengths are compared through rnq); operations compare by
   Instruction.__eq__, i.e. by their interned id *)
Definition map_eqb (a b : list bop * list bop) : bool :=
  list_beq bop_beq (fst a) (fst b) && list_beq bop_beq (snd a) (snd b).

(* QPDBasis.__eq__ *)
Definition rbasis_eqb (x y : rbasis) : bool :=
  Nat.eqb (length (rmaps x)) (length (rmaps y)) && Nat.eqb (length (rcoeffs x)) (length (rcoeffs y)) &&
  (Nat.eqb (rnq x) (rnq y) && list_beq map_eqb (rmaps x) (rmaps y)) &&      (* self.maps != other.maps *)
  list_beq coeff_eqb (rcoeffs x) (rcoeffs y).                                (* self.coeffs != other.coeffs *)

Definition basis_at (re : renv) (b : nat) : rbasis := nth b re rb_none.

(* _validate_qpd_instructions with the basis comparison spelled out (cf. Decompose.validate_members) *)
Fixpoint validate_members_r (re : renv) (c : circ) (b0 : nat) (pair : bool) (g : list nat) : res unit :=
  match g with
  | [] => Ok tt
  | p :: r =>
      match nth_error c p with
      | None => Crashed
      | Some ins =>
          match basis_of ins with
          | None => Refused
          | Some b => if rbasis_eqb (basis_at re b0) (basis_at re b)          (* not (compare_basis != tmp_basis) *)
                      then (if pair && is_qpd2 ins then Refused else validate_members_r re c b0 pair r)
                      else Refused
          end
      end
  end.

Definition validate_group_r (re : renv) (c : circ) (g : list nat) : res unit :=
  if negb (Nat.eqb (length g) 1 || Nat.eqb (length g) 2) then Refused else
  match g with
  | [] => Refused
  | p0 :: _ =>
      match nth_error c p0 with
      | None => Crashed
      | Some ins0 =>
          match basis_of ins0 with
          | None => Refused
          | Some b0 => validate_members_r re c b0 (Nat.eqb (length g) 2) g
          end
      end
  end.

Fixpoint validate_groups_r (re : renv) (c : circ) (ids : list (list nat)) : res unit :=
  match ids with
  | [] => Ok tt
  | g :: r => res_bind (validate_group_r re c g) (fun _ => validate_groups_r re c r)
  end.

Definition validate_r (re : renv) (c : circ) (ids : list (list nat)) : res unit :=
  res_bind (validate_groups_r re c ids) (fun _ =>
    if negb (nodupb (concat ids)) then Refused
    else if Nat.eqb (length (filter is_qpd c)) (list_sum (map (@length nat) ids)) then Ok tt else Refused).

(* the public function; the gates look their maps up in their own basis object *)
Definition decompose_r (re : renv) (c : circ) (nc : nat) (ids : list (list nat)) (maps : option (list (option Z)))
  : res (circ * nat) :=
  let env := map rmaps re in
  res_bind (validate_r re c ids) (fun _ =>
  res_bind (set_basis_ids env c ids maps) (fun c1 =>
  finish env c1 nc ids)).

(* ---- the quotient used by Model/Decompose.v: one handle per class of equal basis objects ---- *)
Fixpoint first_match (x : rbasis) (l : renv) (k : nat) : option nat :=
  match l with
  | [] => None
  | y :: r => if rbasis_eqb y x then Some k else first_match x r (S k)
  end.

(* the first object equal to object b (what CircCtx.basis_id computes with the implementation's ==) *)
Definition canon_handle (re : renv) (b : nat) : nat :=
  match first_match (basis_at re b) re 0 with Some j => j | None => length re end.

Definition ren_op (rho : nat -> nat) (o : op) : op :=
  match o with
  | Qpd2 b m l => Qpd2 (rho b) m l
  | Qpd1 b h m l => Qpd1 (rho b) h m l
  | o => o
  end.
Definition ren (rho : nat -> nat) (i : instr) : instr := mkI (ren_op rho (iop i)) (iqs i) (ics i).

Definition quotient (re : renv) (c : circ) : circ := map (ren (canon_handle re)) c.

(* ---- instruction shapes Python can build, and the splice without index defaults ---- *)
(* QuantumCircuit.append enforces the arity of the operation; SingleQubitQPDGate._set_qubit_id enforces
   qubit_id < basis.num_qubits <= 2.  (On a ONE-qubit basis qubit_id must be 0; the handle-based benv does not record
   the qubit count — the canonical form of a one-qubit basis has empty second lists — so that part of the invariant is
   only expressible in the object model: shape_ok_r.) *)
Definition shape_ok (i : instr) : bool :=
  match iop i with
  | Qpd2 _ _ _ => Nat.eqb (length (iqs i)) 2
  | Qpd1 _ h _ _ => Nat.eqb (length (iqs i)) 1 && Nat.ltb h 2
  | _ => true
  end.
Definition wf_shape (c : circ) : bool := forallb shape_ok c.

Definition shape_ok_r (re : renv) (i : instr) : bool :=
  shape_ok i &&
  match iop i with
  | Qpd2 b _ _ => Nat.eqb (rnq (basis_at re b)) 2          (* TwoQubitQPDGate.__init__: basis.num_qubits == 2 *)
  | Qpd1 b h _ _ => Nat.ltb h (rnq (basis_at re b))        (* _set_qubit_id *)
  | _ => true
  end.

(* what stands at the place of one instruction, with the qubits taken by pattern matching on the qubit list and the
   map by nth_error: no default value can be "placed" *)
Definition on_qubit (q : nat) (ops : list bop) : list instr := map (fun o => mkI (of_bop o) [q] []) ops.
Definition splice_strict (env : benv) (i : instr) : list instr :=
  match iop i, iqs i with
  | Qpd2 b (Some m) _, [q0; q1] =>
      match nth_error (nth b env []) m with
      | Some mp => on_qubit q0 (fst mp) ++ on_qubit q1 (snd mp)
      | None => [i]
      end
  | Qpd1 b 0 (Some m) _, [q] =>
      match nth_error (nth b env []) m with Some mp => on_qubit q (fst mp) | None => [i] end
  | Qpd1 b 1 (Some m) _, [q] =>
      match nth_error (nth b env []) m with Some mp => on_qubit q (snd mp) | None => [i] end
  | _, _ => [i]
  end.

(* Model/Roundtrip.v — the composition layer of property C01 (cut -> generate -> run -> reconstruct).
   No new model of any package function: the pieces are the models of C05 (Model/Experiments.v: coefficients,
   projection `project`, layout), C06 (Model/Reconstruct.v: estimator), C10 (Model/Partition.v: refusal of an
   observable on a dropped idle qubit).  This file only adds the executable vocabulary in which the composition
   is stated and checked:

     all_maps dims          every joint map id tuple (itertools.product(range(M_0), ..., range(M_{n-1})))
     coeff_prod C ids       prod_j C_j[ids_j]         (the `actual_coeff` of generate_cutting_experiments)
     project_ids sfx ids    tuple(ids[j] for j in sfx) (total version of Experiments.project)
     cut_value C L E k      sum_{ids} coeff_prod C ids * prod_{l} E l (project_ids sfx_l ids) k
                            — the value the whole pipeline computes when weights and subexperiments are exact

   and the executable side of the hypotheses of `c01_roundtrip` that can be checked on the STRUCTURE the
   implementation returns (support of the sample list, coefficient = product, counts, projection, lookup shapes),
   used by Corr/C01Corr.v.  No proofs here (Proofs/RoundtripP.v). *)
From Coq Require Import QArith Qabs.
From CKT Require Import Common.Base Common.Circ Model.Observables Model.Partition Model.Decompose Model.Measurement Model.Experiments.
From CKT Require Model.Reconstruct.
Close Scope Q_scope.

(* ---------------------------------------------------------------------------------------------
   1. the product space of joint map ids
   --------------------------------------------------------------------------------------------- *)
Fixpoint all_maps (dims : list nat) : list jkey :=
  match dims with
  | [] => [[]]
  | n :: r => flat_map (fun i => map (cons i) (all_maps r)) (seq 0 n)
  end.

(* prod_j C_j[ids_j]  (a missing entry counts as 0, a missing cut as the empty product) *)
Fixpoint coeff_prod (C : list (list Q)) (ids : jkey) : Q :=
  match C, ids with
  | v :: rv, i :: ri => (nth i v 0 * coeff_prod rv ri)%Q
  | _, _ => 1%Q
  end.

(* tuple(map_ids[j] for j in subcirc_map_ids[label]) *)
Definition project_ids (sfx : list nat) (ids : jkey) : jkey := map (fun k => nth k ids 0) sfx.

Definition enum {A} (l : list A) : list (nat * A) := combine (seq 0 (length l)) l.

(* the product over the partitions: partition number li has the projection list sfx_li *)
Definition part_prod (L : list (list nat)) (E : nat -> jkey -> nat -> Q) (ids : jkey) (k : nat) : Q :=
  prodQ (map (fun lp => E (fst lp) (project_ids (snd lp) ids) k) (enum L)).

Definition cut_value (C : list (list Q)) (L : list (list nat)) (E : nat -> jkey -> nat -> Q) (k : nat) : Q :=
  sumQ (map (fun ids => (coeff_prod C ids * part_prod L E ids k)%Q) (all_maps (map (@length Q) C))).

(* the unseparated call form: one partition (label "A"), projection = identity *)
Definition identity_sfx (n : nat) : list nat := seq 0 n.

(* ---------------------------------------------------------------------------------------------
   2. structural side conditions, executable (evaluated on what the implementation returned)
   --------------------------------------------------------------------------------------------- *)
Definition jkey_eqb (a b : jkey) : bool := list_beq Nat.eqb a b.
Definition mem_key (k : jkey) (l : list jkey) : bool := existsb (jkey_eqb k) l.

Fixpoint nodup_keys (l : list jkey) : bool :=
  match l with
  | [] => true
  | k :: r => negb (mem_key k r) && nodup_keys r
  end.

Fixpoint in_dims (dims : list nat) (ids : jkey) : bool :=
  match dims, ids with
  | [], [] => true
  | n :: rn, i :: ri => Nat.ltb i n && in_dims rn ri
  | _, _ => false
  end.

(* |prod_j c_j| / kappa : the joint probability of the map *)
Definition map_prob (C : list (list Q)) (ids : jkey) : Q := (Qabs (coeff_prod C ids) / kappa_all C)%Q.

(* The sample list is the support: every listed key is a joint map, no key twice, every map whose probability
   is at least `hi` is listed and no map whose probability is below `lo` is.  (The implementation lists a map
   iff its float probability is >= the cut-off 1e-14; lo < cutoff < hi brackets the float rounding of that
   comparison.  With lo = hi = cutoff this is the exact rule of C04's c04_infinite.) *)
Definition support_ok (C : list (list Q)) (lo hi : Q) (keys : list jkey) : bool :=
  let dims := map (@length Q) C in
  let kap := Qred (kappa_all C) in               (* computed once; == kappa_all C *)
  forallb (in_dims dims) keys && nodup_keys keys &&
  forallb (fun ids =>
             let p := (Qabs (coeff_prod C ids) / kap)%Q in          (* == map_prob C ids *)
             if mem_key ids keys then Qle_bool lo p else negb (Qle_bool hi p))
          (all_maps dims).

(* every listed coefficient is the product of the chosen maps' coefficients, within tol * kappa *)
Definition coeffs_ok (C : list (list Q)) (tol : Q) (samples : list (jkey * Q)) : bool :=
  let bound := Qred (tol * kappa_all C) in
  forallb (fun s => Qle_bool (Qabs (snd s - coeff_prod C (fst s))) bound) samples.

Definition count_occ_nat (k : nat) (l : list nat) : nat := length (filter (Nat.eqb k) l).

(* projection lists of the SEPARATED form: every entry is a cut id, every cut has exactly two halves *)
Definition projection_ok_sep (ncuts : nat) (L : list (list nat)) : bool :=
  forallb (fun k => Nat.ltb k ncuts) (concat L) &&
  forallb (fun k => Nat.eqb (count_occ_nat k (concat L)) 2) (seq 0 ncuts).

(* UNSEPARATED form: one partition, all joint ids in order *)
Definition projection_ok_single (ncuts : nat) (L : list (list nat)) : bool :=
  match L with [sfx] => list_beq Nat.eqb sfx (identity_sfx ncuts) | _ => false end.

(* per partition: number of circuits = #samples * #groups (C05 layout = C06 count validation); the counts are binary
   numbers (thousands of subexperiments per partition occur) *)
Definition counts_ok (nsamples : nat) (groups : list nat) (counts : list N) : bool :=
  list_beq N.eqb counts (map (fun g => (N.of_nat nsamples * N.of_nat g)%N) groups).

(* lookup tables: one location list per observable, every location inside its group (C06's locs_ok, C11's cover).
   A partition is given as (group sizes, lookup) *)
Definition lookup_ok (nobs : nat) (p : list nat * list (list (nat * nat))) : bool :=
  Nat.eqb (length (snd p)) nobs &&
  forallb (fun locs => negb (Nat.eqb (length locs) 0) &&
                       forallb (fun mn => Nat.ltb (fst mn) (length (fst p)) &&
                                          Nat.ltb (snd mn) (nth (fst mn) (fst p) 0)) locs)
          (snd p).

(* ---------------------------------------------------------------------------------------------
   3. the refusal rule of the composed pipeline (partition_problem ; generate ; reconstruct):
      Model/Partition.sub_observables on the labels in force decides — Refused exactly when an observable is
      non-identity on a None-labelled qubit; otherwise the pipeline goes on to a value.
   --------------------------------------------------------------------------------------------- *)
Definition pipeline_refuses (ls : list (option nat)) (ps : list pauli) : bool :=
  negb (is_ok (sub_observables ls ps)).

(* ---------------------------------------------------------------------------------------------
   4. the generated experiments seen by the reconstruction (composition C05 ; sampler ; C06).
      run : mcirc -> quasi-distribution is the EXACT evaluation of one subexperiment (the sampler; ExactSampler is
      property C13) — a function argument.  Everything else is the C05 model (build1, optimise, the partition table)
      and the C06 vocabulary (part, E_exp, Qmean).
   --------------------------------------------------------------------------------------------- *)
(* well-formed lookup tables of a partition: C06's locs_ok (every location inside its group) AND no observable without
   a location — np.mean([]) is nan in Python while the model's Qmean [] is 0/0 = 0, so the composition theorems exclude
   it (a real ObservableCollection gives every sub-observable at least one location; Corr's lookup_ok checks it) *)
Definition locs_wf (p : Reconstruct.part) : Prop :=
  Reconstruct.locs_ok p /\ forall locs, In locs (Reconstruct.plookup p) -> locs <> [].

Definition empty_mcirc : mcirc := mkMC 0 0 [] [].
Definition empty_pinfo : pinfo := mkPI empty_mcirc [] (Some []).
Definition empty_ogroup : ogroup := mkOG [] [].
Definition empty_part : Reconstruct.part := Reconstruct.mkPart 0 [] [] [].

(* the subexperiment of a partition for the map ids `pids` of its placeholders and the commuting group g:
   what the loop body of generate_cutting_experiments builds (build1), after the three reset passes (optimise) *)
Definition exp_of (gh gsx : nat) (env : benv) (p : pinfo) (pids : jkey) (g : ogroup) : mcirc :=
  match build1 gh gsx env (pi_qc p) (pi_ids p) pids g with Ok e => optimise e | _ => empty_mcirc end.

Definition pinfo_of (table : list (nat * pinfo)) (l : nat) : pinfo :=
  match alookup table l with Some p => p | None => empty_pinfo end.

(* subcirc_map_ids[label]; in the unseparated form every joint id is used, in order *)
Definition sfx_of (ncuts : nat) (p : pinfo) : list nat :=
  match pi_sfx p with Some sfx => sfx | None => identity_sfx ncuts end.

(* the projection lists of a whole request: one per partition, in the order of the observables dict *)
Definition L_of (ncuts : nat) (table : list (nat * pinfo)) (og : list (nat * list ogroup)) : list (list nat) :=
  map (fun lg => sfx_of ncuts (pinfo_of table (fst lg))) og.

(* decoded value of observable k from the exact results of ONE partition when its placeholders carry the map ids
   pids: mean over the lookup locations (group m, member n) of the decoded result of the subexperiment of group m.
   rp is the reconstruction's view of the partition's ObservableCollection, gs generation's view of the same groups. *)
Definition E_gen (gh gsx : nat) (env : benv) (run : mcirc -> list (Reconstruct.key * Q)) (den : Reconstruct.key -> N)
           (rp : Reconstruct.part) (p : pinfo) (gs : list ogroup) (pids : jkey) (k : nat) : Q :=
  Reconstruct.Qmean
    (map (fun mn => Reconstruct.E_exp den (nth (fst mn) (Reconstruct.pgroups rp) Reconstruct.dcog) (snd mn)
                      (Reconstruct.DV1 [run (exp_of gh gsx env p pids (nth (fst mn) gs empty_ogroup))]) 0)
         (nth k (Reconstruct.plookup rp) [])).

Definition E_all (gh gsx : nat) (env : benv) (run : mcirc -> list (Reconstruct.key * Q)) (den : Reconstruct.key -> N)
           (table : list (nat * pinfo)) (og : list (nat * list ogroup)) (rparts : list Reconstruct.part)
           (li : nat) (pids : jkey) (k : nat) : Q :=
  let lg := nth li og (0, []) in
  E_gen gh gsx env run den (nth li rparts empty_part) (pinfo_of table (fst lg)) (snd lg) pids k.

(* the results handed to reconstruct_expectation_values: every generated circuit evaluated exactly, in order *)
Definition results_of (run : mcirc -> list (Reconstruct.key * Q)) (rparts : list Reconstruct.part)
           (full : list (nat * list mcirc)) : list (Reconstruct.part * Reconstruct.pdata) :=
  combine rparts (map (fun le => Reconstruct.DV1 (map run (snd le))) full).

(* Model/CutWires.v — executable model of
     wire_cutting_transforms.py : _circuit_structure_mapping, _transform_cut_wires,
                                  cut_wires, _transform_cuts_to_moves
   (expand_observables lives in Model/Observables.v and is reused: [expand]).
   No proofs here (Proofs/CutWiresP.v).

   REPAIRED behaviour is modelled (DESIGN section 6, F1): the number of fresh qubits of an
   original qubit is the number of markers on it (Counter / count_occ), not the length of the
   last run of itertools.groupby over the unsorted marker list.
   Classical bits of relocated instructions are kept (what the property demands). *)
From CKT Require Import Common.Base Common.Circ Model.Observables.

(* instructions in circuit.get_instructions("cut_wire") *)
Definition is_marker (i : instr) : bool := match iop i with CutWire => true | _ => false end.

(* cut_wire_index = [find_bit(instruction.qubits[0]).index for instruction in get_instructions("cut_wire")] *)
Definition marker_qubit (i : instr) : nat := hd 0 (iqs i).
Definition marker_qubits (c : circ) : list nat := map marker_qubit (filter is_marker c).

(* cut_wire_freq[index]  (Counter: 0 for absent keys = the `if index in keys` guard) *)
Definition cut_freq (c : circ) (q : nat) : nat := count_occ Nat.eq_dec (marker_qubits c) q.
Definition count_markers (c : circ) : nat := length (marker_qubits c).

(* mapping[index + 1:] = map(lambda item: item + 1, mapping[index + 1:]) *)
Fixpoint bump_after (idx : nat) (m : list nat) : list nat :=
  match m with
  | [] => []
  | x :: r => match idx with
              | O => x :: map S r
              | S j => x :: bump_after j r
              end
  end.

(* for qubit in circuit.qubits:  [for _ in range(freq): bump; add_bits([Qubit()])] ; add_bits([qubit])
   Qubit objects: original qubit q has identity tag q (< nq); the k-th Qubit() allocated has tag nq + k.
   [fresh] is the next unused tag. *)
Fixpoint sm_loop (freq : nat -> nat) (qs : list nat) (fresh : nat) (mapping bits : list nat)
  : list nat * list nat :=
  match qs with
  | [] => (mapping, bits)
  | q :: r =>
      let k := freq q in
      sm_loop freq r (fresh + k) (Nat.iter k (bump_after q) mapping) (bits ++ seq fresh k ++ [q])
  end.

(* _circuit_structure_mapping: (mapping, new_circuit.qubits as identity tags).
   Registers and classical bits are re-added unchanged (see [cut_result]). *)
Definition structure_mapping (nq : nat) (c : circ) : list nat * list nat :=
  sm_loop (cut_freq c) (seq 0 nq) nq (seq 0 nq) [].

(* _transform_cut_wires main loop.  [factory] is the op produced by factory():
   Move for _transform_cuts_to_moves, Qpd2 <move basis> None "cut_move" for cut_wires. *)
Fixpoint tcw (factory : op) (m : list nat) (c : circ) : circ :=
  match c with
  | [] => []
  | i :: r =>
      if is_marker i then
        let g := marker_qubit i in
        let p := nth g m 0 in
        mkI factory [p; p + 1] [] :: tcw factory (upd m g (p + 1)) r
      else
        mkI (iop i) (map (fun q => nth q m 0) (iqs i)) (ics i) :: tcw factory m r
  end.

(* registers: (name id, member identity tags) *)
Definition regs := list (nat * list nat).

Record cut_result := mkCR {
  cr_qubits : list nat ;      (* new_circuit.qubits, identity tags *)
  cr_qregs  : regs ;
  cr_nclbits : nat ;
  cr_cregs  : regs ;
  cr_data   : circ }.

Definition transform_cut_wires (factory : op) (nq nc : nat) (qregs cregs : regs) (c : circ) : cut_result :=
  let '(mapping, bits) := structure_mapping nq c in
  mkCR bits qregs nc cregs (tcw factory mapping c).

Definition cut_wires_gen (factory : op) (nq : nat) (c : circ) : circ :=
  tcw factory (fst (structure_mapping nq c)) c.

Definition cut_wires_moves (nq : nat) (c : circ) : circ := cut_wires_gen Move nq c.
Definition new_qubits (nq : nat) (c : circ) : list nat := snd (structure_mapping nq c).

(* ---- specification-side vocabulary (closed forms the theorems speak about) ---- *)

Fixpoint sum_below (f : nat -> nat) (n : nat) : nat :=
  match n with O => 0 | S k => sum_below f k + f k end.

(* first position of q's block (its fresh qubits come first), and the position of the ORIGINAL
   qubit object q = last position of the block *)
Definition block_start (f : nat -> nat) (q : nat) : nat := q + sum_below f q.
Definition block_end (f : nat -> nat) (q : nat) : nat := block_start f q + f q.
Definition final_position (c : circ) (q : nat) : nat := block_end (cut_freq c) q.

(* position of qubit q after the prefix c1 of the whole circuit c has been processed *)
Definition position_after (c c1 : circ) (q : nat) : nat := block_start (cut_freq c) q + cut_freq c1 q.

(* what one input instruction becomes when qubit q currently sits at position [pos q] *)
Definition relocate (fac : op) (pos : nat -> nat) (i : instr) : instr :=
  if is_marker i then mkI fac [pos (marker_qubit i); pos (marker_qubit i) + 1] []
  else mkI (iop i) (map pos (iqs i)) (ics i).

Definition erase_markers (c : circ) : circ := filter (fun i => negb (is_marker i)) c.

(* well-formed input on nq qubits: indices in range, a marker acts on exactly one qubit *)
Definition wf_instr (nq : nat) (i : instr) : bool :=
  forallb (fun q => Nat.ltb q nq) (iqs i) && (negb (is_marker i) || Nat.eqb (length (iqs i)) 1).
Definition wf_circ (nq : nat) (c : circ) : bool := forallb (wf_instr nq) c.

(* "each inserted Move executed as an ordinary reset-and-swap": the operation at every marker position of the
   result [out] (whatever the factory produced there, e.g. the Qpd2 placeholder of cut_wires) is executed as a
   plain Move on the same qubits; everything else is executed as it stands.  Positional, so a pre-placed
   placeholder of the input is NOT touched. *)
Fixpoint exec_inserted_as_moves (c out : circ) : circ :=
  match c, out with
  | i :: r, o :: ro => (if is_marker i then mkI Move (iqs o) (ics o) else o) :: exec_inserted_as_moves r ro
  | _, _ => []
  end.

(* the same by operation: replace every occurrence of the factory op *)
Definition unwrap (fac : op) (i : instr) : instr :=
  if op_beq (iop i) fac then mkI Move (iqs i) (ics i) else i.

(* positional selection *)
Fixpoint select {A} (mask : list bool) (l : list A) : list A :=
  match mask, l with
  | b :: mr, x :: r => if b then x :: select mr r else select mr r
  | _, _ => []
  end.

(* Model/Partition.v — executable model of qiskit_addon_cutting/cutting_decomposition.py
     partition_circuit_qubits, cut_gates, partition_problem
   and of TwoQubitQPDGate._define (qpd/instructions/qpd_gate.py).  No proofs here (Proofs/PartitionP.v).

   partition_problem is modelled with the REPAIRED behaviour F4 (DESIGN.md section 6): the group of
   the None-labelled (idle) qubits is removed from the sub-observables, and a request whose observables
   are not the identity on such a qubit is refused with ValueError. *)
From CKT Require Import Common.Base Common.Circ Model.Observables Model.Separate.

Section Oracles.
  (* QPDBasis.from_instruction(op) / TwoQubitQPDGate.from_instruction(op):
       None            = raised ValueError("Instruction not supported")
       Some (b, lbl)   = basis handle (handles are equal iff QPDBasis.__eq__) and the gate label
                         f"cut_{op.name}" in canonical form.
     Contract (monitored by the harness, which computes the table by calling from_instruction itself). *)
  Variable basis_of : op -> option (nat * qlabel).
  (* interned base of the string f"{label}" (the text the suffix "_<i>" is appended to) *)
  Variable relabel : qlabel -> nat.
  (* QuantumCircuit.decompose(TwoQubitQPDGate): a circuit -> DAG -> circuit round trip inside Qiskit.
     Contract (Proofs/PartitionP.v [dx_contract], monitored by the harness): the result has the same
     per-qubit instruction sequences as [expand_qpd2] below (independent instructions may be reordered). *)
  Variable dx : circ -> circ.

  Definition span_labels (labels : list label) (qs : list nat) : list label :=
    fold_left (fun acc q => let l := nth q labels None in
                            if existsb (label_beq l) acc then acc else acc ++ [l]) qs [].

  (* one iteration of the loop in partition_circuit_qubits: the instruction that is stored back
     (the implementation collects the replacements and stores them after the loop; the result is the same) *)
  Definition pcq_step (labels : list label) (inst : instr) : res instr :=
    if is_barrier inst then Ok inst else
    if Nat.leb (length (iqs inst)) 1 || Nat.eqb (length (span_labels labels (iqs inst))) 1 then Ok inst else
    if Nat.ltb 2 (length (iqs inst)) then Refused else
    match iop inst with
    | Qpd2 _ _ _ => Ok inst
    | o => match basis_of o with
           | None => Refused
           | Some (b, lbl) => Ok (mkI (Qpd2 b None lbl) (iqs inst) [])
           end
    end.

  Fixpoint pcq_loop (labels : list label) (c : circ) : res circ :=
    match c with
    | [] => Ok []
    | inst :: r =>
        match pcq_step labels inst with
        | Ok inst' => res_map (cons inst') (pcq_loop labels r)
        | Refused => Refused
        | Crashed => Crashed
        end
    end.

  Definition partition_circuit_qubits (n : nat) (c : circ) (labels : list label) : res circ :=
    if negb (Nat.eqb (length labels) n) then Refused else pcq_loop labels c.

  (* cut_gates(circuit, gate_ids): every replacement is built from the circuit AS GIVEN (data[gate_id] out of
     range is an IndexError, an unsupported gate a ValueError, whichever comes first in gate_ids), then all are
     stored back in order; an id listed twice therefore yields the same placeholder and basis twice *)
  Fixpoint cut_collect (c : circ) (ids : list nat) : res (list (nat * instr) * list nat) :=
    match ids with
    | [] => Ok ([], [])
    | g :: r =>
        match nth_error c g with
        | None => Crashed
        | Some inst =>
            match basis_of (iop inst) with
            | None => Refused
            | Some (b, lbl) =>
                match cut_collect c r with
                | Ok (reps, bs) => Ok ((g, mkI (Qpd2 b None lbl) (iqs inst) []) :: reps, b :: bs)
                | Refused => Refused
                | Crashed => Crashed
                end
            end
        end
    end.

  Definition cut_gates (nclbits ncregs : nat) (c : circ) (ids : list nat) : res (circ * list nat) :=
    if negb (Nat.eqb ncregs 0) || negb (Nat.eqb nclbits 0) then Refused else
    match cut_collect c ids with
    | Ok (reps, bs) => Ok (fold_left (fun c p => upd c (fst p) (snd p)) reps c, bs)
    | Refused => Refused
    | Crashed => Crashed
    end.

  (* for inst in data: if TwoQubitQPDGate: bases.append(basis); label = f"{label}_{i}"; i += 1 *)
  Fixpoint number_qpd (c : circ) (i : nat) : circ * list nat :=
    match c with
    | [] => ([], [])
    | inst :: r =>
        match iop inst with
        | Qpd2 b bid lbl =>
            let '(c', bs) := number_qpd r (S i) in
            (mkI (Qpd2 b bid (Some (relabel lbl, Some i))) (iqs inst) (ics inst) :: c', b :: bs)
        | _ => let '(c', bs) := number_qpd r i in (inst :: c', bs)
        end
    end.

  (* TwoQubitQPDGate._define: two SingleQubitQPDGate halves, qubit_id 0 / 1, same basis, basis_id, label *)
  Definition expand_instr (inst : instr) : circ :=
    match iop inst, iqs inst with
    | Qpd2 b bid lbl, [a; q] => [mkI (Qpd1 b 0 bid lbl) [a] []; mkI (Qpd1 b 1 bid lbl) [q] []]
    | _, _ => [inst]
    end.
  Definition expand_qpd2 (c : circ) : circ := flat_map expand_instr c.

  Definition is_qpd2 (i : instr) : bool := match iop i with Qpd2 _ _ _ => true | _ => false end.

  (* encoding of labels for Model/Observables (whose labels are nat): None -> 0, Some l -> S l *)
  Definition enc (l : label) : nat := match l with None => 0 | Some k => S k end.

  Definition is_identity (p : pauli) : bool := forallb (Nat.eqb 0) (plets p).

  (* decompose_observables, then (F4) pop the None group; ValueError unless it is the identity *)
  Definition sub_observables (labels : list label) (ps : list pauli) : res (list (nat * list pauli)) :=
    let D := decompose_observables (map enc labels) ps in
    if existsb (fun t => Nat.eqb (fst (fst t)) 0 && negb (forallb is_identity (snd t))) D then Refused else
    Ok (map (fun t => (pred (fst (fst t)), snd t)) (filter (fun t => negb (Nat.eqb (fst (fst t)) 0)) D)).

  Definition problem := (list subcirc * list nat * option (list (nat * list pauli)))%type.

  Definition partition_problem (n nclbits ncregs : nat) (c : circ)
    (labels : option (list label)) (obs : option (list pauli)) : res problem :=
    if match labels with Some ls => negb (Nat.eqb (length ls) n) | None => false end then Refused else
    if match obs with Some ps => existsb (fun p => negb (Nat.eqb (length (plets p)) n)) ps | None => false end
    then Refused else
    if match obs with Some ps => existsb (fun p => negb (Nat.eqb (pphase p) 0)) ps | None => false end
    then Refused else
    if negb (Nat.eqb ncregs 0) || negb (Nat.eqb nclbits 0) then Refused else
    let ls := match labels with
              | Some ls => ls
              | None => auto_labels n is_qpd2 false c
              end in
    match partition_circuit_qubits n c ls with
    | Ok qc =>
        let '(qc', bases) := number_qpd qc 0 in
        match separate_circuit n [] (dx qc') (Some ls) with
        | Ok (subs, _) =>
            match obs with
            | None | Some [] => Ok (subs, bases, None)              (* `if observables:` *)
            | Some ps =>
                match sub_observables ls ps with
                | Ok so => Ok (subs, bases, Some so)
                | Refused => Refused
                | Crashed => Crashed
                end
            end
        | Refused => Refused
        | Crashed => Crashed
        end
    | Refused => Refused
    | Crashed => Crashed
    end.
End Oracles.

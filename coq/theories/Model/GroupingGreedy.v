(* Model/GroupingGreedy.v — a reference implementation of the two oracles of Model/Grouping.v
   (PauliList.unique and group_commuting(qubit_wise=True)): duplicate removal and first-fit greedy grouping
   into qubit-wise commuting classes.  It is NOT what Qiskit computes (Qiskit colours a graph with rustworkx and
   orders differently); it exists to show that the oracle contract `grouping_contract` is inhabited for every
   input, so that the theorems conditional on the contract are not vacuous.  No proofs here. *)
From CKT Require Import Common.Base Model.Observables Model.Grouping.

(* keep one copy of every observable (the last occurrence) *)
Fixpoint dedup (l : list pauli) : list pauli :=
  match l with
  | [] => []
  | p :: r => if mem_pauli p r then dedup r else p :: dedup r
  end.

(* p is qubit-wise compatible with every member of g *)
Definition fits (p : pauli) (g : list pauli) : bool :=
  forallb (fun q => letters_compat (plets q) (plets p)) g.

(* first fit: append p to the first class it is compatible with, else open a new class *)
Fixpoint place (p : pauli) (gs : list (list pauli)) : list (list pauli) :=
  match gs with
  | [] => [[p]]
  | g :: r => if fits p g then (g ++ [p]) :: r else g :: place p r
  end.

Definition greedy_groups (u : list pauli) : list (list pauli) :=
  fold_left (fun gs p => place p gs) u [].

Definition greedy_oracle (obs : list pauli) : grouping_oracle :=
  mkOracle (dedup obs) (greedy_groups (dedup obs)).

(* Model/BasesDispatch.v — the glue around Model/Bases.v that was outside the model so far:

   * the registry: the decorator `_register_qpdbasis_from_instruction` fills a dict name -> function in source
     order (later registrations overwrite); `qpdbasis_from_instruction` looks the gate NAME up in it;
   * `_theta_from_instruction` and the arithmetic each registered function performs on the angle before it
     builds coefficients and rotation gates (`theta = -theta / 2`, `rot(-theta)`, `theta_prime = -theta / 2`,
     `PhaseGate(theta / 2)`, `CRZGate(np.pi / 2)`, `theta *= -1` ...), as symbolic angle expressions `aexpr`
     over the gate's parameter.  The symbols Th2P of Model/Bases.v (rotation parameter "2θ'") are thereby
     given their meaning inside Coq (Proofs/BasesDispatchP.v proves rot = 2·theta_prime) instead of by harness
     arithmetic;
   * the nested calls qpdbasis_from_instruction(CRZGate(theta)) etc. go through the registry again.
   No proofs here.  Nothing in Model/Bases.v is changed. *)
From Coq Require Import String Ascii List QArith.
From CKT Require Import Common.Base Common.PolyRing Common.Ptm Model.Bases.
Import ListNotations.
Close Scope Q_scope.
Open Scope string_scope.
Open Scope list_scope.

(* ---------- angle expressions over the gate parameter ---------- *)
Inductive aexpr : Type :=
| AVar                      (* float(gate.params[0]) *)
| APiHalf                   (* np.pi / 2 *)
| ANeg (a : aexpr)          (* -a *)
| ADiv2 (a : aexpr).        (* a / 2 *)

Fixpoint show_aexpr (a : aexpr) : string :=
  match a with
  | AVar => "theta"
  | APiHalf => "pihalf"
  | ANeg a => ("neg(" ++ show_aexpr a ++ ")")%string
  | ADiv2 a => ("div2(" ++ show_aexpr a ++ ")")%string
  end.

(* what a decomposition function did with the angle *)
Record angles : Type := mkAngles {
  a_thp : option aexpr;     (* theta_prime: cvar 0 / cvar 1 are its cos / sin *)
  a_rot : option aexpr;     (* parameter of the RX/RY/RZ gate written ORX/ORY/ORZ Th2P in the basis *)
  a_phase : option aexpr }. (* parameter of the PhaseGate written OP Th2P *)
Definition no_angles : angles := mkAngles None None None.

(* ---------- the registry ---------- *)
(* decorator arguments of the registered functions, in source order (tied to the source by the fact
   `registry_groups`) *)
Definition registry_groups_model : list (list string) :=
  [["swap"]; ["iswap"]; ["dcx"]; ["rxx"; "ryy"; "rzz"; "crx"; "cry"; "crz"]; ["cs"; "csdg"]; ["cp"]; ["csx"]; ["csxdg"];
   ["cx"; "cy"; "cz"; "ch"]; ["ecr"]; ["move"]].

Fixpoint dict_set (d : list (string * nat)) (k : string) (v : nat) : list (string * nat) :=
  match d with
  | [] => [(k, v)]
  | (k', v') :: r => if k' =? k then (k, v) :: r else (k', v') :: dict_set r k v
  end.
Definition dict_get (d : list (string * nat)) (k : string) : option nat :=
  match find (fun p => fst p =? k) d with Some p => Some (snd p) | None => None end.
(* for name in args: _qpdbasis_from_instruction_funcs[name] = f *)
Fixpoint register_all (groups : list (list string)) (idx : nat) (d : list (string * nat)) : list (string * nat) :=
  match groups with
  | [] => d
  | g :: r => register_all r (S idx) (fold_left (fun d n => dict_set d n idx) g d)
  end.
Definition registry : list (string * nat) := register_all registry_groups_model 0 [].

(* ---------- _theta_from_instruction ---------- *)
Definition theta_returned : aexpr := AVar.                                    (* theta = float(gate.params[0]); return theta *)
Definition theta_from_instruction (g : gdesc) : res aexpr :=
  if negb (g_has_param g) then Crashed            (* gate.params[0]: IndexError *)
  else if g_param_ok g then Ok theta_returned     (* theta = float(gate.params[0]); return theta *)
  else Refused.                                    (* TypeError -> ValueError *)

(* ---------- the angle arithmetic of the registered functions, one named step per source expression; the
   functions below USE these steps and `angle_flow_model` RENDERS the same steps, so the comparison with the
   regenerated fact `angle_flow` speaks about the functions, not about a parallel table ---------- *)
Definition fam_ctrl_theta (theta : aexpr) : aexpr := ADiv2 (ANeg theta).     (* theta = -theta / 2 *)
Definition fam_rot_arg (theta : aexpr) : aexpr := ANeg theta.                 (* RXGate(-theta) *)
Definition fam_theta_prime (theta : aexpr) : aexpr := ADiv2 (ANeg theta).    (* theta_prime = -theta / 2 *)
Definition cs_theta : aexpr := APiHalf.                                       (* theta = np.pi / 2 *)
Definition cs_csdg_factor (theta : aexpr) : aexpr := ANeg theta.              (* theta *= -1 *)
Definition cs_inner : string * (aexpr -> aexpr) := ("crz", fun t => t).       (* CRZGate(theta) *)
Definition cp_inner : string * (aexpr -> aexpr) := ("crz", fun t => t).       (* CRZGate(theta) *)
Definition cp_phase_arg (theta : aexpr) : aexpr := ADiv2 theta.               (* PhaseGate(theta / 2) *)
Definition csx_inner : string * aexpr := ("crx", APiHalf).                    (* CRXGate(np.pi / 2) *)
Definition csxdg_inner : string * aexpr := ("crx", ANeg APiHalf).             (* CRXGate(-np.pi / 2) *)

(* ---------- the function registered for rxx ryy rzz crx cry crz ---------- *)
Definition first_is_c (n : string) : bool :=
  match n with String c _ => Ascii.eqb c "c"%char | EmptyString => false end.
Definition family_fn (name : string) (theta0 : res aexpr) : res (pbasis * angles) :=
  let ax := if (name =? "rxx") || (name =? "crx") then Some AxX
            else if (name =? "ryy") || (name =? "cry") then Some AxY
            else if (name =? "rzz") || (name =? "crz") then Some AxZ
            else None in                          (* assert gate.name in ("rzz", "crz") *)
  match ax with
  | None => Crashed
  | Some ax =>
      res_bind theta0 (fun theta =>
        if first_is_c name then
          let theta1 := fam_ctrl_theta theta in                  (* theta = -theta / 2 *)
          let rot := fam_rot_arg theta1 in                       (* RXGate(-theta) *)
          let thp := fam_theta_prime theta1 in                   (* theta_prime = -theta / 2 *)
          Ok (family_basis ax true, mkAngles (Some thp) (Some rot) None)
        else
          let thp := fam_theta_prime theta in
          Ok (family_basis ax false, mkAngles (Some thp) None None))
  end.
Definition cx_fn (name : string) : res (pbasis * angles) :=
  let k := if name =? "cx" then KCX else if name =? "cy" then KCY else if name =? "cz" then KCZ else KCH in
  Ok (cx_basis k, no_angles).

(* a nested call qpdbasis_from_instruction(G) with G one of CRZGate(t), CRXGate(t), CXGate(), iSwapGate():
   registry lookup of G.name, then the selected function; G's parameter is the float t *)
Definition call_registered (name : string) (t : aexpr) : res (pbasis * angles) :=
  match dict_get registry name with
  | Some 1 => Ok (nonlocal_basis u_iswap, no_angles)
  | Some 3 => family_fn name (Ok t)
  | Some 8 => cx_fn name
  | _ => Crashed
  end.
Definition map_basis (f : pbasis -> pbasis) (r : res (pbasis * angles)) : res (pbasis * angles) :=
  res_map (fun ba => (f (fst ba), snd ba)) r.

(* ---------- qpdbasis_from_instruction ---------- *)
Definition qpd_model (g : gdesc) : res (pbasis * angles) :=
  let n := g_name g in
  match dict_get registry n with
  | Some 0 => Ok (nonlocal_basis u_swap, no_angles)
  | Some 1 => Ok (nonlocal_basis u_iswap, no_angles)
  | Some 2 => map_basis (fun b => dress1 (fun ops => app1 OH (ins0 OSdg ops))
                                    (dress0 (fun ops => ins0 OH (ins0 OSdg ops)) b))
                        (call_registered "iswap" AVar)
  | Some 3 => family_fn n (theta_from_instruction g)
  | Some 4 =>                                                   (* cs csdg *)
      let theta := if n =? "csdg" then cs_csdg_factor cs_theta else cs_theta in     (* theta = np.pi / 2; theta *= -1 *)
      let rot_gate := if n =? "csdg" then OTdg else OT in
      map_basis (dress0 (ins0 rot_gate)) (call_registered (fst cs_inner) (snd cs_inner theta))
  | Some 5 =>                                                   (* cp *)
      res_bind (theta_from_instruction g) (fun theta =>
        res_map (fun ba => (dress0 (ins0 (OP Th2P)) (fst ba),
                            mkAngles (a_thp (snd ba)) (a_rot (snd ba)) (Some (cp_phase_arg theta))))   (* PhaseGate(theta / 2) *)
                (call_registered (fst cp_inner) (snd cp_inner theta)))
  | Some 6 => map_basis (dress0 (ins0 OT)) (call_registered (fst csx_inner) (snd csx_inner))
  | Some 7 => map_basis (dress0 (ins0 OTdg)) (call_registered (fst csxdg_inner) (snd csxdg_inner))
  | Some 8 => cx_fn n
  | Some 9 => map_basis (fun b => dress1 (ins0 OSX) (dress0 (fun ops => app1 OX (ins0 OS ops)) b))
                        (call_registered "cx" AVar)
  | Some 10 => Ok (move_basis, no_angles)
  | Some _ => Crashed
  | None =>
      if g_is_gate g && Nat.eqb (g_nq g) 2 then
        if g_matrix_ok g then Ok (kak_basis, no_angles) else Refused
      else Refused
  end.

(* the angle steps USED above, rendered, for the comparison with the source (fact `angle_flow`) *)
Definition show_call (name : string) (arg : aexpr) : string := (name ++ "(" ++ show_aexpr arg ++ ")")%string.
Definition angle_flow_model : list (string * string) :=
  [("theta_from_instruction", show_aexpr theta_returned);
   ("family.controlled.theta", show_aexpr (fam_ctrl_theta AVar));
   ("family.controlled.rot", show_aexpr (fam_rot_arg AVar));
   ("family.theta_prime", show_aexpr (fam_theta_prime AVar));
   ("cs.theta", show_aexpr cs_theta);
   ("cs.csdg_factor", match cs_csdg_factor AVar with ANeg AVar => "neg" | _ => "?" end);
   ("cs.inner", show_call (fst cs_inner) (snd cs_inner AVar));
   ("cp.inner", show_call (fst cp_inner) (snd cp_inner AVar));
   ("cp.phase", show_aexpr (cp_phase_arg AVar));
   ("csx.inner", show_call (fst csx_inner) (snd csx_inner));
   ("csxdg.inner", show_call (fst csxdg_inner) (snd csxdg_inner))].

(* which angle symbols a basis uses (to tie the side record `angles` to the operations inside the basis) *)
Definition is_rot_sym (o : op1) : bool :=
  match o with ORX Th2P | ORY Th2P | ORZ Th2P | ORX Th2M | ORY Th2M | ORZ Th2M => true | _ => false end.
Definition is_phase_sym (o : op1) : bool := match o with OP Th2P | OP Th2M => true | _ => false end.
Definition uses (f : op1 -> bool) (b : pbasis) : bool :=
  existsb (fun t => existsb f (snd (fst t)) || existsb f (snd t)) (resolve b).
Definition is_some {X} (o : option X) : bool := match o with Some _ => true | None => false end.
(* the theta-dependent rotation / phase symbols occur in the basis exactly when the function recorded their meaning *)
Definition symbols_bound (ba : pbasis * angles) : bool :=
  Bool.eqb (uses is_rot_sym (fst ba)) (is_some (a_rot (snd ba))) &&
  Bool.eqb (uses is_phase_sym (fst ba)) (is_some (a_phase (snd ba))).

(* ---------- specification: the parameterised gates' own matrices in the gate angle, cvar 0 = cos(θ/2), cvar 1 = sin(θ/2)
   (compared with gate.to_matrix() by the harness at every generated angle) ---------- *)
Definition zms : cxe := zre (COpp eS).     (* -s *)
Definition zs : cxe := zre eS.
Definition Uh_rxx : list (list cxe) :=       (* cos(θ/2) II − i sin(θ/2) XX *)
  [[zc; z0; z0; zmis]; [z0; zc; zmis; z0]; [z0; zmis; zc; z0]; [zmis; z0; z0; zc]].
Definition Uh_ryy : list (list cxe) :=
  [[zc; z0; z0; zis]; [z0; zc; zmis; z0]; [z0; zmis; zc; z0]; [zis; z0; z0; zc]].
Definition Uh_rzz : list (list cxe) :=
  [[(eC, COpp eS); z0; z0; z0]; [z0; (eC, eS); z0; z0]; [z0; z0; (eC, eS); z0]; [z0; z0; z0; (eC, COpp eS)]].
Definition Uh_crx : list (list cxe) :=
  [[z1; z0; z0; z0]; [z0; zc; z0; zmis]; [z0; z0; z1; z0]; [z0; zmis; z0; zc]].
Definition Uh_cry : list (list cxe) :=
  [[z1; z0; z0; z0]; [z0; zc; z0; zms]; [z0; z0; z1; z0]; [z0; zs; z0; zc]].
Definition Uh_crz : list (list cxe) :=
  [[z1; z0; z0; z0]; [z0; (eC, COpp eS); z0; z0]; [z0; z0; z1; z0]; [z0; z0; z0; (eC, eS)]].
Definition Uh_cp : list (list cxe) :=        (* diag(1,1,1,e^{iθ}), cos θ = c²−s², sin θ = 2cs *)
  [[z1; z0; z0; z0]; [z0; z1; z0; z0]; [z0; z0; z1; z0]; [z0; z0; z0; (eC2, eS2)]].

Definition family_table_h : list (string * list (list cxe) * list (list cxe)) :=
  [("rxx", U_rxx, Uh_rxx); ("ryy", U_ryy, Uh_ryy); ("rzz", U_rzz, Uh_rzz); ("crx", U_crx, Uh_crx);
   ("cry", U_cry, Uh_cry); ("crz", U_crz, Uh_crz); ("cp", U_cp, Uh_cp)].


(* a standard (bound, float-parameterised) two-qubit gate named n *)
Definition std_gate (n : string) : gdesc := mkG n true 2 true true true.

(* Corr/C07Corr.v — case checker for the C07 correspondence: Model/CutFinder.v vs
   qiskit_addon_cutting.find_cuts and the internal objects it leaves behind. *)
From Coq Require Import QArith Qabs.
From CKT Require Import Model.CutFinder.
Close Scope Q_scope.

(* canonical view of a DisjointSubcircuitsState (path compression invisible: roots via find_wire_root) *)
Record sview := mkSV {
  sv_wiremap : list nat ;
  sv_num_wires : nat ;
  sv_roots : list nat ;                 (* find_wire_root(w) for every w < max_wires *)
  sv_widths : list nat ;                (* width[r] for every root r, ascending *)
  sv_no_merge : list (nat * nat) ;
  sv_gamma : Q ;
  sv_actions : list (nat * nat * list (list nat)) ;   (* (action code, instruction id, args) *)
  sv_level : nat
}.

Definition aname_code (a : aname) : nat :=
  match a with CutTwoQubitGate => 1 | CutLeftWire => 2 | CutRightWire => 3 | CutBothWires => 4 end.

Definition view (s : dstate) : sview :=
  let n := length (uptree s) in
  let roots := map (find_wire_root s) (seq 0 n) in
  mkSV (wiremap s) (num_wires s) roots
       (map (width_at s) (filter (fun w => Nat.eqb (find_wire_root s w) w) (seq 0 n)))
       (no_merge s) (gamma_UB s)
       (map (fun a => (aname_code (a_name a), g_inst (a_gate a), a_args a)) (actions s))
       (level s).

Definition lnat_beq := list_beq Nat.eqb.

Definition sview_beq (a b : sview) : bool :=
  lnat_beq (sv_wiremap a) (sv_wiremap b) && Nat.eqb (sv_num_wires a) (sv_num_wires b) &&
  lnat_beq (sv_roots a) (sv_roots b) && lnat_beq (sv_widths a) (sv_widths b) &&
  list_beq (pair_beq Nat.eqb Nat.eqb) (sv_no_merge a) (sv_no_merge b) &&
  Qeqb (sv_gamma a) (sv_gamma b) &&
  list_beq (pair_beq (pair_beq Nat.eqb Nat.eqb) (list_beq lnat_beq)) (sv_actions a) (sv_actions b) &&
  Nat.eqb (sv_level a) (sv_level b).

Definition stats_beq (a b : stats) : bool :=
  Nat.eqb (st_visited a) (st_visited b) && Nat.eqb (st_next a) (st_next b) &&
  Nat.eqb (st_enq a) (st_enq b) && Nat.eqb (st_backjumps a) (st_backjumps b).

Definition nelem_beq (a b : nelem) : bool :=
  match a, b with
  | NBar, NBar => true
  | NEl n q g, NEl n' q' g' => Bool.eqb (Nat.eqb n 0) (Nat.eqb n' 0) && (* only name == "barrier" is compared *) lnat_beq q q' && option_beq Qeqb g g'
  | NMove s d, NMove s' d' => Nat.eqb s s' && Nat.eqb d d'
  | _, _ => false
  end.

Record expect := mkEx {
  ex_circ : circ ;
  ex_cuts : list (cut_kind * nat) ;
  ex_overhead : Q ;
  ex_minimum_reached : bool ;
  ex_best : sview ;
  ex_greedy : option sview ;
  ex_stats : stats ;
  ex_pen_stats : stats ;
  ex_pushes : nat ;
  ex_new : list nelem ;
  ex_cut_type : list bool ;
  ex_map : list nat ;
  ex_out_wires : list nat ;
  ex_subs : list (list nat)
}.

Record fc_case := mkCase {
  c_in : fc_input ;
  c_fuel : nat ;
  c_strict : bool ;      (* compare minimum_reached / tape consumption also where the repaired push-back ran *)
  c_expect : res expect
}.

(* a recorded numpy double in [0,1): k / 2^53 *)
Definition T (k : Z) : Q := Qmake k 9007199254740992.

Definition tape_of (l : list Q) : nat -> Q := fun k => nth k l 0%Q.

(* overhead = gamma_UB ** 2 in binary64: exact while gamma_UB < 2^26, one rounding (relative 2^-53) beyond *)
Definition overhead_ok (model impl : Q) : bool :=
  Qeqb model impl ||
  (Qltb (inject_Z (2 ^ 52)) model &&
   Qleb (Qmult (Qabs (Qminus model impl)) (inject_Z (2 ^ 50))) model).

(* the individual comparisons, in a fixed order (used by chk_fc and for diagnosis) *)
Definition cmp_fc (strict : bool) (r : fc_result) (e : expect) : list bool :=
  let f3 := negb strict && negb (Nat.eqb (fr_pushback r) 0) in
  [ circ_beq (fr_circ r) (ex_circ e) ;
    list_beq (pair_beq cut_kind_beq Nat.eqb) (md_cuts (fr_meta r)) (ex_cuts e) ;
    overhead_ok (md_overhead (fr_meta r)) (ex_overhead e) ;
    f3 || Bool.eqb (md_minimum_reached (fr_meta r)) (ex_minimum_reached e) ;
    sview_beq (view (fr_best r)) (ex_best e) ;
    option_beq sview_beq (option_map view (fr_greedy r)) (ex_greedy e) ;
    stats_beq (fr_stats r) (ex_stats e) ;
    stats_beq (fr_pen_stats r) (ex_pen_stats e) ;
    f3 || Nat.eqb (fr_pushes r) (ex_pushes e) ;
    list_beq nelem_beq (if_new (fr_iface r)) (ex_new e) ;
    list_beq Bool.eqb (if_cut_type (fr_iface r)) (ex_cut_type e) ;
    lnat_beq (if_map (fr_iface r)) (ex_map e) ;
    lnat_beq (if_out_wires (fr_iface r)) (ex_out_wires e) ;
    list_beq lnat_beq (if_subcircuits (fr_iface r)) (ex_subs e) ].

Definition diag_fc (c : fc_case) : option (list bool) :=
  match find_cuts_full (c_fuel c) (c_in c), c_expect c with
  | Val r, Ok e => Some (cmp_fc (c_strict c) r e)
  | _, _ => None
  end.

Definition chk_fc (c : fc_case) : bool :=
  match find_cuts_full (c_fuel c) (c_in c), c_expect c with
  | Val r, Ok e => forallb (fun b => b) (cmp_fc (c_strict c) r e)
  | Ref, Refused => true
  | Crash, Crashed => true
  | _, _ => false
  end.

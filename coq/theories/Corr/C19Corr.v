(* Corr/C19Corr.v — case checkers for the C19 correspondence (model vs implementation).
   Depends on the models only.

   One case = one subexperiment returned by generate_cutting_experiments:
     gh, gsx      interned gate ids of HGate / SXGate in the case's CircCtx
     env          the QPD bases (handle -> maps)
     nq, nc, regs the subcircuit: #qubits, #clbits, classical registers as (name == "observable_measurements", bits)
     sub          its instruction list (placeholders inside)
     ids, ms      subcirc_qpd_gate_ids[label], map_ids_tmp of the sample
     g, idx       letters of cog.general_observable (0 I, 1 X, 2 Y, 3 Z), cog.pauli_indices
     dec, kq      the implementation's circuit right after decompose_qpd_instructions(new_qc, ..., inplace=True)
                  (rebuilt by the harness through the private functions), size of "qpd_measurements"
     out          the subexperiment actually returned *)
From CKT Require Import Common.Base Common.Circ Model.ResetPasses Model.Decompose Model.Measurement Model.ResetFree.

Definition c19_case :=
  (nat * nat * benv * (nat * nat * list (bool * list nat)) * circ * list (list nat) * list Z *
   (list nat * list nat) * circ * nat * circ)%type.

(* the whole modelled pipeline against the returned subexperiment *)
Definition chk_finish (k : c19_case) : bool :=
  let '(gh, gsx, env, (nq, nc, regs), sub, ids, ms, (g, idx), dec, kq, out) := k in
  res_beq circ_beq (finish gh gsx env (mkMC nq nc regs sub) ids ms g idx) (Ok out).

(* the decomposition step alone (C14's model) against the rebuilt intermediate circuit *)
Definition chk_decomposed (k : c19_case) : bool :=
  let '(gh, gsx, env, (nq, nc, regs), sub, ids, ms, (g, idx), dec, kq, out) := k in
  match append_measurement_register (mkMC nq nc regs sub) idx with
  | Ok qc1 => res_beq (pair_beq circ_beq Nat.eqb) (decompose env (mdata qc1) (mnc qc1) ids (Some (map Some ms))) (Ok (dec, kq))
  | _ => false
  end.

(* repair step + measurement suffix + the three passes of the model, applied to the implementation's own
   decomposed circuit *)
Definition chk_from_decomposed (k : c19_case) : bool :=
  let '(gh, gsx, env, (nq, nc, regs), sub, ids, ms, (g, idx), dec, kq, out) := k in
  match append_measurement_register (mkMC nq nc regs sub) idx with
  | Ok qc1 => res_beq circ_beq (finish_from gh gsx qc1 dec kq g idx) (Ok out)
  | _ => false
  end.

Definition chk_subexperiment (k : c19_case) : bool :=
  chk_finish k && chk_decomposed k && chk_from_decomposed k.

(* Corr/C14Corr.v — case checker for the C14 correspondence (model vs implementation).
   Depends on the model only. *)
From CKT Require Import Common.Base Common.Circ Model.Decompose.

(* case = (basis environment, input instruction list, #clbits of the input, instruction_ids,
           map_ids (None = omitted), canonical implementation result (instruction list, size of the new
           final register), input_untouched)
   input_untouched is computed by the harness: canonical form, registers and bit counts of the INPUT
   circuit after the call equal those before it (checked for every inplace=False call, also when the
   call raised); it is `true` by convention for inplace=True calls.  map ids are Python ints (Z). *)
Definition c14_case : Type :=
  benv * circ * nat * list (list nat) * option (list Z) * res (circ * nat) * bool.

Definition chk_decompose (c : c14_case) : bool :=
  let '(env, ci, nc, ids, maps, e, untouched) := c in
  res_beq (pair_beq circ_beq Nat.eqb) (decompose env ci nc ids maps) e && untouched.

(* stream "preset": a basis_id is put on a placeholder through the setter or a constructor.
   case = (basis environment, basis handle of the gate, attempted id, outcome of the attempt) *)
Definition c14_preset_case : Type := benv * nat * Z * res unit.

Definition chk_preset (c : c14_preset_case) : bool :=
  let '(env, b, m, e) := c in
  res_beq (fun _ _ => true) (setter env b m) e.

(* Corr/C14Corr.v — case checkers for the C14 correspondence (model vs implementation).
   Depends on the model only. *)
From CKT Require Import Common.Base Common.Circ Model.Decompose.

Definition out_beq := res_beq (pair_beq circ_beq Nat.eqb).

(* case = (basis environment, input instruction list, #clbits of the input, instruction_ids,
           map_ids (None = omitted; entries are Python ints or None), canonical implementation result
           (instruction list, size of the new final register), side_ok)
   side_ok is computed by the harness from observations the functional model cannot express:
     inplace=False : canonical form, registers and bit counts of the INPUT circuit after the call equal those
                     before it (also when the call raised);
     inplace=True  : when the call was refused, the argument circuit is unchanged ("refused cleanly");
     successful call: the new register is the LAST register and its bits are the final clbits. *)
Definition c14_case : Type :=
  benv * circ * nat * list (list nat) * option (list (option Z)) * res (circ * nat) * bool.

Definition chk_decompose (c : c14_case) : bool :=
  let '(env, ci, nc, ids, maps, e, side_ok) := c in
  out_beq (decompose env ci nc ids maps) e && side_ok.

(* known finding F17 (quiet group, used only while KNOWN_FINDINGS.json lists it): ONE gate object appended at several
   positions and inplace=True — an assignment to one position is seen at every position holding the same object.
   CURRENT behaviour = the model with the assignment groups closed under aliasing (aids); validation and the
   expansion use the real groups. *)
Definition decompose_f17 (env : benv) (c : circ) (nc : nat) (ids aids : list (list nat))
  (maps : option (list (option Z))) : res (circ * nat) :=
  res_bind (validate c ids) (fun _ =>
  res_bind (set_basis_ids env c aids maps) (fun c1 =>
  finish env c1 nc ids)).

Definition c14_f17_case : Type :=
  benv * circ * nat * list (list nat) * list (list nat) * option (list (option Z)) * res (circ * nat) * bool.

Definition chk_decompose_f17 (c : c14_f17_case) : bool :=
  let '(env, ci, nc, ids, aids, maps, e, side_ok) := c in
  out_beq (decompose_f17 env ci nc ids aids maps) e && side_ok.

(* stream "preset": a basis_id is put on a placeholder through the setter or a constructor.
   case = (basis environment, basis handle of the gate, attempted id, outcome of the attempt,
           when an in-range id was accepted: (circuit after the attempt, #clbits, instruction_ids, result of
           decompose_qpd_instructions with map_ids omitted)) *)
Definition c14_preset_case : Type :=
  benv * nat * Z * res unit * option (circ * nat * list (list nat) * res (circ * nat)).

Definition chk_preset (c : c14_preset_case) : bool :=
  let '(env, b, m, e, after) := c in
  res_beq (fun _ _ => true) (setter env b m) e &&
  match after with
  | None => true
  | Some (c', nc, ids, e2) => out_beq (decompose env c' nc ids None) e2
  end.

(* QPDBasis.__eq__ modelled explicitly (Model/DecomposeEq.v): handles are OBJECT identities; every basis object carries
   its qubit count, maps and exact coefficients.  case = (objects, input, #clbits, instruction_ids, map_ids, result) *)
From CKT Require Import Model.DecomposeEq.
Definition RB := mkRB.
Definition c14_r_case : Type :=
  renv * circ * nat * list (list nat) * option (list (option Z)) * res (circ * nat).

Definition chk_decompose_r (c : c14_r_case) : bool :=
  let '(re, ci, nc, ids, maps, e) := c in
  out_beq (decompose_r re ci nc ids maps) e.

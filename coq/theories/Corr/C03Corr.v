(* Corr/C03Corr.v — case checkers for the C03 correspondence (model vs implementation).
   Depends on the models only. *)
From CKT Require Import Common.Base Common.Circ Model.Observables Model.CutWires.

Definition P := mkP.
Definition plist_beq := list_beq pauli_beq.
Definition regs_beq : regs -> regs -> bool := list_beq (pair_beq Nat.eqb (list_beq Nat.eqb)).

Definition cut_result_beq (a b : cut_result) : bool :=
  list_beq Nat.eqb (cr_qubits a) (cr_qubits b) && regs_beq (cr_qregs a) (cr_qregs b) &&
  Nat.eqb (cr_nclbits a) (cr_nclbits b) && regs_beq (cr_cregs a) (cr_cregs b) &&
  circ_beq (cr_data a) (cr_data b).

(* cut_wires / _transform_cuts_to_moves:
   (factory op, #qubits, #clbits, qregs, cregs, input instructions,
    expected = canonical form of the returned circuit: qubit identity list, qregs, #clbits, cregs, data) *)
Definition chk_cut (c : op * nat * nat * regs * regs * circ * res cut_result) : bool :=
  let '(fac, nq, nc, qregs, cregs, data, e) := c in
  res_beq cut_result_beq (Ok (transform_cut_wires fac nq nc qregs cregs data)) e.

(* expand_observables(paulis, original, cut_wires(original)):
   (#qubits, input instructions, paulis, expected) — the final qubit list is the MODEL's *)
Definition chk_cut_expand (c : nat * circ * list pauli * res (list pauli)) : bool :=
  let '(nq, data, ps, e) := c in
  res_beq plist_beq (expand nq (seq 0 nq) (new_qubits nq data) ps) e.

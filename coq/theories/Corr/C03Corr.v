(* Corr/C03Corr.v — case checkers for the C03 correspondence (model vs implementation).
   Depends on the models only. *)
From CKT Require Import Common.Base Common.Circ Model.Observables Model.CutWires.

Definition P := mkP.
Definition plist_beq := list_beq pauli_beq.
Definition regs_beq : regs -> regs -> bool := list_beq (pair_beq Nat.eqb (list_beq Nat.eqb)).

Definition cut_result_beq (a b : cut_result) : bool :=
  list_beq Nat.eqb (cr_qubits a) (cr_qubits b) && regs_beq (cr_qregs a) (cr_qregs b) &&
  Nat.eqb (cr_nclbits a) (cr_nclbits b) && regs_beq (cr_cregs a) (cr_cregs b) &&
  circ_beq (cr_data a) (cr_data b).

(* cut_wires / _transform_cuts_to_moves:
   (factory op, #qubits, #clbits, qregs, cregs, input instructions,
    expected = canonical form of the returned circuit: qubit identity list, qregs, #clbits, cregs, data) *)
Definition chk_cut (c : op * nat * nat * regs * regs * circ * res cut_result) : bool :=
  let '(fac, nq, nc, qregs, cregs, data, e) := c in
  res_beq cut_result_beq (Ok (transform_cut_wires fac nq nc qregs cregs data)) e.

(* expand_observables(paulis, original, cut_wires(original)):
   (#qubits, input instructions, paulis, expected) — the final qubit list is the MODEL's *)
Definition chk_cut_expand (c : nat * circ * list pauli * res (list pauli)) : bool :=
  let '(nq, data, ps, e) := c in
  res_beq plist_beq (expand nq (seq 0 nq) (new_qubits nq data) ps) e.

(* clause f (cut the inserted Moves, reconstruct with exact weights): there is no Coq model of this pipeline in C03
   (its proof content is C01 + C02); this checker only COMPARES, inside Coq and in exact rational arithmetic, the
   values returned by reconstruct_expectation_values with the expectation values of the uncut circuit computed by
   the harness's independent simulator: (reconstructed, uncut) pairs must agree within 1e-7, and the pipeline must
   have produced a result at all (a refusal/crash of an in-domain request is a disagreement). *)
From Coq Require Import QArith Qabs.
Definition e2e_tol : Q := Qmake 1 10000000.
Definition chk_e2e (c : res (list (Q * Q))) : bool :=
  match c with
  | Ok l => forallb (fun p => Qle_bool (Qabs (Qminus (fst p) (snd p))) e2e_tol) l
  | _ => false
  end.

(* Corr/C11Corr.v — case checkers for the C11 correspondence (model vs implementation).
   Depends on the models only. *)
From Coq Require Import QArith Qabs.
From CKT Require Import Common.Base Common.Circ Model.Observables Model.Grouping Model.Measurement.
Close Scope Q_scope.

Definition P := mkP.
Definition plist_beq := list_beq pauli_beq.
Definition nlist_beq := list_beq Nat.eqb.
Definition Nlist_beq := list_beq N.eqb.

(* most_general_observable: (group, num_qubits, expected) *)
Definition chk_mgo (c : list pauli * option nat * res pauli) : bool :=
  let '(group, nq, e) := c in res_beq pauli_beq (most_general_observable group nq) e.

(* CommutingObservableGroup(general, members): expected (pauli_indices, pauli_bitmasks) *)
Definition chk_cog (c : pauli * list pauli * res (list nat * list N)) : bool :=
  let '(g, ms, e) := c in
  res_beq (pair_beq nlist_beq Nlist_beq) (cog_post_init g ms) e.

(* ObservableCollection(obs): (obs, unique, groups as returned by group_commuting,
   expected (groups as (general, members, indices, masks), lookup in dict order)).
   The oracle contract is evaluated here as well. *)
Definition cog_tuple := (pauli * list pauli * list nat * list N)%type.
Definition cog_to_tuple (c : cog) : cog_tuple := (cg_general c, cg_members c, cg_indices c, cg_masks c).
Definition cog_tuple_beq (a b : cog_tuple) : bool :=
  let '(g, ms, ix, mk) := a in let '(g', ms', ix', mk') := b in
  pauli_beq g g' && plist_beq ms ms' && nlist_beq ix ix' && Nlist_beq mk mk'.
Definition lookup_beq : lookup_t -> lookup_t -> bool :=
  list_beq (pair_beq pauli_beq (list_beq (pair_beq Nat.eqb Nat.eqb))).

Definition chk_collection
  (c : list pauli * list pauli * list (list pauli) * res (list cog_tuple * lookup_t)) : bool :=
  let '(obs, u, gs, e) := c in
  let o := mkOracle u gs in
  match obs with [] => true | _ => grouping_contract obs o end &&
  res_beq (pair_beq (list_beq cog_tuple_beq) lookup_beq)
          (res_map (fun r => (map cog_to_tuple (fst r), snd r)) (collection obs o)) e.

(* circuits: (num_qubits, num_clbits, cregs, data) *)
Definition mc_tuple := (nat * nat * list (bool * list nat) * circ)%type.
Definition mc_of (t : mc_tuple) : mcirc := let '(nq, nc, regs, d) := t in mkMC nq nc regs d.
Definition mcirc_beq (a b : mcirc) : bool :=
  Nat.eqb (mnq a) (mnq b) && Nat.eqb (mnc a) (mnc b) &&
  list_beq (pair_beq Bool.eqb nlist_beq) (mcregs a) (mcregs b) &&
  circ_beq (mdata a) (mdata b).

(* _append_measurement_register: (circuit, cog.pauli_indices, expected circuit) *)
Definition chk_meas_reg (c : mc_tuple * list nat * res mc_tuple) : bool :=
  let '(qc, idx, e) := c in
  res_beq mcirc_beq (append_measurement_register (mc_of qc) idx) (res_map mc_of e).

(* _append_measurement_circuit:
   (gate id of h, gate id of sx, circuit, general letters, cog.pauli_indices, qubit_locations, expected) *)
Definition chk_meas_circ
  (c : nat * nat * mc_tuple * list nat * list nat * option (list nat) * res mc_tuple) : bool :=
  let '(gh, gsx, qc, g, idx, locs, e) := c in
  res_beq mcirc_beq (append_measurement_circuit gh gsx (mc_of qc) g idx locs) (res_map mc_of e).

(* physics: (general, members, outcome law of the observable register under an independent simulator
   [(word, probability)], true expectation value of each member).  The model's masks and decoding
   must reproduce every expectation value within 1e-9. *)
Open Scope Q_scope.
Definition expectQ (law : list (N * Q)) (f : N -> Z) : Q :=
  fold_right (fun bp acc => snd bp * inject_Z (f (fst bp)) + acc) 0 law.
Definition close (a b : Q) : bool := Qle_bool (Qabs (a - b)) (1 # 1000000000).
Close Scope Q_scope.

Fixpoint all2 {A B} (f : A -> B -> bool) (l : list A) (m : list B) : bool :=
  match l, m with
  | [], [] => true
  | x :: xs, y :: ys => f x y && all2 f xs ys
  | _, _ => false
  end.

Definition chk_physics (c : pauli * list pauli * list (N * Q) * list Q) : bool :=
  let '(g, ms, law, expected) := c in
  match cog_post_init g ms with
  | Ok (_, masks) => all2 (fun mask e => close (expectQ law (decode mask)) e) masks expected
  | _ => false
  end.

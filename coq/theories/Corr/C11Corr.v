(* Corr/C11Corr.v — case checkers for the C11 correspondence (model vs implementation).
   Depends on the models only. *)
From Coq Require Import QArith Qabs.
From CKT Require Import Common.Base Common.Circ Model.Observables Model.Grouping Model.Measurement.
Close Scope Q_scope.

Definition P := mkP.
Definition plist_beq := list_beq pauli_beq.
Definition nlist_beq := list_beq Nat.eqb.
Definition Nlist_beq := list_beq N.eqb.

(* most_general_observable: (group, num_qubits, expected) *)
Definition chk_mgo (c : list pauli * option nat * res pauli) : bool :=
  let '(group, nq, e) := c in res_beq pauli_beq (most_general_observable group nq) e.

(* CommutingObservableGroup(general, members): expected (pauli_indices, pauli_bitmasks) *)
Definition chk_cog (c : pauli * list pauli * res (list nat * list N)) : bool :=
  let '(g, ms, e) := c in
  res_beq (pair_beq nlist_beq Nlist_beq) (cog_post_init g ms) e.

(* ObservableCollection(obs): (obs, unique, groups as returned by group_commuting,
   expected (groups as (general, members, indices, masks), lookup in dict order)).
   The oracle contract is evaluated here as well. *)
Definition cog_tuple := (pauli * list pauli * list nat * list N)%type.
Definition cog_to_tuple (c : cog) : cog_tuple := (cg_general c, cg_members c, cg_indices c, cg_masks c).
Definition cog_tuple_beq (a b : cog_tuple) : bool :=
  let '(g, ms, ix, mk) := a in let '(g', ms', ix', mk') := b in
  pauli_beq g g' && plist_beq ms ms' && nlist_beq ix ix' && Nlist_beq mk mk'.
Definition lookup_beq : lookup_t -> lookup_t -> bool :=
  list_beq (pair_beq pauli_beq (list_beq (pair_beq Nat.eqb Nat.eqb))).

Definition chk_collection
  (c : list pauli * list pauli * list (list pauli) * res (list cog_tuple * lookup_t)) : bool :=
  let '(obs, u, gs, e) := c in
  let o := mkOracle u gs in
  match obs with [] => true | _ => grouping_contract obs o end &&
  res_beq (pair_beq (list_beq cog_tuple_beq) lookup_beq)
          (res_map (fun r => (map cog_to_tuple (fst r), snd r)) (collection obs o)) e.

(* A group re-read AFTER it has been used (register / measurement circuit / outcome decoding):
   `before` = the fields recorded when it was built, `after` = the fields re-read after the use.
   The model's cog_post_init result is a value: nothing may have changed, and the re-read indices and
   masks must still be what the model computes from the general observable and the members. *)
Definition cog_still_valid (before after : cog_tuple) : bool :=
  let '(g, ms, _, _) := before in
  let '(_, _, ix', mk') := after in
  cog_tuple_beq before after &&
  res_beq (pair_beq nlist_beq Nlist_beq) (cog_post_init g ms) (Ok (ix', mk')).

(* circuits: (num_qubits, num_clbits, cregs, data) *)
Definition mc_tuple := (nat * nat * list (bool * list nat) * circ)%type.
Definition mc_of (t : mc_tuple) : mcirc := let '(nq, nc, regs, d) := t in mkMC nq nc regs d.
Definition mcirc_beq (a b : mcirc) : bool :=
  Nat.eqb (mnq a) (mnq b) && Nat.eqb (mnc a) (mnc b) &&
  list_beq (pair_beq Bool.eqb nlist_beq) (mcregs a) (mcregs b) &&
  circ_beq (mdata a) (mdata b).

(* _append_measurement_register: (circuit, group before, expected circuit, group re-read after the call) *)
Definition chk_meas_reg (c : mc_tuple * cog_tuple * res mc_tuple * cog_tuple) : bool :=
  let '(qc, before, e, after) := c in
  let '(_, _, idx, _) := before in
  res_beq mcirc_beq (append_measurement_register (mc_of qc) idx) (res_map mc_of e) &&
  cog_still_valid before after.

(* _append_measurement_circuit:
   (gate id of h, gate id of sx, circuit, group before, qubit_locations, expected, group re-read after) *)
Definition chk_meas_circ
  (c : nat * nat * mc_tuple * cog_tuple * option (list nat) * res mc_tuple * cog_tuple) : bool :=
  let '(gh, gsx, qc, before, locs, e, after) := c in
  let '(g, _, idx, _) := before in
  res_beq mcirc_beq (append_measurement_circuit gh gsx (mc_of qc) (plets g) idx locs) (res_map mc_of e) &&
  cog_still_valid before after.

(* use then re-inspect: the group is used (register, measurement circuit, _process_outcome on the listed
   integer outcomes), possibly several times, and re-read after every step:
   (group when built, [group re-read after step k], [(outcome, _process_outcome result)]) *)
Definition Zlist_beq := list_beq Z.eqb.
Definition chk_reuse (c : cog_tuple * list cog_tuple * list (N * list Z)) : bool :=
  let '(before, afters, outs) := c in
  let '(_, _, idx, masks) := before in
  forallb (cog_still_valid before) afters &&
  forallb (fun orr => Zlist_beq (process_outcome idx masks (fst orr)) (snd orr)) outs.

(* physics: (general, members, outcome law of the observable register under an independent simulator
   [(word, probability)], true expectation value of each member).  The model's masks and decoding
   must reproduce every expectation value within 1e-9. *)
Open Scope Q_scope.
Definition expectQ (law : list (N * Q)) (f : N -> Z) : Q :=
  fold_right (fun bp acc => snd bp * inject_Z (f (fst bp)) + acc) 0 law.
Definition close (a b : Q) : bool := Qle_bool (Qabs (a - b)) (1 # 1000000000).
Close Scope Q_scope.

Fixpoint all2 {A B} (f : A -> B -> bool) (l : list A) (m : list B) : bool :=
  match l, m with
  | [], [] => true
  | x :: xs, y :: ys => f x y && all2 f xs ys
  | _, _ => false
  end.

Definition chk_physics (c : pauli * list pauli * list (N * Q) * list Q) : bool :=
  let '(g, ms, law, expected) := c in
  match cog_post_init g ms with
  | Ok (_, masks) => all2 (fun mask e => close (expectQ law (decode mask)) e) masks expected
  | _ => false
  end.

(* a case the harness itself found wrong (the independent oracle flagged it, or the implementation made the
   harness's own bookkeeping impossible): always fails, so that the run judges and reports it *)
Definition chk_forced (c : nat) : bool := false.

(* end to end: (observables, unique, groups from the oracle, outcome law of each group's register under the harness's
   simulator, true expectation value of each observable).  The model's collection, lookup, masks and decoding
   must reproduce every expectation value: mean over the lookup locations of the decoded value. *)
Open Scope Q_scope.
Definition mean_close (vals : list Q) (e : Q) : bool :=
  match vals with
  | [] => false
  | _ => close (fold_right Qplus 0 vals / inject_Z (Z.of_nat (length vals))) e
  end.
Close Scope Q_scope.

Definition chk_e2e (c : list pauli * list pauli * list (list pauli) * list (list (N * Q)) * list Q) : bool :=
  let '(obs, u, gs, laws, expected) := c in
  match collection obs (mkOracle u gs) with
  | Ok (cogs, lk) =>
      all2 (fun p e =>
              match lookup_find p lk with
              | Some locs =>
                  mean_close (map (fun ij => expectQ (nth (fst ij) laws [])
                                               (decode (nth (snd ij) (cg_masks (nth (fst ij) cogs (mkCog (mkP 0 []) [] [] []))) 0%N)))
                                  locs) e
              | None => false
              end) obs expected
  | _ => false
  end.

(* born2: the two-qubit state-vector specification used by c11_born_two_qubits vs qiskit's Statevector:
   (8 integer coordinates of the state, general letters g, [(register word, probability)] from qiskit after the
   rotations, [(Pauli letters, expectation value)] from qiskit).  Depends on Model/StateVec2.v only. *)
From CKT Require Import Model.StateVec2.
Open Scope Q_scope.
Definition word_weight (law : list (N * Q)) (w : N) : Q :=
  fold_right (fun bp acc => if N.eqb (fst bp) w then snd bp + acc else acc) 0 law.
Close Scope Q_scope.
Definition chk_born2 (c : sv2 * list nat * list (N * Q) * list (list nat * Q)) : bool :=
  let '(s, g, law, evs) := c in
  forallb (fun wp => close (word_weight (sv2_law s g) (fst wp)) (snd wp)) law &&
  forallb (fun me => close (sv2_ev s (fst me)) (snd me)) evs.

(* Corr/C05Corr.v — case checkers for the C05 correspondence (Model/Experiments.v vs generate_cutting_experiments).
   Depends on models only. *)
From Coq Require Import QArith Qabs.
From CKT Require Import Common.Base Common.Circ Model.Decompose Model.Measurement Model.ResetPasses
  Model.Experiments.
Close Scope Q_scope.

(* short constructors for the case literals *)
Definition MC := mkMC.
Definition OG := mkOG.
Definition E := KExact.
Definition S' := KSampled.
Definition Fin := NFin.
Definition PInf := NPosInf.
Definition NInf := NNegInf.
Definition NaN := NNaN.

Definition regs_beq : list (bool * list nat) -> list (bool * list nat) -> bool :=
  list_beq (pair_beq Bool.eqb (list_beq Nat.eqb)).

Definition mc_beq (a b : mcirc) : bool :=
  Nat.eqb (mnq a) (mnq b) && Nat.eqb (mnc a) (mnc b) && regs_beq (mcregs a) (mcregs b) &&
  circ_beq (mdata a) (mdata b).

(* [impl] is [model] plus extra Reset instructions on qubit 0 (both lists otherwise equal, in order).
   Greedy and deterministic (an `if`, not `||`: vm_compute is call-by-value): equal heads are matched, otherwise the
   implementation's head must be a reset on qubit 0.  Greedy loses nothing: all deletable instructions are the same
   instruction Reset[0], so matching the first of two equal candidates is as good as matching the second. *)
Definition reset0 (x : instr) : bool := is_reset x && list_beq Nat.eqb (iqs x) [0].

Fixpoint extra_resets0 (impl model : circ) : bool :=
  match impl with
  | [] => match model with [] => true | _ :: _ => false end
  | x :: ri =>
      match model with
      | y :: rm => if instr_beq x y then extra_resets0 ri rm
                   else if reset0 x then extra_resets0 ri model else false
      | [] => if reset0 x then extra_resets0 ri [] else false
      end
  end.

(* F2 tolerance: same circuit, except that the implementation may have kept resets on qubit 0 *)
Definition mc_beq_f2 (model impl : mcirc) : bool :=
  Nat.eqb (mnq model) (mnq impl) && Nat.eqb (mnc model) (mnc impl) && regs_beq (mcregs model) (mcregs impl) &&
  extra_resets0 (mdata impl) (mdata model).

(* coefficients: same length, same WeightType, |model - impl| <= tol *)
Definition coeff_close (tol : Q) (m e : Q * wkind) : bool :=
  wkind_eqb (snd m) (snd e) && Qle_bool (Qabs (fst m - fst e)) tol.
Definition coeffs_close (tol : Q) : list (Q * wkind) -> list (Q * wkind) -> bool := list_beq (coeff_close tol).

Definition exps_beq (cmp : mcirc -> mcirc -> bool) (m e : experiments) : bool :=
  match m, e with
  | OutList a, OutList b => list_beq cmp a b
  | OutDict a, OutDict b => list_beq (pair_beq Nat.eqb (list_beq cmp)) a b
  | _, _ => false
  end.

(* case = (gh, gsx, env, cenv, circuits, observables, N, weights, implementation result, tolerance, side checks)
   side checks (computed by the harness on the implementation's output): the last two classical registers of every
   returned circuit are named observable_measurements and qpd_measurements; the coefficient list holds floats
   paired with WeightType members; inputs untouched. *)
Definition c05_case : Type :=
  nat * nat * benv * list (list Q) * circuits_arg * observables_arg * nsamples * sdict *
  res (experiments * list (Q * wkind)) * Q * bool.

(* Oracle contract consumed by c05_exact_coeff, evaluated on the dictionary the implementation actually used:
   for num_samples = inf every joint map whose probability prod_j |c_j|/kappa_j is (clearly) above the 1e-14 cut-off
   of qpd/weights.py must be a key of the weights dictionary, so that it gets a coefficient and its circuits.
   (Probabilities are reduced to lowest terms once; the margin 1.5e-14 keeps binary64 noise at the cut-off out.) *)
Definition cutoff_margin : Q := 15 # 1000000000000000.

Fixpoint all_joint (dims : list nat) : list jkey :=
  match dims with
  | [] => [[]]
  | n :: r => flat_map (fun i => map (cons i) (all_joint r)) (seq 0 n)
  end.

Fixpoint jprob (probs : list (list Q)) (ids : jkey) : Q :=
  match probs, ids with
  | v :: rv, i :: ri => Qred (nth i v 0 * jprob rv ri)%Q
  | _, _ => 1%Q
  end.

Definition bases_of (circuits : circuits_arg) : option (list nat) :=
  match circuits with
  | CSingle qc => match get_bases 0 (mdata qc) with Ok bi => Some (fst bi) | _ => None end
  | CDict d => match mapping_by_partition d with Ok _ => Some (bases_by_partition d) | _ => None end
  | COther => None
  end.

Definition inf_complete (cenv : list (list Q)) (circuits : circuits_arg) (N : nsamples) (W : sdict) : bool :=
  match N with
  | NPosInf =>
      match bases_of circuits with
      | None => true
      | Some bs =>
          let C := map (fun b => nth b cenv []) bs in
          let probs := map (fun cs => let k := Qred (kappa_of cs) in map (fun c => Qred (Qabs c / k)%Q) cs) C in
          let keys := map fst W in
          forallb (fun ids => if Qle_bool cutoff_margin (jprob probs ids)
                              then existsb (list_beq Nat.eqb ids) keys else true)
                  (all_joint (map (@length Q) C))
      end
  | _ => true
  end.

Definition chk_with (cmp : mcirc -> mcirc -> bool) (c : c05_case) : bool :=
  let '(gh, gsx, env, cenv, circuits, observables, N, weights, e, tol, side) := c in
  side &&
  match generate gh gsx env cenv circuits observables N weights, e with
  | Ok (mx, mc), Ok (ex, ec) => exps_beq cmp mx ex && coeffs_close tol mc ec && inf_complete cenv circuits N weights
  | Refused, Refused => true
  | Crashed, Crashed => true
  | _, _ => false
  end.

Definition chk_generate : c05_case -> bool := chk_with mc_beq.

(* cases in which some commuting group has no measured qubit and a reset may precede the placeholder measurement
   (defect F2 / property C19): for the circuits of exactly those groups accept the repaired output (= the model)
   and the unrepaired one (resets on qubit 0 that the model removed are still there); all other circuits of the
   case must be equal.  Which circuit belongs to which group: element z*G + j belongs to group j. *)
Definition is_dummy (g : ogroup) : bool := match og_indices g with [] => true | _ :: _ => false end.
Definition dummy_flags (gs : list ogroup) (nsamples : nat) : list bool :=
  flat_map (fun _ => map is_dummy gs) (seq 0 nsamples).

Fixpoint flagged_beq (fl : list bool) (a b : list mcirc) : bool :=
  match a, b with
  | [], [] => true
  | x :: ra, y :: rb =>
      match fl with
      | true :: rf => mc_beq_f2 x y && flagged_beq rf ra rb
      | false :: rf => mc_beq x y && flagged_beq rf ra rb
      | [] => mc_beq x y && flagged_beq [] ra rb
      end
  | _, _ => false
  end.

Definition groups_of (o : observables_arg) (l : nat) : list ogroup :=
  match o with
  | OPaulis (Ok gs) => gs
  | ODict d => match alookup d l with Some (Ok gs) => gs | _ => [] end
  | _ => []
  end.

Definition chk_generate_f2 (c : c05_case) : bool :=
  let '(gh, gsx, env, cenv, circuits, observables, N, weights, e, tol, side) := c in
  side &&
  match generate gh gsx env cenv circuits observables N weights, e with
  | Ok (OutList a, mc), Ok (OutList b, ec) =>
      flagged_beq (dummy_flags (groups_of observables 0) (length ec)) a b && coeffs_close tol mc ec
      && inf_complete cenv circuits N weights
  | Ok (OutDict a, mc), Ok (OutDict b, ec) =>
      list_beq (fun x y => Nat.eqb (fst x) (fst y) &&
                           flagged_beq (dummy_flags (groups_of observables (fst y)) (length ec)) (snd x) (snd y)) a b
      && coeffs_close tol mc ec && inf_complete cenv circuits N weights
  | Refused, Refused => true
  | Crashed, Crashed => true
  | _, _ => false
  end.

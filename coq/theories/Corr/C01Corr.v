(* Corr/C01Corr.v — case checker of the C01 end-to-end correspondence.
   One case = one request run through the real pipeline
       partition_problem / cut_gates / partition_circuit_qubits -> generate_cutting_experiments(num_samples = inf)
       -> ExactSampler on every subexperiment -> reconstruct_expectation_values.
   The Coq side decides (Model/Roundtrip.v, Model/Partition.v)
     * whether the request must be refused (observable non-identity on a dropped idle qubit, separated form only) and
     * whether the STRUCTURE the implementation produced satisfies the structurally checkable hypotheses of
       c01_roundtrip: the sample list is exactly the support of the joint distribution (above the cut-off), every
       coefficient is the product of the chosen maps' coefficients, per partition #circuits = #samples x #groups,
       the projections are consistent, the lookup tables have the right shape;
   the NUMBERS (returned expectation values against an independent simulation of the uncut circuit) are judged by the
   harness and enter as one boolean.  Depends on Model/ only. *)
From Coq Require Import QArith.
From CKT Require Import Common.Base Model.Observables Model.Partition Model.Experiments Model.Roundtrip.
Close Scope Q_scope.

Definition P := mkP.

(* what the implementation produced on a successful run *)
Definition structure : Type :=
  (list (list Q)                                   (* C: coefficient list of every basis returned / collected *)
   * list (jkey * Q)                               (* sampled joint maps with their coefficients, coefficient order *)
   * list (list nat)                               (* per partition (order of the sub-observables): cut ids of its halves *)
   * list (list nat * list (list (nat * nat)))     (* per partition: members per group, lookup locations per observable *)
   * list N                                        (* per partition: number of subexperiments generated *)
   * nat                                           (* number of observables *)
   * (Q * Q * Q)                                   (* cut-off bracket lo, hi and coefficient tolerance *)
   * bool)%type.                                   (* harness: bases of the halves match `bases`, values agree with the oracle *)

(* (separated form?, labels in force with None = dropped qubit, observables, outcome) *)
Definition case : Type := (bool * list (option nat) * list pauli * res structure)%type.

Definition structure_ok (separated : bool) (st : structure) : bool :=
  let '(C, samples, L, parts, counts, nobs, (lo, hi, tol), side) := st in
  let keys := map fst samples in
  support_ok C lo hi keys &&
  coeffs_ok C tol samples &&
  (if separated then projection_ok_sep (length C) L else projection_ok_single (length C) L) &&
  Nat.eqb (length parts) (length L) && Nat.eqb (length counts) (length L) &&
  counts_ok (length samples) (map (fun p => length (fst p)) parts) counts &&
  forallb (lookup_ok nobs) parts &&
  side.

(* The property allows a request whose observable acts on a discarded idle qubit to be refused, and also to be
   answered — with the right number (the harness's oracle verdict is part of `side`).  Any other request must be
   answered. *)
Definition chk_roundtrip (c : case) : bool :=
  let '(separated, ls, ps, outcome) := c in
  let may_refuse := separated && pipeline_refuses ls ps in
  match outcome with
  | Ok st => structure_ok separated st
  | Refused => may_refuse
  | Crashed => false
  end.

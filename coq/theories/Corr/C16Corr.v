(* Corr/C16Corr.v — case checkers for the C16 correspondence (heap model vs implementation).
   A case is (abstract heap of the arguments, the call, observation of the implementation):
   observation = (arguments changed?, alias roots arguments/result per kind, alias roots result1/result2 per kind). *)
From Coq Require Import QArith.
From CKT Require Import Common.Base Model.Heap.
Close Scope Q_scope.

Definition obs_beq (a b : bool * list nat * list nat) : bool :=
  Bool.eqb (fst (fst a)) (fst (fst b)) &&
  list_beq Nat.eqb (snd (fst a)) (snd (fst b)) &&
  list_beq Nat.eqb (snd a) (snd b).

(* observe_ok: every reachable set used by `observe` carries its completeness certificate (c16_reach_complete) *)
(* against the behaviour the property demands (nothing shared) *)
Definition chk_rep (c : heap * call * (bool * list nat * list nat)) : bool :=
  let '(h, cl, e) := c in obs_beq (observe Repaired h cl) e && observe_ok Repaired h cl.

(* against the model of the CURRENT tree (known sharing classes F6 / F10 / F11) *)
Definition chk_cur (c : heap * call * (bool * list nat * list nat)) : bool :=
  let '(h, cl, e) := c in obs_beq (observe Current h cl) e && observe_ok Current h cl.

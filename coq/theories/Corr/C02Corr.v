(* Corr/C02Corr.v — case checkers for the C02 correspondence (Model/Bases.v and the
   specifications of Common/Ptm.v  vs  the implementation / Qiskit).  Depends on Model only. *)
From Coq Require Import String List QArith Qabs.
From CKT Require Import Common.Base Common.PolyRing Common.Ptm Model.Bases Model.BasesDispatch.
Import ListNotations.
Close Scope Q_scope.
Open Scope string_scope.
Open Scope list_scope.

(* Evaluation for the comparison: binary fixed point with 64 fractional bits (values are Z mantissas).
   Exact rational arithmetic on Fraction(float) inputs would spend its time in gcds of 500-bit numbers;
   the rounding error here (2^-64 per operation, a few hundred operations per coefficient) is far below the tolerance 1e-12. *)
Definition SH : Z := 64%Z.
Definition fx_ofQ (q : Q) : Z := Z.div (Z.shiftl (Qnum q) SH) (Zpos (Qden q)).
Definition fx_mul (a b : Z) : Z := Z.shiftr (a * b) SH.
Definition FxRing : Ring Z := mkRing 0%Z (Z.shiftl 1 SH) Z.add fx_mul Z.opp Z.eqb.
Definition fx_tol : Z := fx_ofQ (1 # 1000000000000)%Q.          (* 1e-12 *)
Definition qclose (x : Z) (y : Q) : bool := Z.leb (Z.abs (x - fx_ofQ y)) fx_tol.

(* evaluation point: c = cos θ', s = sin θ' (rational on the exact stream), r ≈ 1/sqrt 2,
   w = [cos a; sin a; cos b; sin b; cos c; sin c] of the observed Weyl coordinates (KAK path) *)
Definition QenvCoef (c s : Q) (w : list Q) : Coef Z :=
  let vals := map fx_ofQ ([c; s; r_approx] ++ firstn 6 w) in       (* converted once *)
  mkCoef FxRing fx_ofQ (fun n => nth n vals 0%Z).

(* ---------- operation codes shared with harness/c02.py ---------- *)
Definition ang_code (a : ang) : nat :=
  match a with Th2P => 0 | Th2M => 1 | HalfPiP => 2 | HalfPiM => 3 | QuartPiP => 4 | QuartPiM => 5 end.
Definition op_code (o : op1) : nat * option nat :=
  match o with
  | OX => (0, None) | OY => (1, None) | OZ => (2, None) | OH => (3, None) | OS => (4, None)
  | OSdg => (5, None) | OSX => (6, None) | OSXdg => (7, None) | OT => (8, None) | OTdg => (9, None)
  | ORX a => (10, Some (ang_code a)) | ORY a => (11, Some (ang_code a))
  | ORZ a => (12, Some (ang_code a)) | OP a => (13, Some (ang_code a))
  | OMeas => (14, None) | OReset => (15, None) | OU k => (16, Some k)
  end.
Definition ang_of_code (n : nat) : ang :=
  match n with 0 => Th2P | 1 => Th2M | 2 => HalfPiP | 3 => HalfPiM | 4 => QuartPiP | _ => QuartPiM end.
Definition op_of_code (c t : nat) : op1 :=
  match c with
  | 0 => OX | 1 => OY | 2 => OZ | 3 => OH | 4 => OS | 5 => OSdg | 6 => OSX | 7 => OSXdg | 8 => OT | 9 => OTdg
  | 10 => ORX (ang_of_code t) | 11 => ORY (ang_of_code t) | 12 => ORZ (ang_of_code t) | 13 => OP (ang_of_code t)
  | 14 => OMeas | 15 => OReset | _ => OU t
  end.
(* observed operation: (code, admissible parameter tags) — the tags whose float value equals the
   observed parameter exactly; empty for parameterless operations *)
Definition chk_op (o : op1) (e : nat * list nat) : bool :=
  let '(c, t) := op_code o in
  Nat.eqb c (fst e) &&
  match t with
  | None => match snd e with [] => true | _ => false end
  | Some k => existsb (Nat.eqb k) (snd e)
  end.

(* ---------- canonical form of the sharing structure ---------- *)
Definition flat_ids (maps : list (nat * nat)) : list nat := flat_map (fun m => [fst m; snd m]) maps.
Definition canon_order (maps : list (nat * nat)) : list nat := uniq_ids [] (flat_ids maps).
Definition canon_id (order : list nat) (x : nat) : nat :=
  match index_of x order with Some i => i | None => 4999 end.
Definition canon_maps (b : pbasis) : list (nat * nat) :=
  let o := canon_order (pmaps b) in map (fun m => (canon_id o (fst m), canon_id o (snd m))) (pmaps b).
Definition canon_cells (b : pbasis) : list (list op1) :=
  map (fun x => nth x (pheap b) []) (canon_order (pmaps b)).

Definition observed : Type := list (nat * nat) * list (list (nat * list nat)) * list Q.

Fixpoint list_chk {X Y} (f : X -> Y -> bool) (l : list X) (m : list Y) : bool :=
  match l, m with
  | [], [] => true
  | x :: l', y :: m' => f x y && list_chk f l' m'
  | _, _ => false
  end.

(* (name, (is_gate, nq, param_ok, matrix_ok, has_param), (c, s), w, oracle_contract_ok, expected) *)
Definition basis_case : Type :=
  string * (bool * nat * bool * bool * bool) * (Q * Q) * list Q * bool * res observed.

Definition chk_basis (k : basis_case) : bool :=
  let '(name, (isg, nq, pok, mok, hasp), (c, s), w, okak, e) := k in
  match res_map fst (qpd_model (mkG name isg nq pok mok hasp)), e with      (* through the registry dispatcher *)
  | Ok b, Ok (emaps, ecells, ecoef) =>
      okak &&
      list_beq (pair_beq Nat.eqb Nat.eqb) (canon_maps b) emaps &&
      list_chk (list_chk chk_op) (canon_cells b) ecells &&
      list_chk qclose (map (ceval (QenvCoef c s w)) (pcoeffs b)) ecoef
  | Refused, Refused => true
  | Crashed, Crashed => true
  | _, _ => false
  end.

(* ---------- specifications vs Qiskit ---------- *)
Definition target_of (name : string) : option (list (list cxe)) :=
  match find (fun p => String.eqb (fst p) name)
    [("rxx", U_rxx); ("ryy", U_ryy); ("rzz", U_rzz); ("crx", U_crx); ("cry", U_cry); ("crz", U_crz); ("cp", U_cp);
     ("cx", U_cx); ("cy", U_cy); ("cz", U_cz); ("ch", U_ch); ("ecr", U_ecr); ("cs", U_cs); ("csdg", U_csdg);
     ("csx", U_csx); ("csxdg", U_csxdg); ("swap", U_swap); ("iswap", U_iswap); ("dcx", U_dcx)] with
  | Some p => Some (snd p)
  | None => None
  end.
Definition cclose (x : Z * Z) (y : Q * Q) : bool := qclose (fst x) (fst y) && qclose (snd x) (snd y).
(* (name, (c, s), gate.to_matrix() as (re, im) entries) *)
Definition chk_unitary (k : string * (Q * Q) * list (list (Q * Q))) : bool :=
  let '(name, (c, s), e) := k in
  match target_of name with
  | Some U => list_chk (list_chk cclose) (cmeval (QenvCoef c s []) U) e
  | None => false
  end.
(* ((code, tag), (c, s), PTM of the operation computed by the harness from Qiskit's matrix
   (unitary gates) or from the property's reading of QPDMeasure / Reset) *)
Definition chk_op_ptm (k : (nat * nat) * (Q * Q) * list (list Q)) : bool :=
  let '((code, tag), (c, s), e) := k in
  list_chk (list_chk qclose) (ptm_op (QenvCoef c s []) (fun _ => []) (op_of_code code tag)) e.
(* Move: PTM of the circuit  reset(1); swap(0,1)  computed by the harness *)
Definition chk_move_ptm (e : list (list Q)) : bool :=
  list_chk (list_chk qclose) (ptm_move (QenvCoef 1%Q 0%Q [])) e.
(* _u_from_thetavec: (w, observed u as (re, im)) *)
Definition chk_thetavec (k : list Q * list (Q * Q)) : bool :=
  let '(w, e) := k in
  list_chk cclose (map (cxeval (QenvCoef 1%Q 0%Q w)) u_from_thetavec) e.

(* the parameterised gates' own matrices in the gate angle: (name, (cos(θ/2), sin(θ/2)), gate.to_matrix()) *)
Definition chk_unitary_h (k : string * (Q * Q) * list (list (Q * Q))) : bool :=
  let '(name, (c, s), e) := k in
  match find (fun t => String.eqb (fst (fst t)) name) family_table_h with
  | Some t => list_chk (list_chk cclose) (cmeval (QenvCoef c s []) (snd t)) e
  | None => false
  end.

(* Corr/C09Corr.v — case checkers for the C09 correspondence (process-state model vs implementation).
   Depends on the model only. *)
From Coq Require Import String QArith.
From CKT Require Import Common.Base Model.Process.
Close Scope Q_scope.
Open Scope string_scope.
Open Scope list_scope.

(* ---------- observable views ---------- *)
Definition an_v := (list (gname * (gname * list gname)) * list (gname * list gname))%type.
(* (action registry view, slots of cut_optimization's table, slots of lo_cuts_optimizer's table,
    keys of the decomposition registry, "every process-global object is still the object it was after import") *)
Definition reg_view := (an_v * list (option string) * list (option string) * list string * bool)%type.

Definition an_v_beq (a b : an_v) : bool :=
  list_beq (pair_beq gname_eqb (pair_beq gname_eqb (list_beq gname_eqb))) (fst a) (fst b) &&
  list_beq (pair_beq gname_eqb (list_beq gname_eqb)) (snd a) (snd b).

Definition reg_view_beq (a b : reg_view) : bool :=
  let '(a1, a2, a3, a4, a5) := a in
  let '(b1, b2, b3, b4, b5) := b in
  an_v_beq a1 b1 && list_beq gname_eqb a2 b2 && list_beq gname_eqb a3 b3 &&
  list_beq String.eqb a4 b4 && Bool.eqb a5 b5.

Definition view_of (g : gstate) : reg_view :=
  (an_view (action_registry g), ft_view (funcs_cutopt g), ft_view (funcs_lo g), basis_registry g, true).

(* ---------- history cases ---------- *)
Definition obs := (nat * nat * nat)%type.      (* registry-view id, numpy state token, random state token *)
(* kind (0 find_cuts, 1 generate(inf), 2 from_instruction, 5 generate(finite num_samples, all-exact or refused),
         4 generate(finite, sampled) as interference),
   (argument id, gate_lo, wire_lo), seed, observed before, observed after, result id *)
Definition evt := (nat * (nat * bool * bool) * option Z * obs * obs * nat)%type.
(* per generation argument id: the coefficient lists of the bases of its cut gates (exact values of the binary64
   coefficients) and num_samples (None = inf) *)
Definition ginfo := list (nat * (list (list Q) * option Q)).
Definition hcase := (list (nat * reg_view) * list evt * list evt * ginfo)%type.

Definition ginfo_get (gi : ginfo) (a : nat) : list (list Q) * option Q :=
  match find (fun p => Nat.eqb (fst p) a) gi with Some p => snd p | None => ([], None) end.
Definition ns_of (gi : ginfo) (a : nat) : nsamples :=
  match snd (ginfo_get gi a) with None => NInf | Some n => NFin n end.

Definition ev_key (e : evt) : nat * nat * option Z :=
  let '(k, a, s, _, _, _) := e in (k, fst (fst a), s).
Definition ev_rid (e : evt) : nat := let '(_, _, _, _, _, r) := e in r.

(* the graph of the three pure functions as observed in fresh interpreters *)
Definition lookup_rid (fresh : list evt) (k a : nat) (s : option Z) : nat :=
  match find (fun e => let '(k', a', s') := ev_key e in Nat.eqb k k' && Nat.eqb a a' && option_beq Z.eqb s s') fresh with
  | Some e => ev_rid e
  | None => 4999
  end.

(* tape = the integer seed (O-rng); None = OS entropy, about which nothing is predicted.
   Generation: the REAL coefficient lists go into ge_coeffs, so reaches_sampler (prod_min_nonzero, min_filter_nonzero,
   threshold, ns_valid, the rounding margin) is evaluated on what the implementation worked with; outside the region
   where the model is certain of the all-exact branch the worst case "samples" is assumed. *)
Definition O_of (fresh : list evt) (gi : ginfo) : oracles :=
  mkO (nat * bool * bool) nat nat (option Z) nat nat nat
      (fun z => Some z)
      (fun a => snd (fst a)) (fun a => snd a)
      (fun _ _ _ a t => lookup_rid fresh 0 (fst (fst a)) t)
      (fun a => fst (ginfo_get gi a)) (fun _ _ => true) (fun s _ _ => s)
      (fun _ a ns => lookup_rid fresh (match ns with NInf => 1 | NFin _ => 5 end) a None)
      (fun _ _ _ _ => 4999)
      (fun _ a => lookup_rid fresh 2 a None).

Definition obs_matches (views : list (nat * reg_view)) (o : obs) (g : gstate) : bool :=
  let '(vid, np, py) := o in
  match find (fun p => Nat.eqb (fst p) vid) views with
  | Some p => reg_view_beq (snd p) (view_of g)
  | None => false
  end && Nat.eqb np (np_global g) && Nat.eqb py (py_global g).

Definition result_id (O : oracles) (f : res_fc O -> nat) (g : res_ge O -> nat) (h : res_fi O -> nat) (r : result O) : nat :=
  match r with RFind _ x => f x | RGen _ x => g x | RBasis _ x => h x end.

Fixpoint walk (views : list (nat * reg_view)) (fresh : list evt) (gi : ginfo) (g : gstate) (evs : list evt) : bool :=
  let O := O_of fresh gi in
  match evs with
  | [] => true
  | (kind, a, seed, before, after, rid) :: r =>
      let '(_, npb, pyb) := before in
      (* between two calls the environment may do anything to the two global generators *)
      let g1 := estep O g (Perturb npb pyb) in
      obs_matches views before g1 &&
      match kind with
      | 0 | 1 | 2 | 5 =>
          let c : call O :=
            match kind with
            | 0 => FindCuts O a (match seed with Some z => Seeded z | None => Unseeded None end)
            | 1 => GenExact O (fst (fst a))
            | 5 => Gen O (fst (fst a)) (ns_of gi (fst (fst a)))   (* the model must find it certainly all-exact / refused *)
            | _ => FromInstruction O (fst (fst a))
            end in
          let gr := step O g1 c in
          obs_matches views after (fst gr) &&
          (match kind, seed with
           | 0, None => true                               (* unseeded find_cuts: no prediction about the result *)
           | _, _ => Nat.eqb (result_id O (fun x => x) (fun x => x) (fun x => x) (snd gr)) rid
           end) &&
          walk views fresh gi (fst gr) r
      | 4 =>
          (* finite num_samples: the model lets numpy's global state move (np_advance is an oracle) and nothing else *)
          let '(_, npa, _) := after in
          let g2 := estep O g1 (Perturb npa (py_global g1)) in
          (* if numpy's state moved, the model must not have classified the call as certainly all-exact *)
          (Nat.eqb npa (np_global g1) || reaches_sampler O (fst (fst a)) (ns_of gi (fst (fst a)))) &&
          obs_matches views after g2 && walk views fresh gi g2 r
      | _ => false
      end
  end.

Definition chk_history (c : hcase) : bool :=
  let '(views, fresh, evs, gi) := c in
  match import_actions with
  | Ok an =>
      let g0 := fresh_process an import_basis 0 0 in
      walk views fresh gi g0 evs && forallb (fun e => walk views fresh gi g0 [e]) fresh
  | _ => false
  end.

(* ---------- generate_qpd_weights: which branch, and does numpy's global state move ---------- *)
Definition O_w (coeffs : list (list Q)) : oracles :=
  mkO nat unit nat nat nat nat nat (fun z => Z.to_nat z) (fun _ => true) (fun _ => true) (fun _ _ _ a t => a + t)
      (fun _ => coeffs) (fun _ _ => true) (fun s _ _ => S s) (fun _ _ _ => 0) (fun _ _ _ s => s) (fun _ a => a).

(* (coefficient lists, num_samples | None = inf, numpy state moved, branch: 0 "All exact weights", 1 below it, 2 ValueError) *)
Definition chk_weights (c : list (list Q) * option Q * bool * nat) : bool :=
  let '(coeffs, ns, moved, branch) := c in
  let nsv := match ns with None => NInf | Some n => NFin n end in
  let d := reaches_sampler (O_w coeffs) tt nsv in
  let certainly_below :=
    match prod_min_nonzero coeffs with
    | Some p => ns_valid nsv && negb (Qle_bool (threshold nsv) (p * (1 + float_margin))%Q)
    | None => false
    end in
  (* model certain of "no sampling" (all-exact / refused) => nothing moved and the tail was not entered *)
  (if d then true else negb moved && negb (Nat.eqb branch 1)) &&
  (* threshold certainly above the smallest probability => the all-exact branch was not taken *)
  (if certainly_below then Nat.eqb branch 1 else true) &&
  (* num_samples < 1 <=> ValueError before anything else; no non-zero probability => ValueError too *)
  (if negb (ns_valid nsv) then Nat.eqb branch 2 else true) &&
  (match prod_min_nonzero coeffs with None => Nat.eqb branch 2 | Some _ => true end).

(* ---------- ActionNames.copy on the real registry ---------- *)
Definition chk_copy (c : option (bool * bool) * option (list gname) * option (list gname) * res an_v) : bool :=
  let '(settings, g1, g2, e) := c in
  match import_actions with
  | Ok an =>
      (match settings with
       | Some (gl, wl) => option_beq (list_beq gname_eqb) g1 (Some (cut_search_groups gl wl))
       | None => true
       end) &&
      res_beq an_v_beq (res_map an_view (res_bind (an_copy an g1) (fun c1 => an_copy c1 g2))) e
  | _ => false
  end.

(* ---------- define_action sequences ---------- *)
Definition chk_define (c : list (gname * list gname) * res an_v) : bool :=
  let '(acts, e) := c in
  res_beq an_v_beq (res_map an_view (define_all (Ok an_empty) (map (fun p => mkA (fst p) (snd p)) acts))) e.

(* ---------- get_group("TwoQubitGates") on a filtered copy (Model/ProcessCF.v) ---------- *)
From CKT Require Model.CutFinder.
From CKT Require Import Model.ProcessCF.

Definition akind_code (k : CutFinderState.akind) : nat :=
  match k with CutFinderState.KApply => 0 | CutFinderState.KGate => 1 | CutFinderState.KLeft => 2
             | CutFinderState.KRight => 3 | CutFinderState.KBoth => 4 end.
Definition akinds_beq (a b : list CutFinderState.akind) : bool := list_beq Nat.eqb (map akind_code a) (map akind_code b).

(* (option settings | None, groups passed to copy, names of the real group | None when the group is absent) *)
Definition chk_group (c : option (bool * bool) * option (list gname) * option (list gname)) : bool :=
  let '(settings, groups, names) := c in
  (match settings with
   | Some (gl, wl) => option_beq (list_beq gname_eqb) groups (Some (cut_search_groups gl wl))
   | None => true
   end) &&
  match an_copy import_registry groups with
  | Ok cp =>
      match two_qubit_group cp, names with
      | Some None, None => true
      | Some (Some acts), Some ns =>
          match akinds_of ns with Some e => akinds_beq acts e | None => false end &&
          (match settings with
           | Some (gl, wl) => akinds_beq acts (CutFinderState.search_actions gl wl)     (* = the list C07's model hard-codes *)
           | None => true
           end)
      | _, _ => false
      end
  | _ => false
  end.

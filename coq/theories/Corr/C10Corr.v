(* Corr/C10Corr.v — case checkers for the C10 correspondence (model vs implementation).
   Depends on the models only. *)
From CKT Require Import Common.Base Common.Circ Model.Observables Model.Separate Model.Partition.

Definition P := mkP.
Definition plist_beq := list_beq pauli_beq.
Definition nlist_beq := list_beq Nat.eqb.
Definition labels_beq := list_beq label_beq.
Definition qmap_beq : qmap -> qmap -> bool := list_beq (option_beq (pair_beq Nat.eqb Nat.eqb)).
Definition groups_beq : list (nat * list nat) -> list (nat * list nat) -> bool :=
  list_beq (pair_beq Nat.eqb nlist_beq).

Definition subcirc_beq (a b : subcirc) : bool :=
  Nat.eqb (fst (fst a)) (fst (fst b)) && Nat.eqb (snd (fst a)) (snd (fst b)) && circ_beq (snd a) (snd b).

(* equality of circuits up to reordering of instructions that share no qubit: equal per-qubit
   instruction sequences (every instruction acts on at least one qubit) *)
Definition wire_seq (q : nat) (c : circ) : circ := filter (fun i => memb q (iqs i)) c.
Definition trace_beq (nq : nat) (a b : circ) : bool :=
  Nat.eqb (length a) (length b) &&
  forallb (fun i => negb (Nat.eqb (length (iqs i)) 0)) (a ++ b) &&
  forallb (fun q => circ_beq (wire_seq q a) (wire_seq q b)) (seq 0 nq).
Definition subcirc_teq (a b : subcirc) : bool :=
  Nat.eqb (fst (fst a)) (fst (fst b)) && Nat.eqb (snd (fst a)) (snd (fst b)) &&
  trace_beq (snd (fst a)) (snd a) (snd b).

(* ---- _split_barriers : (circuit, expected) ---- *)
Definition chk_split (c : circ * res circ) : bool :=
  let '(c0, e) := c in res_beq circ_beq (split_barriers_res c0) e.

(* ---- _combine_barriers : (circuit, expected) ---- *)
Definition chk_combine (c : circ * res circ) : bool :=
  let '(c0, e) := c in res_beq circ_beq (Ok (combine_barriers c0)) e.

(* ---- _partition_labels_from_circuit : (n, circuit, ignore TwoQubitQPDGate?, keep_idle_wires, expected) ---- *)
Definition chk_labels (c : nat * circ * bool * bool * res (list label)) : bool :=
  let '(n, c0, ign, keep, e) := c in
  res_beq labels_beq (Ok (auto_labels n (if ign then is_qpd2 else fun _ => false) keep c0)) e.

(* ---- _qubit_map_from_partition_labels : (labels, expected qubit_map, expected qubits_by_subsystem) ---- *)
Definition chk_qmap (c : list label * res (qmap * list (nat * list nat))) : bool :=
  let '(ls, e) := c in
  res_beq (pair_beq qmap_beq groups_beq) (Ok (qubit_map_from_labels ls)) e.

(* ---- separate_circuit : (n, cregs, circuit, labels, expected) ---- *)
Definition sep_beq (a b : list subcirc * qmap) : bool :=
  list_beq subcirc_beq (fst a) (fst b) && qmap_beq (snd a) (snd b).
Definition chk_separate (c : nat * list (list nat) * circ * option (list label) * res (list subcirc * qmap)) : bool :=
  let '(n, cregs, c0, ls, e) := c in res_beq sep_beq (separate_circuit n cregs c0 ls) e.

(* ---- oracle tables ---- *)
Definition otables := (list (nat * (nat * qlabel)) * option (nat * qlabel) * list (qlabel * nat))%type.

Definition basis_of_tbl (t : otables) (o : op) : option (nat * qlabel) :=
  match o with
  | Gate g => option_map snd (List.find (fun p => Nat.eqb (fst p) g) (fst (fst t)))
  | Move => snd (fst t)
  | _ => None
  end.
Definition relabel_tbl (t : otables) (l : qlabel) : nat :=
  match List.find (fun p => qlabel_beq (fst p) l) (snd t) with Some p => snd p | None => 0 end.

(* ---- partition_circuit_qubits : (tables, n, circuit, labels, expected) ---- *)
Definition chk_pcq (c : otables * nat * circ * list label * res circ) : bool :=
  let '(t, n, c0, ls, e) := c in
  res_beq circ_beq (partition_circuit_qubits (basis_of_tbl t) n c0 ls) e.

(* ---- cut_gates : (tables, #clbits, #cregs, circuit, gate ids, expected (circuit, bases)) ---- *)
Definition chk_cut (c : otables * nat * nat * circ * list nat * res (circ * list nat)) : bool :=
  let '(t, ncl, ncr, c0, ids, e) := c in
  res_beq (pair_beq circ_beq nlist_beq) (cut_gates (basis_of_tbl t) ncl ncr c0 ids) e.

(* ---- partition_problem : (tables, n, #clbits, #cregs, circuit, labels, observables, expected)
   subcircuits are compared up to reordering of independent instructions (decompose() goes through a DAG) ---- *)
Definition subobs_beq : list (nat * list pauli) -> list (nat * list pauli) -> bool :=
  list_beq (pair_beq Nat.eqb plist_beq).
Definition problem_beq (a b : problem) : bool :=
  list_beq subcirc_teq (fst (fst a)) (fst (fst b)) &&
  nlist_beq (snd (fst a)) (snd (fst b)) &&
  option_beq subobs_beq (snd a) (snd b).
Definition chk_problem
  (c : otables * nat * nat * nat * circ * option (list label) * option (list pauli) * res problem) : bool :=
  let '(t, n, ncl, ncr, c0, ls, obs, e) := c in
  res_beq problem_beq
    (partition_problem (basis_of_tbl t) (relabel_tbl t) (expand_qpd2) n ncl ncr c0 ls obs) e.

(* Corr/C18Corr.v — case checkers for the C18 correspondence (validation model vs implementation).
   Every case literal carries the INPUT ABSTRACTION, the OBSERVED outcome (Ok tt = returned a value,
   Refused = ValueError, Crashed = other exception) and args_unchanged (deep snapshots of every
   argument before/after the call were equal).  A checker demands
     (1) model outcome = observed outcome,
     (2) if the model refuses, the arguments are unchanged,
     (3) for the three mutating entry points called with inplace=True: the observed state of the
         argument equals the model's *_final state.
   chk_*_current compare with the UNREPAIRED loops instead; the harness routes the inplace=True
   cases there only when KNOWN_FINDINGS.json lists the finding (F7/F12/F13) as known. *)
From Coq Require Import QArith.
From CKT Require Import Common.Base Model.Validation.
Close Scope Q_scope.

Definition outcome_beq (a b : outcome) : bool := res_beq (fun _ _ => true) a b.
Definition frame_ok (model : outcome) (unchanged : bool) : bool :=
  match model with Refused => unchanged | _ => true end.
Definition chk (model observed : outcome) (unchanged : bool) : bool :=
  outcome_beq model observed && frame_ok model unchanged.

Definition G (r p b g m : bool) := mkGD r p b g m.
Definition bools_beq := list_beq Bool.eqb.

Definition chk_weights (c : budget * outcome * bool) : bool :=
  let '(b, o, u) := c in chk (api_generate_qpd_weights b) o u.
Definition chk_device (c : budget * outcome * bool) : bool :=
  let '(b, o, u) := c in chk (api_device_constraints b) o u.
Definition chk_settings (c : budget * option budget * outcome * bool) : bool :=
  let '(g, bj, o, u) := c in chk (api_opt_settings g bj) o u.
Definition chk_from_instruction (c : gate_desc * outcome * bool) : bool :=
  let '(d, o, u) := c in chk (api_from_instruction d) o u.
Definition chk_theta (c : bool * outcome * bool) : bool :=
  let '(b, o, u) := c in chk (api_theta b) o u.

(* (input, inplace, observed, unchanged, observed TwoQubitQPDGate positions of the argument afterwards) *)
Definition chk_pcq (c : pcq_in * bool * outcome * bool * list bool) : bool :=
  let '(i, inplace, o, u, fin) := c in
  chk (api_pcq i) o u &&
  bools_beq fin (if inplace then pcq_final i else map is_qpd2 (pq_insts i)).
Definition chk_pcq_current (c : pcq_in * bool * outcome * bool * list bool) : bool :=
  let '(i, inplace, o, u, fin) := c in
  outcome_beq (fst (pcq_run_interleaved i)) o &&
  bools_beq fin (if inplace then snd (pcq_run_interleaved i) else map is_qpd2 (pq_insts i)).

(* (input, inplace, observed, unchanged, positions of the argument that were replaced) *)
Definition chk_cut_gates (c : cg_in * bool * outcome * bool * list bool) : bool :=
  let '(i, inplace, o, u, fin) := c in
  chk (api_cut_gates i) o u &&
  bools_beq fin (if inplace then cg_final i else repeat false (length (cg_ops i))).
Definition chk_cut_gates_current (c : cg_in * bool * outcome * bool * list bool) : bool :=
  let '(i, inplace, o, u, fin) := c in
  outcome_beq (fst (cg_run_interleaved i)) o &&
  bools_beq fin (if inplace then snd (cg_run_interleaved i) else repeat false (length (cg_ops i))).

(* also checks the well-formedness hypothesis pp_wf of c18_skel_partition_problem on every case *)
Definition chk_partition_problem (c : pp_in * outcome * bool) : bool :=
  let '(i, o, u) := c in
  chk (api_partition_problem i) o u &&
  match pp_obs i with Some ob => length (pp_support i) =? length ob | None => true end.
Definition chk_find_cuts (c : fc_in * outcome * bool) : bool :=
  let '(i, o, u) := c in chk (api_find_cuts i) o u.
Definition chk_generate (c : gen_in * outcome * bool) : bool :=
  let '(i, o, u) := c in chk (api_generate i) o u.
Definition chk_reconstruct (c : rec_in * outcome * bool) : bool :=
  let '(i, o, u) := c in chk (api_reconstruct i) o u.

Definition chk_qpdbasis (c : list nat * nat * outcome * bool) : bool :=
  let '(ar, nco, o, u) := c in chk (api_qpdbasis ar nco) o u.
Definition chk_set_coeffs (c : nat * nat * outcome * bool) : bool :=
  let '(nm, nco, o, u) := c in chk (api_set_coeffs nm nco) o u.
Definition chk_set_basis_id (c : nat * option Z * outcome * bool) : bool :=
  let '(nm, bid, o, u) := c in chk (api_set_basis_id nm bid) o u.
Definition chk_q1gate (c : nat * nat * Z * option Z * outcome * bool) : bool :=
  let '(nq, nm, qid, bid, o, u) := c in chk (api_q1gate nq nm qid bid) o u.
Definition chk_q2gate (c : nat * nat * option Z * outcome * bool) : bool :=
  let '(nq, nm, bid, o, u) := c in chk (api_q2gate nq nm bid) o u.

(* decompose_qpd_instructions: (input, inplace, observed, unchanged, observed basis_id of every
   instruction of the argument afterwards — compared only when the model does not proceed) *)
Definition dq_bid (x : dq_inst) : option nat := match x with DQ _ _ b => b | DOther => None end.
Definition bids_beq := list_beq (option_beq Nat.eqb).
Definition chk_dq (c : dq_in * bool * outcome * bool * list (option nat)) : bool :=
  let '(i, inplace, o, u, bids) := c in
  chk (api_decompose i) o u &&
  (if is_ok (api_decompose i) then true
   else bids_beq bids (map dq_bid (if inplace then dq_final i else dq_circ i))).
Definition chk_dq_current (c : dq_in * bool * outcome * bool * list (option nat)) : bool :=
  let '(i, inplace, o, u, bids) := c in
  let r := dq_run_interleaved i in
  outcome_beq (fst r) o &&
  (if is_ok (fst r) then true
   else bids_beq bids (map dq_bid (if inplace then snd r else dq_circ i))).

Definition chk_separate (c : sep_in * outcome * bool) : bool :=
  let '(i, o, u) := c in chk (api_separate i) o u.
Definition chk_expand (c : nat * list nat * list nat * outcome * bool) : bool :=
  let '(n, oq, fq, o, u) := c in chk (api_expand n oq fq) o u.
Definition chk_simulate (c : list sim_inst * outcome * bool) : bool :=
  let '(l, o, u) := c in chk (api_simulate l) o u.
Definition chk_mgo (c : list (option (list nat)) * option nat * outcome * bool) : bool :=
  let '(l, n, o, u) := c in chk (api_mgo l n) o u.
Definition chk_cog (c : list nat * outcome * bool) : bool :=
  let '(l, o, u) := c in chk (api_cog l) o u.

(* Corr/C12Corr.v — case checkers for the C12 correspondence (model vs implementation).
   Depends on the model only. *)
From Coq Require Import QArith.
From CKT Require Import Common.Base Common.Circ Common.QSim Model.ResetPasses Model.ResetSim.
Close Scope Q_scope.

(* compact instruction literals used by harness/c12.py *)
Definition R (q : nat) : instr := mkI Reset [q] [].
Definition M (q k : nat) : instr := mkI Measure [q] [k].
Definition B (qs : list nat) : instr := mkI (Barrier None) qs [].
Definition G (g : nat) (qs : list nat) : instr := mkI (Gate g) qs [].

(* what the harness writes as the "output" of a call that raised: never equal to a model output
   (no generated input contains a CutWire marker) *)
Definition CRASHED : instr := mkI CutWire [] [].

(* exact comparison of instruction lists (the three list passes mutate circuit.data in place) *)
Definition chk_list (f : nat -> circ -> circ) (nq : nat) (c e : circ) : bool := circ_beq (f nq c) e.

(* per-wire comparison (the transpiler passes go circuit -> DAG -> circuit, which may permute
   independent instructions): same number of instructions, every qubit's and every clbit's
   instruction sequence identical, instructions without any bit identical *)
Definition no_bits (x : instr) : bool :=
  match iqs x, ics x with [], [] => true | _, _ => false end.

Definition wire_eq (nq nc : nat) (a b : circ) : bool :=
  Nat.eqb (length a) (length b) &&
  forallb (fun q => circ_beq (proj_q q a) (proj_q q b)) (seq 0 nq) &&
  forallb (fun k => circ_beq (proj_c k a) (proj_c k b)) (seq 0 nc) &&
  circ_beq (filter no_bits a) (filter no_bits b).

(* one check per pass: (nq, nc, input, implementation output) *)
Definition pcase := (nat * nat * circ * circ)%type.

Definition chk_consolidate (k : pcase) : bool :=
  let '(nq, nc, c, e) := k in circ_beq (consolidate_resets nq c) e.
Definition chk_zero (k : pcase) : bool :=
  let '(nq, nc, c, e) := k in circ_beq (remove_resets_in_zero_state nq c) e.
Definition chk_final (k : pcase) : bool :=
  let '(nq, nc, c, e) := k in circ_beq (remove_final_resets nq c) e.
Definition chk_pipeline (k : pcase) : bool :=
  let '(nq, nc, c, e) := k in circ_beq (optimise_resets nq c) e.
Definition chk_dag_rfr (k : pcase) : bool :=
  let '(nq, nc, c, e) := k in wire_eq nq nc (dag_remove_final_reset nq c) e.
Definition chk_dag_rfr_fix (k : pcase) : bool :=
  let '(nq, nc, c, e) := k in wire_eq nq nc (dag_remove_final_reset_fix nq c) e.
Definition chk_dag_consolidate (k : pcase) : bool :=
  let '(nq, nc, c, e) := k in wire_eq nq nc (dag_consolidate_resets c) e.

(* a list pass applied twice to the same circuit object *)
Definition chk_twice_consolidate (k : pcase) : bool :=
  let '(nq, nc, c, e) := k in circ_beq (consolidate_resets nq (consolidate_resets nq c)) e.
Definition chk_twice_zero (k : pcase) : bool :=
  let '(nq, nc, c, e) := k in circ_beq (remove_resets_in_zero_state nq (remove_resets_in_zero_state nq c)) e.
Definition chk_twice_final (k : pcase) : bool :=
  let '(nq, nc, c, e) := k in circ_beq (remove_final_resets nq (remove_final_resets nq c)) e.

(* a whole subexperiment of generate_cutting_experiments:
   (nq, placeholder?, subexperiment with the reset passes disabled, subexperiment as generated) *)
Definition chk_e2e (k : nat * bool * circ * circ) : bool :=
  let '(nq, ph, c, e) := k in circ_beq (subexperiment_resets nq ph c) e.

(* all passes on one program (bounded-exhaustive stream):
   (nq, nc, input, [consolidate; zero; final; pipeline; dag_rfr; dag_rfr_fix; dag_consolidate]) *)
Definition chk_all (k : nat * nat * circ * list circ) : bool :=
  let '(nq, nc, c, es) := k in
  match es with
  | [e1; e2; e3; e4; e5; e6; e7] =>
      chk_consolidate (nq, nc, c, e1) && chk_zero (nq, nc, c, e2) && chk_final (nq, nc, c, e3) &&
      chk_pipeline (nq, nc, c, e4) &&
      chk_dag_rfr (nq, nc, c, e5) && chk_dag_rfr_fix (nq, nc, c, e6) && chk_dag_consolidate (nq, nc, c, e7)
  | _ => false
  end.

(* ---- the concrete semantics of Model/ResetSim.v against the harness's independent numpy simulator ----
   (nq, nc, gate table [(gate id, QSim gate code)], circuit, expected law [(register, probability)], outcomes of
   probability 0 omitted).  All gates of the case are in the QSim gate set, all probabilities dyadic. *)
Definition qgate_of_code (k : nat) : option qgate :=
  match k with
  | 0 => Some Gx | 1 => Some Gy | 2 => Some Gz | 3 => Some Gh | 4 => Some Gs | 5 => Some Gsdg
  | 6 => Some Gsx | 7 => Some Gsxdg | 8 => Some Gcx | 9 => Some Gcz | 10 => Some Gswap | 11 => Some Gccx
  | _ => None
  end.
Definition gi_of (tab : list (nat * nat)) (g : nat) : option qgate :=
  match find (fun p => Nat.eqb (fst p) g) tab with Some p => qgate_of_code (snd p) | None => None end.

Definition reg_beq := list_beq Bool.eqb.
Definition law_at (l : list (list bool * vec)) (k : list bool) : q2 :=
  q2sum (map (fun b => if reg_beq (fst b) k then norm2 (snd b) else q2zero) l).

Definition chk_sim (c : nat * nat * list (nat * nat) * circ * list (list bool * Q)) : bool :=
  let '(nq, nc, tab, p, e) := c in
  let l := qbrun (gi_of tab) nq nc p in
  forallb (fun kp => Qeq_bool (fst (law_at l (fst kp))) (snd kp) && Qeq_bool (snd (law_at l (fst kp))) 0%Q) e &&
  forallb (fun b => existsb (fun kp => reg_beq (fst b) (fst kp)) e) l &&
  (* and the theorems' two passes leave the concrete branch list unchanged on this very input *)
  list_beq (pair_beq reg_beq (list_beq (fun a b : amp => amp_is_azero (aadd a (aneg b)))))
           (qbrun (gi_of tab) nq nc (consolidate_resets nq p)) l &&
  list_beq (pair_beq reg_beq (list_beq (fun a b : amp => amp_is_azero (aadd a (aneg b)))))
           (qbrun (gi_of tab) nq nc (remove_resets_in_zero_state nq p)) l.

(* Corr/C08Corr.v — case checker for the C08 correspondence: Model/CutFinder.v vs
   qiskit_addon_cutting.find_cuts, STRICT on metadata['minimum_reached'] and metadata['sampling_overhead'].
   One case = one find_cuts request run under several seeds (each with its recorded random tape). *)
From Coq Require Import QArith Qabs.
From CKT Require Import Model.CutFinder Model.CutFinderTable.
Close Scope Q_scope.

(* a recorded numpy double in [0,1): k / 2^53 *)
Definition T (k : Z) : Q := Qmake k 9007199254740992.
Definition tape_of (l : list Q) : nat -> Q := fun k => nth k l 0%Q.

Record run8 := mkRun {
  r_tape : nat -> Q ;                 (* numbers drawn by the queue's Generator under this seed *)
  r_fuel : nat ;
  r_expect : res (Q * bool)           (* (sampling_overhead, minimum_reached) | ValueError | other exception *)
}.

Record case8 := mkC8 {
  k_nq : nat ;
  k_circ : circ ;
  k_gtab : gtab ;
  k_W : nat ;
  k_gate_lo : bool ;
  k_wire_lo : bool ;
  k_max_gamma : Q ;
  k_max_backjumps : option Z ;
  k_runs : list run8 ;
  k_check_model : bool ;     (* false: the search visited more states than the model-evaluation budget of the harness; the runs are
                                then NOT compared with the model (their tapes are not even recorded in the literal), only judged by
                                the oracle (k_oracle) *)
  k_oracle : bool            (* harness: the independent brute-force oracle (harness/c08.py: judge) ACCEPTS the recorded
                                outputs.  false makes the case count as a disagreement, so that run.py judges and reports it
                                even when model and implementation agree with each other. *)
}.

Definition input_of (k : case8) (tape : nat -> Q) : fc_input :=
  mkIn (k_nq k) 0 (k_circ k) (k_gtab k) (k_W k) (k_gate_lo k) (k_wire_lo k) (k_max_gamma k) (k_max_backjumps k) tape.

(* overhead = gamma_UB ** 2 in binary64: exact while gamma_UB < 2^26, one rounding (relative 2^-53) beyond *)
Definition overhead_ok (model impl : Q) : bool :=
  Qeqb model impl ||
  (Qltb (inject_Z (2 ^ 52)) model &&
   Qleb (Qmult (Qabs (Qminus model impl)) (inject_Z (2 ^ 50))) model).

(* the two compared observables of one run: [overhead equal ; flag equal] (None: outcome classes differ) *)
Definition cmp_run (k : case8) (r : run8) : option (list bool) :=
  match find_cuts_full (r_fuel r) (input_of k (r_tape r)), r_expect r with
  | Val x, Ok (ov, fl) =>
      Some [ overhead_ok (md_overhead (fr_meta x)) ov ; Bool.eqb (md_minimum_reached (fr_meta x)) fl ]
  | Ref, Refused => Some []
  | Crash, Crashed => Some []
  | _, _ => None
  end.

Definition chk_run (k : case8) (r : run8) : bool :=
  match cmp_run k r with Some l => forallb (fun b => b) l | None => false end.

(* gtab_ge1: the hypothesis "every kappa of the gate table is >= 1" of the C08 theorems, evaluated on every case *)
Definition chk_c08 (k : case8) : bool :=
  (if k_check_model k then forallb (chk_run k) (k_runs k) else true) && k_oracle k && gtab_ge1 (k_gtab k).

(* diagnosis helper: what the model computes for every run *)
Definition model_runs (k : case8) : list (option (Q * bool)) :=
  map (fun r => match find_cuts_full (r_fuel r) (input_of k (r_tape r)) with
                | Val x => Some (md_overhead (fr_meta x), md_minimum_reached (fr_meta x))
                | _ => None end) (k_runs k).

(* Corr/C15Corr.v — case checkers for the C15 correspondence (model vs implementation).
   Depends on Model only.  Implementation floats arrive as the exact rationals of their
   binary64 values; comparisons are made in Q. *)
From Coq Require Import String QArith Qabs.
From CKT Require Import Common.Base Extracted.Facts Model.Kappa Model.KappaGates.
Close Scope Q_scope.
Local Open Scope string_scope.

(* a binary64 value m * 2^e (the harness writes floats this way: short literals) *)
Definition fl (m e : Z) : Q :=
  match e with
  | Z0 => m # 1
  | Zpos p => (m * 2 ^ Zpos p)%Z # 1
  | Zneg p => m # (2 ^ p)%positive
  end.

Definition tol12 : Q := 1 # 1000000000000.
Definition tol11 : Q := 1 # 100000000000.
Definition tol9 : Q := 1 # 1000000000.
Definition ulp53 : Q := 1 # 9007199254740992.   (* 2^-53: correctly rounded quotient in [0,1] *)

Definition close (tol a b : Q) : bool := Qle_bool (Qabs (a - b)) tol.

Fixpoint close_list (tol : Q) (l1 l2 : list Q) : bool :=
  match l1, l2 with
  | [], [] => true
  | x :: xs, y :: ys => close tol x y && close_list tol xs ys
  | _, _ => false
  end.

Definition close_pairs (tol : Q) (l1 l2 : list (Q * Q)) : bool :=
  close_list tol (map fst l1) (map fst l2) && close_list tol (map snd l1) (map snd l2).

Definition qeq_opt (a b : option (Q * Q)) : bool :=
  match a, b with
  | None, None => true
  | Some (p, q), Some (p', q') => Qeq_bool p p' && Qeq_bool q q'
  | _, _ => false
  end.

(* observations of a basis: coeffs, kappa, probabilities, overhead *)
Definition obs := (list Q * Q * list Q * Q)%type.

Definition obs_close (tc tk : Q) (model_coeffs : list Q) (o : obs) : bool :=
  let '(co, ka, pr, ov) := o in
  close_list tc model_coeffs co &&
  close tk (kappaQ model_coeffs) ka &&
  close_list tc (probsQ model_coeffs) pr &&
  close tk (overheadQ model_coeffs) ov.

(* registered names.  (name, claimed affine map theta -> theta_prime, cos theta_prime, sin theta_prime,
   implementation observations).  The harness derives theta from theta_prime with the claimed map;
   the checker confirms the claim against the model. *)
Definition chk_named (c : string * option (Q * Q) * Q * Q * obs) : bool :=
  let '(name, aff, co, si, o) := c in
  qeq_opt aff (theta_affine name) &&
  match coeffsQ name co si with
  | Some l => obs_close tol12 tol11 l o
  | None => false
  end.

(* KAK path.  (Weyl coordinates, eigenvalue angles as computed by the harness from them,
   (cos, sin) of these angles, u returned by _u_from_thetavec, observations) *)
Definition eigvalQ (abc : list Q) (row : list Z) : Q :=
  (inject_Z (nth 0 row 0%Z) * nth 0 abc 0 + inject_Z (nth 1 row 0%Z) * nth 1 abc 0
   + inject_Z (nth 2 row 0%Z) * nth 2 abc 0)%Q.

Definition chk_kak (c : list Q * list Q * list (Q * Q) * list (Q * Q) * obs) : bool :=
  let '(abc, lams, cs, u_impl, o) := c in
  Nat.eqb (length abc) 3 && Nat.eqb (length cs) 4 && Nat.eqb (length u_impl) 4 &&
  close_list tol12 (map (eigvalQ abc) c15_eigvals) lams &&
  close_pairs tol12 (u_from_csQ cs) u_impl &&
  obs_close tol12 tol11 (nonlocal_coeffsQ u_impl) o.

(* documented closed forms of the gates that go through the KAK path (theorem c15_kak_doc_angles),
   against the implementation's kappa.  kind 0: RZX, s = sin theta;  kind 1: XX+YY / XX-YY, s = sin(theta/2) *)
Definition chk_kak_family (c : nat * Q * Q) : bool :=
  let '(kind, s, kappa_impl) := c in
  match kind with
  | 0 => close tol9 (1 + 2 * Qabs s)%Q kappa_impl
  | 1 => close tol9 (1 + 4 * Qabs s + 2 * (s * s))%Q kappa_impl
  | _ => false
  end.

(* a registered gate conjugated by random local unitaries and sent through the KAK path:
   kappa must be the family's.  (name, cos theta_prime, sin theta_prime, kappa of the conjugated gate) *)
Definition chk_conj (c : string * Q * Q * Q) : bool :=
  let '(name, co, si, kappa_impl) := c in
  match coeffsQ name co si with
  | Some l => close tol9 (kappaQ l) kappa_impl
  | None => false
  end.

(* QPDBasis(maps, coeffs) followed by reassignments.  (arities of the map tuples, constructor
   coefficients, later assignments, per step: (raised ValueError?, observations afterwards)) *)
Definition obs_exact (p : bphase) (o : option obs) : bool :=
  match get_coeffs p, get_kappa p, get_probs p, get_overhead p, o with
  | Some co, Some ka, Some pr, Some ov, Some (co', ka', pr', ov') =>
    list_beq Qeq_bool co co' && Qeq_bool ka ka' && close_list ulp53 pr pr' && Qeq_bool ov ov'
  | None, None, None, None, None => true
  | _, _, _, _, _ => false
  end.

Fixpoint chk_steps (p : bphase) (ops : list (list Q)) (os : list (bool * option obs)) : bool :=
  match ops, os with
  | [], [] => true
  | c :: ops', (refused, o) :: os' =>
    match set_coeffs p c with
    | Ok p' => negb refused && obs_exact p' o && chk_steps p' ops' os'
    | Refused => refused && obs_exact p o && chk_steps p ops' os'
    | Crashed => false
    end
  | _, _ => false
  end.

Definition chk_basis (c : list nat * list Q * list (list Q) * list (bool * option obs)) : bool :=
  let '(arities, c0, ops, os) := c in
  match new_basis arities c0, os with
  | Ok p, (false, o) :: os' => obs_exact p o && chk_steps p ops os'
  | Refused, [(true, None)] => true
  | _, _ => false
  end.

(* the hand-written gate matrices of Model/KappaGates.v against Gate.to_matrix():
   (kind 0 rzx / 1 xx_plus_yy / 2 xx_minus_yy, cos(theta/2), sin(theta/2), cos beta, sin beta, rows of (re, im)) *)
Definition close_rows (l1 l2 : list (list (Q * Q))) : bool :=
  list_beq (fun r1 r2 => close_pairs tol12 r1 r2) l1 l2.

Definition chk_gate_mat (c : nat * Q * Q * Q * Q * list (list (Q * Q))) : bool :=
  let '(kind, co, si, cb, sb, rows) := c in
  match kind with
  | 0 => close_rows (rzx_tableQ co si) rows
  | 1 => close_rows (xxpyy_tableQ co si cb sb) rows
  | 2 => close_rows (xxmyy_tableQ co si cb sb) rows
  | _ => false
  end.

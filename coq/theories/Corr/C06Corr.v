(* Corr/C06Corr.v — case checkers for the C06 correspondence (model vs implementation).
   Depends on the model only.  The int(s, 0) oracle is instantiated by pyint0_ref; the stream
   `pyint0` compares that instance with Python's int(s, 0) itself. *)
From Coq Require Import QArith Qabs Ascii String.
From CKT Require Import Common.Base Model.Observables Model.Grouping Model.Reconstruct Model.ReconstructGrouping.
Close Scope Q_scope.
Open Scope nat_scope.

Definition Qlist_beq := list_beq Qeq_bool.
Definition optN_beq := option_beq N.eqb.
Definition Zlist_beq := list_beq Z.eqb.

(* short constructors for the generated literals *)
Definition KI := KInt.
Definition KS := KStr.
Definition P := mkPart.

(* reconstruct_expectation_values: (results, coefficients, observables, expected) *)
Definition chk_reconstruct (c : robj * list Q * oobj * res (list Q)) : bool :=
  let '(r, coeffs, o, e) := c in res_beq Qlist_beq (reconstruct pyint0_ref r coeffs o) e.

(* _outcome_to_int: (key, expected; None = ValueError) *)
Definition chk_outcome_to_int (c : key * option N) : bool :=
  let '(k, e) := c in optN_beq (outcome_to_int pyint0_ref k) e.

(* int(s, 0) itself against the reference oracle instance *)
Definition chk_pyint0 (c : string * option N) : bool :=
  let '(s, e) := c in optN_beq (pyint0_ref (list_ascii_of_string s)) e.

(* _process_outcome: (len(pauli_indices), bitmasks, key, expected vector) *)
Definition chk_process_outcome (c : nat * list N * key * res (list Z)) : bool :=
  let '(np, masks, k, e) := c in res_beq Zlist_beq (process_outcome pyint0_ref (np, masks) k) e.

(* _process_outcome_v2: (bitmasks, obs, qpd, expected vector) *)
Definition chk_process_outcome_v2 (c : list N * N * N * list Z) : bool :=
  let '(masks, obs, qpd, e) := c in Zlist_beq (process_outcome_v2 masks obs qpd) e.

(* int.from_bytes(row, "big") on BitArray rows: (row, expected) *)
Definition chk_from_bytes (c : list N * N) : bool :=
  let '(row, e) := c in N.eqb (from_bytes_big row) e.

(* partition given by Pauli letters only (group structure from the real ObservableCollection,
   masks and lookup recomputed by the model) *)
Definition PL := part_of_letters.

(* CommutingObservableGroup.__post_init__: (general, members, expected pauli_indices, expected pauli_bitmasks) *)
Definition chk_cog (c : letters * list letters * list nat * list N) : bool :=
  let '(g, ms, ei, em) := c in
  let idx := pauli_indices_of g in
  list_beq Nat.eqb idx ei && list_beq N.eqb (map (bitmask_of idx) ms) em.

(* ObservableCollection.lookup: (groups as letters, sub-observables, expected lookup[subobs[k]] for every k) *)
Definition chk_lookup (c : list lgroup * list letters * list (list (nat * nat))) : bool :=
  let '(gs, subs, e) := c in
  list_beq (list_beq (pair_beq Nat.eqb Nat.eqb)) (map (lookup_of gs) subs) e.

(* reconstruct on data where binary64 arithmetic is NOT exact (shot counts that are not powers of
   two): equal outcome kind, equal length, every entry within 1e-9 *)
Definition close (a b : Q) : bool := Qle_bool (Qabs (a - b)) (Qmake 1 1000000000).
Definition chk_reconstruct_tol (c : robj * list Q * oobj * res (list Q)) : bool :=
  let '(r, coeffs, o, e) := c in res_beq (list_beq close) (reconstruct pyint0_ref r coeffs o) e.

(* ObservableCollection(subobs) through C11's model, then read as reconstruct_expectation_values reads it:
   (sub-observables, oracle unique(), oracle group_commuting(), expected [(len(pauli_indices), pauli_bitmasks)],
    expected [lookup[subobs[k]]]) *)
Definition PP := mkP.
Definition chk_collection_part
  (c : list pauli * list pauli * list (list pauli) * list (nat * list N) * list (list (nat * nat))) : bool :=
  let '(subobs, u, gs, eg, el) := c in
  match part_of_observables 0 subobs (mkOracle u gs) with
  | Ok p => list_beq (pair_beq Nat.eqb (list_beq N.eqb)) (pgroups p) eg
            && list_beq (list_beq (pair_beq Nat.eqb Nat.eqb)) (plookup p) el
            && grouping_contract subobs (mkOracle u gs)
  | _ => false
  end.

(* Corr/C06Corr.v — case checkers for the C06 correspondence (model vs implementation).
   Depends on the model only.  The int(s, 0) oracle is instantiated by pyint0_ref; the stream
   `pyint0` compares that instance with Python's int(s, 0) itself. *)
From Coq Require Import QArith Ascii String.
From CKT Require Import Common.Base Model.Reconstruct.
Close Scope Q_scope.
Open Scope nat_scope.

Definition Qlist_beq := list_beq Qeq_bool.
Definition optN_beq := option_beq N.eqb.
Definition Zlist_beq := list_beq Z.eqb.

(* short constructors for the generated literals *)
Definition KI := KInt.
Definition KS := KStr.
Definition P := mkPart.

(* reconstruct_expectation_values: (results, coefficients, observables, expected) *)
Definition chk_reconstruct (c : robj * list Q * oobj * res (list Q)) : bool :=
  let '(r, coeffs, o, e) := c in res_beq Qlist_beq (reconstruct pyint0_ref r coeffs o) e.

(* _outcome_to_int: (key, expected; None = ValueError) *)
Definition chk_outcome_to_int (c : key * option N) : bool :=
  let '(k, e) := c in optN_beq (outcome_to_int pyint0_ref k) e.

(* int(s, 0) itself against the reference oracle instance *)
Definition chk_pyint0 (c : string * option N) : bool :=
  let '(s, e) := c in optN_beq (pyint0_ref (list_ascii_of_string s)) e.

(* _process_outcome: (len(pauli_indices), bitmasks, key, expected vector) *)
Definition chk_process_outcome (c : nat * list N * key * res (list Z)) : bool :=
  let '(np, masks, k, e) := c in res_beq Zlist_beq (process_outcome pyint0_ref (np, masks) k) e.

(* _process_outcome_v2: (bitmasks, obs, qpd, expected vector) *)
Definition chk_process_outcome_v2 (c : list N * N * N * list Z) : bool :=
  let '(masks, obs, qpd, e) := c in Zlist_beq (process_outcome_v2 masks obs qpd) e.

(* int.from_bytes(row, "big") on BitArray rows: (row, expected) *)
Definition chk_from_bytes (c : list N * N) : bool :=
  let '(row, e) := c in N.eqb (from_bytes_big row) e.

(* Corr/C17Corr.v — case checkers for the C17 correspondence (model vs implementation). *)
From CKT Require Import Common.Base Model.Observables.

Definition P := mkP.
Definition plist_beq := list_beq pauli_beq.

(* restrict: (list[Pauli] path?, num_qubits, qubits, paulis, expected outcome) *)
Definition chk_restrict (c : bool * nat * list nat * list pauli * res (list pauli)) : bool :=
  let '(aslist, n, qs, ps, e) := c in res_beq plist_beq (restrict_seq aslist n qs ps) e.

(* decompose_observables as a public call:
   (list[Pauli] path?, num_qubits, labels, paulis, expected outcome: Ok [(label, paulis)] in dict order) *)
Definition chk_decompose (c : bool * nat * list nat * list pauli * res (list (nat * list pauli))) : bool :=
  let '(aslist, n, labels, ps, e) := c in
  res_beq (list_beq (pair_beq Nat.eqb plist_beq))
    (res_map (map (fun t : nat * list nat * list pauli => (fst (fst t), snd t)))
             (decompose_call aslist n labels ps)) e.

(* expand: (nobs, original qubit ids, final qubit ids, paulis, expected outcome,
            why : None            = the implementation raised a ValueError that is NOT one of the two documented
                                    refusals raised by the package itself (never accepted),
                  Some None       = no refusal,
                  Some (Some r)   = the documented refusal r with the numbers printed in its message) *)
Definition chk_expand
  (c : nat * list nat * list nat * list pauli * res (list pauli) * option (option refusal)) : bool :=
  let '(nobs, oq, fq, ps, e, why) := c in
  res_beq plist_beq (expand nobs oq fq ps) e &&
  option_beq (option_beq refusal_beq) (Some (expand_refusal nobs oq fq)) why.

(* Corr/C17Corr.v — case checkers for the C17 correspondence (model vs implementation). *)
From CKT Require Import Common.Base Model.Observables.

Definition P := mkP.
Definition plist_beq := list_beq pauli_beq.

(* restrict: (n, qubits, paulis, expected) *)
Definition chk_restrict (c : nat * list nat * list pauli * res (list pauli)) : bool :=
  let '(n, qs, ps, e) := c in res_beq plist_beq (restrict n qs ps) e.

(* decompose_observables: (labels, paulis, expected [(label, paulis)] in dict order) *)
Definition chk_decompose (c : list nat * list pauli * list (nat * list pauli)) : bool :=
  let '(labels, ps, e) := c in
  list_beq (pair_beq Nat.eqb plist_beq)
    (map (fun t => (fst (fst t), snd t)) (decompose_observables labels ps)) e.

(* expand: (nobs, original qubit ids, final qubit ids, paulis, expected) *)
Definition chk_expand (c : nat * list nat * list nat * list pauli * res (list pauli)) : bool :=
  let '(nobs, oq, fq, ps, e) := c in res_beq plist_beq (expand nobs oq fq ps) e.

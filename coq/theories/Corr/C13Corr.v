(* Corr/C13Corr.v — case checkers for the C13 correspondence.
   The model (Model/Sim.v) is instantiated with the exact simulator Common/QSim.v and evaluated on the program
   the implementation ran on; results are compared as finite maps: key sets exactly, probabilities within 1e-12. *)
From Coq Require Import QArith Qabs.
From CKT Require Import Common.Base Common.QSim Model.Sim Model.SimTree Extracted.Facts.
Close Scope Q_scope.

Definition eps_model : Q := (1 # 1000000000000)%Q.      (* 1e-12: binary64 result vs exact value *)
Definition eps_oracle : Q := (1 # 1000000000)%Q.        (* 1e-9 : implementation vs density-matrix oracle *)

Definition qclose (eps a b : Q) : bool := Qle_bool (Qabs (a - b)%Q) eps.

Definition dist_close (eps : Q) (a b : list (N * Q)) : bool :=
  list_beq (fun x y => N.eqb (fst x) (fst y) && qclose eps (snd x) (snd y)) a b.

Definition dist_same (a b : list (N * Q)) : bool :=
  list_beq (fun x y => N.eqb (fst x) (fst y) && Qeq_bool (snd x) (snd y)) a b.

(* fail-closed audit of the oracle: on every state that is measured or reset along every path of non-zero
   probability, the probability computed by QSim is an exact rational in [0,1] (no sqrt2-part dropped, no
   clamping), i.e. QSim's p1 is the Born probability of the (unnormalised) vector, and every gate application on such a
   path preserved the squared norm (a necessary condition of unitarity; catches ill-formed operands) *)
Definition q2_eqb (x y : q2) : bool := Qeq_bool (fst x) (fst y) && Qeq_bool (snd x) (snd y).

Fixpoint audit (p : qprog) (s : vec) : bool :=
  match p with
  | [] => true
  | PGate g qs :: r => q2_eqb (norm2 (qapply g qs s)) (norm2 s) && audit r (qapply g qs s)   (* the gate preserved |v|^2 *)
  | PBarrier _ :: r => audit r s
  | PMeasure q _ :: r =>
      qp1_is_exact s q &&
      (if Qeq_bool (qp1 s q) 1 then true else audit r (qproj s q false)) &&
      (if Qeq_bool (qp1 s q) 0 then true else audit r (qproj s q true))
  | PReset q :: r =>
      qp1_is_exact s q &&
      (if Qeq_bool (qp1 s q) 1 then true else audit r (qproj s q false)) &&
      (if Qeq_bool (qp1 s q) 0 then true else audit r (qflipx (qproj s q true) q))
  | PCond :: _ => true
  | PGateWithClbit :: _ => true
  end.

(* finite-map comparison: the order of a returned dict is not part of the contract (the model does mirror it,
   see Properties/C13.v c13_ex_order, and chk_sim_ordered below can be used to look for drift) *)
Definition nodup_keys (a : list (N * Q)) : bool :=
  (fix go (l : list N) : bool :=
     match l with [] => true | k :: r => negb (existsb (N.eqb k) r) && go r end) (map fst a).

Definition keys_incl (a b : list (N * Q)) : bool :=
  forallb (fun k => existsb (N.eqb k) (map fst b)) (map fst a).

Definition map_close (eps : Q) (a b : list (N * Q)) : bool :=
  forallb (fun k => qclose eps (lookup a k) (lookup b k)) (map fst a ++ map fst b).

(* same key set (exactly), no duplicate keys, values within eps *)
Definition map_eqv (eps : Q) (a b : list (N * Q)) : bool :=
  nodup_keys a && nodup_keys b && keys_incl a b && keys_incl b a && map_close eps a b.

(* (nq, ncl, program, simulate_statevector_outcomes result, ExactSampler result, harness density oracle agreed) *)
Definition sim_case := (nat * nat * qprog * res (list (N * Q)) * res (list (N * Q)) * bool)%type.

Definition chk_sim (c : sim_case) : bool :=
  let '(nq, ncl, p, efn, esam, oracle_ok) := c in
  oracle_ok &&
  wf_qprog nq ncl p &&
  audit p (init_vec nq) &&
  res_beq (map_eqv eps_model) (qsimulate sim_tolerance nq p) efn &&
  res_beq (map_eqv eps_model) (qsampler sim_tolerance nq ncl p) esam &&
  match efn, esam with Ok a, Ok b => map_eqv 0 a b | _, _ => true end.

(* stricter variant, not used for the verdict: keys in the model's dict order *)
Definition chk_sim_ordered (c : sim_case) : bool :=
  let '(nq, ncl, p, efn, esam, oracle_ok) := c in
  res_beq (dist_close eps_model) (qsimulate sim_tolerance nq p) efn &&
  match efn, esam with Ok a, Ok b => dist_same a b | _, _ => true end.

(* implementation vs the harness's density-matrix oracle, as maps (keys may differ by outcomes of
   probability <= eps_oracle: the implementation truncates, the oracle does not) *)
Definition dist_vs_oracle (impl : res (list (N * Q))) (oracle : list (N * Q)) : bool :=
  match impl with
  | Ok a => nodup_keys a && map_close eps_oracle a oracle && qclose eps_oracle (total a) 1
  | _ => false
  end.

(* tolerance stream (arbitrary unitaries): (function result, Some sampler result | None when Qiskit's
   pre-validation legitimately refused, oracle) *)
Definition chk_dist (c : res (list (N * Q)) * option (res (list (N * Q))) * list (N * Q)) : bool :=
  let '(fn, sam, oracle) := c in
  dist_vs_oracle fn oracle &&
  match sam with
  | None => true
  | Some s => dist_vs_oracle s oracle && match fn, s with Ok a, Ok b => map_eqv 0 a b | _, _ => false end
  end.

(* sampler stream: one ExactSampler.run over several (parametrised) circuits: quasi_dists[i] vs the oracle's
   distribution of the i-th bound circuit *)
Definition chk_multi (c : res (list (list (N * Q))) * list (list (N * Q))) : bool :=
  let '(impl, oracles) := c in
  match impl with
  | Ok ds => Nat.eqb (length ds) (length oracles) &&
             forallb (fun p => dist_vs_oracle (Ok (fst p)) (snd p)) (combine ds oracles)
  | _ => false
  end.

(* sampler stream on the exact gate set: ([(nq, ncl, program)], quasi_dists of ONE ExactSampler.run over them, oracle agreed) *)
Definition multiq_case := (list (nat * nat * qprog) * res (list (list (N * Q))) * bool)%type.
Definition chk_multiq (c : multiq_case) : bool :=
  let '(cs, e, oracle_ok) := c in
  oracle_ok &&
  forallb (fun c => wf_qprog (fst (fst c)) (snd (fst c)) (snd c) && audit (snd c) (init_vec (fst (fst c)))) cs &&
  res_beq (list_beq (map_eqv eps_model)) (qsampler_run sim_tolerance cs) e.

(* shorthand used by the case files *)
Definition G := @PGate qgate.
Definition M := @PMeasure qgate.
Definition R := @PReset qgate.
Definition B := @PBarrier qgate.
Definition C := @PCond qgate.
Definition K := @PGateWithClbit qgate.

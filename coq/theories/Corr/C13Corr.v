(* Corr/C13Corr.v — case checkers for the C13 correspondence.
   The model (Model/Sim.v) is instantiated with the exact simulator Common/QSim.v and evaluated on the program
   the implementation ran on; keys are compared exactly and in dict order, probabilities within 1e-12. *)
From Coq Require Import QArith Qabs.
From CKT Require Import Common.Base Common.QSim Model.Sim Extracted.Facts.
Close Scope Q_scope.

Definition eps_model : Q := (1 # 1000000000000)%Q.      (* 1e-12: binary64 result vs exact value *)
Definition eps_oracle : Q := (1 # 1000000000)%Q.        (* 1e-9 : implementation vs density-matrix oracle *)

Definition qclose (eps a b : Q) : bool := Qle_bool (Qabs (a - b)%Q) eps.

Definition dist_close (eps : Q) (a b : list (N * Q)) : bool :=
  list_beq (fun x y => N.eqb (fst x) (fst y) && qclose eps (snd x) (snd y)) a b.

Definition dist_same (a b : list (N * Q)) : bool :=
  list_beq (fun x y => N.eqb (fst x) (fst y) && Qeq_bool (snd x) (snd y)) a b.

(* fail-closed audit of the oracle: on every state that is measured or reset along every path of non-zero
   probability, the probability computed by QSim is an exact rational in [0,1] (no sqrt2-part dropped, no
   clamping), i.e. QSim's p1 is the Born probability of the (unnormalised) vector *)
Fixpoint audit (p : qprog) (s : vec) : bool :=
  match p with
  | [] => true
  | PGate g qs :: r => audit r (qapply g qs s)
  | PBarrier _ :: r => audit r s
  | PMeasure q _ :: r =>
      qp1_is_exact s q &&
      (if Qeq_bool (qp1 s q) 1 then true else audit r (qproj s q false)) &&
      (if Qeq_bool (qp1 s q) 0 then true else audit r (qproj s q true))
  | PReset q :: r =>
      qp1_is_exact s q &&
      (if Qeq_bool (qp1 s q) 1 then true else audit r (qproj s q false)) &&
      (if Qeq_bool (qp1 s q) 0 then true else audit r (qflipx (qproj s q true) q))
  | PCond :: _ => true
  | PGateWithClbit :: _ => true
  end.

(* (nq, ncl, program, simulate_statevector_outcomes result, ExactSampler result, harness density oracle agreed) *)
Definition sim_case := (nat * nat * qprog * res (list (N * Q)) * res (list (N * Q)) * bool)%type.

Definition chk_sim (c : sim_case) : bool :=
  let '(nq, ncl, p, efn, esam, oracle_ok) := c in
  oracle_ok &&
  audit p (init_vec nq) &&
  res_beq (dist_close eps_model) (qsimulate sim_tolerance nq p) efn &&
  res_beq (dist_close eps_model) (qsampler sim_tolerance nq ncl p) esam &&
  match efn, esam with Ok a, Ok b => dist_same a b | _, _ => true end.

(* tolerance stream (arbitrary unitaries): implementation vs the harness's density-matrix oracle, as maps *)
Definition map_close (eps : Q) (a b : list (N * Q)) : bool :=
  forallb (fun k => qclose eps (lookup a k) (lookup b k)) (map fst a ++ map fst b).

Definition nodup_keys (a : list (N * Q)) : bool :=
  (fix go (l : list N) : bool :=
     match l with [] => true | k :: r => negb (existsb (N.eqb k) r) && go r end) (map fst a).

Definition chk_dist (c : res (list (N * Q)) * list (N * Q)) : bool :=
  let '(impl, oracle) := c in
  match impl with
  | Ok a => nodup_keys a && map_close eps_oracle a oracle && qclose eps_oracle (total a) 1
  | _ => false
  end.

(* shorthand used by the case files *)
Definition G := @PGate qgate.
Definition M := @PMeasure qgate.
Definition R := @PReset qgate.
Definition B := @PBarrier qgate.
Definition C := @PCond qgate.
Definition K := @PGateWithClbit qgate.

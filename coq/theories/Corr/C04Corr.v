(* Corr/C04Corr.v — case checkers for the C04 correspondence (model vs implementation).
   Depends on the Model only.  Tolerances are part of each case:
     tolx : quantities that are exact on the dyadic stream (products, sums, N*p)   -> 0 there
     tols : sampled weights  count * (weight_to_sample / samples_needed)           -> 0 when the division is exact
     tolc : normalised conditional tables (a division by a norm)                    -> 0 when the norm is a power of two *)
From Coq Require Import QArith Qabs.
From CKT Require Import Common.Base Model.Weights.
Open Scope Q_scope.

Definition YF := YFull.
Definition YC := YCond.
Definition E := EXACT.
Definition S_ := SAMPLED.

Definition qclose (tol a b : Q) : bool := Qle_bool (Qabs (a - b)) tol.
Definition qlist_close (tol : Q) : list Q -> list Q -> bool := list_beq (qclose tol).

(* full states: probability within tolx; top-level table (not normalised) within tolx; others within tolc *)
Definition yield_close (tolx tolc : Q) (a b : yield) : bool :=
  match a, b with
  | YFull s p, YFull s' p' => key_eqb s s' && qclose tolx p p'
  | YCond s v, YCond s' v' =>
      key_eqb s s' && qlist_close (match s with [] => tolx | _ => tolc end) v v'
  | _, _ => false
  end.

Definition yields_close (tolx tolc : Q) : list yield -> list yield -> bool :=
  list_beq (yield_close tolx tolc).

(* _generate_exact_weights_and_conditional_probabilities_assume_sorted(probs, thr):
   the SEQUENCE of yields, against the specification AND against the step machine *)
Definition chk_sorted (c : list (list Q) * Q * nat * Q * Q * list yield) : bool :=
  let '(probs, thr, fuel, tolx, tolc, e) := c in
  yields_close tolx tolc (dfs_spec probs thr) e &&
  match run_machine fuel probs thr with
  | Some ys => yields_close tolx tolc ys e
  | None => false
  end.

(* _generate_exact_weights_and_conditional_probabilities(probs, thr) with the argsort results recorded *)
Definition chk_unsorted (c : list (list Q) * list (list nat) * Q * Q * Q * list yield) : bool :=
  let '(probs, perms, thr, tolx, tolc, e) := c in
  sorting_perms_b probs perms && yields_close tolx tolc (gen_unsorted probs perms thr) e.

Definition entry_close (tolx tols : Q) (a b : key * (Q * wtype)) : bool :=
  key_eqb (fst a) (fst b) && wtype_eqb (snd (snd a)) (snd (snd b)) &&
  qclose (match snd (snd a) with EXACT => tolx | SAMPLED => tols end) (fst (snd a)) (fst (snd b)).

Definition wdict_close (tolx tols : Q) : wdict -> wdict -> bool := list_beq (entry_close tolx tols).

Fixpoint list_beq2 {A B} (f : A -> B -> bool) (la : list A) (lb : list B) : bool :=
  match la, lb with
  | [], [] => true
  | a :: ra, b :: rb => f a b && list_beq2 f ra rb
  | _, _ => false
  end.

Definition call_close (tolc : Q) (m : nat * list Q) (r : nat * nat * list Q) : bool :=
  let '(n, k, p) := r in
  Nat.eqb (length (snd m)) n && Nat.eqb (fst m) k && qlist_close tolc (snd m) p.

(* _generate_qpd_weights(probs, N) with numpy.random.choice replaced by a tape:
   returned dict in insertion order, and the (n, k, p) arguments of every choice call *)
Definition chk_weights
  (c : list (list Q) * list (list nat) * num * list nat * (Q * Q * Q) * res wdict * list (nat * nat * list Q)) : bool :=
  let '(probs, perms, N, tape, tols3, e, calls) := c in
  let '(tolx, tols, tolc) := tols3 in
  sorting_perms_b probs perms &&
  match gen_weights probs perms N tape with
  | None => false
  | Some r => res_beq (wdict_close tolx tols) r e
  end &&
  match gen_core probs perms N with
  | Ok (CSample ret cond nd ssw) =>
      match populate probs cond [] nd tape with
      | Some (_, rem, lg) => match rem with [] => true | _ => false end && list_beq2 (call_close tolc) lg calls
      | None => false
      end
  | _ => match calls with [] => true | _ => false end
  end.

(* generate_qpd_weights(bases, N): the final stable sort *)
Definition chk_public
  (c : list (list Q) * list (list nat) * num * list nat * (Q * Q * Q) * res wdict) : bool :=
  let '(probs, perms, N, tape, tols3, e) := c in
  let '(tolx, tols, tolc) := tols3 in
  match gen_weights probs perms N tape with
  | None => false
  | Some r => res_beq (wdict_close tolx tols) (res_map final_sort r) e
  end.

(* generate_qpd_weights(bases, N) from the COEFFICIENTS of the bases (dyadic, signs arbitrary, sum of magnitudes a
   power of two): probabilities = |c| / kappa inside the model *)
Definition chk_public_coeffs
  (c : list (list Q) * list (list nat) * num * list nat * (Q * Q * Q) * res wdict) : bool :=
  let '(bases, perms, N, tape, tols3, e) := c in
  let '(tolx, tols, tolc) := tols3 in
  sorting_perms_b (map basis_probs bases) perms &&
  match generate_qpd_weights bases perms N tape with
  | None => false
  | Some r => res_beq (wdict_close tolx tols) r e
  end.

(* the same through real gate bases (inexact binary64): near-ties in the sort key may legitimately be ordered
   differently by rounded and by exact weights, so the result is compared as a SET of entries (keys are distinct);
   the order is compared exactly on the dyadic public stream above *)
Definition entry_in (tolx tols : Q) (d : wdict) (e : key * (Q * wtype)) : bool :=
  match dget d (fst e) with
  | Some v => entry_close tolx tols (fst e, v) e
  | None => false
  end.

Definition chk_public_set
  (c : list (list Q) * list (list nat) * num * list nat * (Q * Q * Q) * res wdict) : bool :=
  let '(probs, perms, N, tape, tols3, e) := c in
  let '(tolx, tols, tolc) := tols3 in
  match gen_weights probs perms N tape, e with
  | Some (Ok r), Ok er => Nat.eqb (length r) (length er) && forallb (entry_in tolx tols (final_sort r)) er
  | Some Refused, Refused => true
  | Some Crashed, Crashed => true
  | _, _ => false
  end.

(* expected weights obtained by enumerating EVERY answer sequence of the oracle on the implementation *)
Definition chk_expected (c : list (list Q) * list (list nat) * num * Q * list (key * Q)) : bool :=
  let '(probs, perms, N, tol, ews) := c in
  forallb (fun kw => qclose tol (expected_weight probs perms N (fst kw)) (snd kw)) ews.

"""C10 correspondence: utils/transforms.py (separate_circuit and helpers) and cutting_decomposition.py
(partition_circuit_qubits, cut_gates, partition_problem)  vs  Model/Separate.v, Model/Partition.v.

Case description (JSON, enough for `rerun`):
  desc = {qregs: [["reg"|"loose", size]...], cregs: [size...], loose_clbits: k, items: [item...]}
  item = ["g", name, [[num,den]...], [qubits]] | ["barrier", [qubits], label|null] | ["ubarrier", q, uuid-string]
       | ["measure", q, c] | ["reset", q] | ["move", a, b] | ["cutwire", q]
       | ["qpd2", basis key, bid|null, label|null, [a, b]] (+ optional 6th element obj: same obj = same gate INSTANCE) | ["qpd1", basis key, half, bid|null, label|null, q]
  desc["predef"] (optional) = indices of items whose Instruction.definition is read before the call (call history: Qiskit
  caches it; the Coq model is history-independent)
  labels = null | [tagged label ...]          observables = null | [[phase, [letters by qubit index]] ...]
"""
from __future__ import annotations

import json
from fractions import Fraction

import numpy as np
from qiskit.circuit import (QuantumCircuit, QuantumRegister, ClassicalRegister, Qubit, Clbit, Barrier, Parameter,
                            CircuitInstruction)
from qiskit.circuit.library import (HGate, XGate, SGate, TGate, RZGate, RYGate, CXGate, CZGate, SwapGate, RZZGate, CPhaseGate,
                                    RXXGate, iSwapGate, ECRGate, DCXGate, RZXGate, CCXGate, CSwapGate, CHGate)
from qiskit.quantum_info import Pauli, PauliList, Operator

import qiskit_addon_cutting.utils.transforms as T
from qiskit_addon_cutting.utils.transforms import (separate_circuit, _partition_labels_from_circuit, _split_barriers,
                                                   _combine_barriers, _qubit_map_from_partition_labels)
from qiskit_addon_cutting.cutting_decomposition import partition_circuit_qubits, cut_gates, partition_problem
from qiskit_addon_cutting.instructions import CutWire, Move
from qiskit_addon_cutting.qpd import QPDBasis, TwoQubitQPDGate, SingleQubitQPDGate

from common import CaseWriter, Res, Raw, Opt, Interner, call_canon, coq, tagged, untag
from circ import CircCtx, coq_circ, coq_opt, coq_qlabel

IMPORTS = "From CKT Require Import Common.Base Common.Circ Model.Observables Model.Separate Model.Partition Corr.C10Corr."
CASE_TYPES = {
    "chk_split": "circ * res circ",
    "chk_combine": "circ * res circ",
    "chk_labels": "nat * circ * bool * bool * res (list label)",
    "chk_qmap": "list label * res (qmap * list (nat * list nat))",
    "chk_separate": "nat * list (list nat) * circ * option (list label) * res (list subcirc * qmap)",
    "chk_pcq": "otables * nat * circ * list label * res circ",
    "chk_cut": "otables * nat * nat * circ * list nat * res (circ * list nat)",
    "chk_problem": "otables * nat * nat * nat * circ * option (list label) * option (list pauli) * res problem",
}
LET = {(False, False): 0, (True, False): 1, (True, True): 2, (False, True): 3}
LETTERS = "IXYZ"

G1 = {"h": HGate, "x": XGate, "s": SGate, "t": TGate, "rz": RZGate, "ry": RYGate}
G2 = {"cx": CXGate, "cz": CZGate, "swap": SwapGate, "rzz": RZZGate, "cp": CPhaseGate, "rxx": RXXGate, "iswap": iSwapGate,
      "ecr": ECRGate, "dcx": DCXGate, "rzx": RZXGate, "ch": CHGate}
G3 = {"ccx": CCXGate, "cswap": CSwapGate}
NPAR = {"rz": 1, "ry": 1, "rzz": 1, "cp": 1, "rxx": 1, "rzx": 1}
ANGLES = [Fraction(1, 2), Fraction(3, 4), Fraction(-1, 4), Fraction(5, 8)]
QPD_LABELS = [None, None, "foo", "cut_cx_7", "a_b"]
LABEL_POOL = [0, 1, 2, 7, "A", "B", "foo", (1, 2), ("a", 0), 3.5, True, frozenset([1]), -7, ""]


def fr(x):
    f = Fraction(x)
    return [f.numerator, f.denominator]


def unfr(p):
    return p[0] / p[1]


_BASIS_CACHE = {}
_PT = Parameter("t")


def make_basis(key):
    k = repr(key)
    if k not in _BASIS_CACHE:
        _BASIS_CACHE[k] = QPDBasis.from_instruction(G2[key[0]](*[unfr(p) for p in key[1]]))
    return _BASIS_CACHE[k]


def make_gate(name, params):
    if name == "rzzp":  # unbound parameter: from_instruction refuses it
        return RZZGate(_PT)
    cls = G1.get(name) or G2.get(name) or G3[name]
    return cls(*[unfr(p) for p in params])


def build(desc):
    qc = QuantumCircuit()
    objs = {}  # ["qpd2", key, bid, label, [a, b], obj]: items with the same obj are ONE gate instance appended several times
    for i, (kind, size) in enumerate(desc["qregs"]):
        if kind == "loose":
            qc.add_bits([Qubit() for _ in range(size)])
        else:
            qc.add_register(QuantumRegister(size, f"r{i}"))
    pre = desc.get("loose_clbits", 0)
    if pre:
        qc.add_bits([Clbit() for _ in range(pre)])
    for i, size in enumerate(desc.get("cregs", [])):
        qc.add_register(ClassicalRegister(size, f"c{i}"))
    for it in desc["items"]:
        k = it[0]
        if k == "g":
            qc.append(make_gate(it[1], it[2]), it[3])
        elif k == "barrier":
            qc.append(Barrier(len(it[1]), label=it[2]), it[1])
        elif k == "ubarrier":
            qc.append(Barrier(1, label=it[2]), [it[1]])
        elif k == "measure":
            qc.measure(it[1], it[2])
        elif k == "reset":
            qc.reset(it[1])
        elif k == "move":
            qc.append(Move(), [it[1], it[2]])
        elif k == "cutwire":
            qc.append(CutWire(), [it[1]])
        elif k == "qpd2":
            if len(it) > 5:
                if it[5] not in objs:
                    objs[it[5]] = TwoQubitQPDGate(make_basis(it[1]), basis_id=it[2], label=it[3])
                qc.append(objs[it[5]], it[4])  # append does not copy a parameter-free instruction
            else:
                qc.append(TwoQubitQPDGate(make_basis(it[1]), basis_id=it[2], label=it[3]), it[4])
        elif k == "qpd1":
            qc.append(SingleQubitQPDGate(make_basis(it[1]), it[2], basis_id=it[3], label=it[4]), [it[5]])
        else:
            raise ValueError(it)
    # call history: the .definition of these instructions was READ (hence cached by Qiskit) before the call under test
    for i in desc.get("predef", []):
        qc.data[i].operation.definition  # noqa: B018
    return qc


def nqubits(desc):
    return sum(s for _, s in desc["qregs"])


def nclbits(desc):
    return desc.get("loose_clbits", 0) + sum(desc.get("cregs", []))


# --------------------------------------------------------------------------------------------
# canonical forms
# --------------------------------------------------------------------------------------------

def canon_pauli(p):
    return [int(p.phase), [LET[(bool(a), bool(b))] for a, b in zip(p.x, p.z)]]


def canon_plist(pl):
    return [canon_pauli(p) for p in pl]


def coq_pauli(c):
    return Raw(f"(P {c[0]} [{'; '.join(str(l) for l in c[1])}])")


def mk_plist(cps):
    ps = []
    for ph, lets in cps:
        p = Pauli("".join(LETTERS[l] for l in reversed(lets)))
        p.phase = ph
        ps.append(p)
    return PauliList(ps)


class Labeller:
    """label -> nat.  Automatic labelling returns ints 0,1,..: identity; explicit labels: interned."""

    def __init__(self, labels):
        self.auto = labels is None
        self.intern = Interner()
        if labels is not None:
            for l in labels:
                if l is not None:
                    self.intern(l)

    def __call__(self, l):
        if l is None:
            return None
        if self.auto:
            assert isinstance(l, int) and l >= 0
            return l
        return self.intern(l)


def coq_label(l):
    return Raw(coq_opt(l))


def coq_labels(ls):
    return [coq_label(l) for l in ls]


def canon_subcircuits(ctx, lab, subcircuits):
    return [[lab(k), v.num_qubits, ctx.canon_circuit(v)] for k, v in subcircuits.items()]


def canon_qmap(lab, qm):
    out = []
    for a, b in qm:
        if a is None or b is None:
            # only the documented (None, None) is canonical; (None, 0) or ('A', None) is a malformed entry
            assert a is None and b is None, f"malformed qubit_map entry ({a!r}, {b!r})"
            out.append(None)
        else:
            out.append([lab(a), int(b)])
    return out


def coq_subcircuits(subs):
    return [(l, nq, coq_circ(c)) for l, nq, c in subs]


def coq_qmap(qm):
    return [Raw("None") if e is None else Raw(f"(Some ({e[0]}, {e[1]}))") for e in qm]


def cregs_idx(qc):
    return [[qc.find_bit(c).index for c in r] for r in qc.cregs]


def oracle_tables(ctx, qc, canon):
    """(gate table, move entry, relabel table) for the Coq model; computed by calling from_instruction itself."""
    gtbl = {}
    mv = None
    labels = []
    for inst, cin in zip(qc.data, canon):
        op = inst.operation
        if cin["op"][0] == "gate" and cin["op"][1] not in gtbl:
            r = call_canon(TwoQubitQPDGate.from_instruction, op)
            if r[0] == "ok":
                lab = r[1].label
                gtbl[cin["op"][1]] = (ctx.basis_id(r[1].basis), ctx.qlabel(lab))
                labels.append(lab)
        elif cin["op"][0] == "move" and mv is None:
            r = call_canon(TwoQubitQPDGate.from_instruction, op)
            if r[0] == "ok":
                mv = (ctx.basis_id(r[1].basis), ctx.qlabel(r[1].label))
                labels.append(r[1].label)
        elif cin["op"][0] == "qpd2":
            labels.append(op.label)
    rtbl = []
    seen = []
    for lab in labels:
        ql = ctx.qlabel(lab)
        if ql in seen:
            continue
        seen.append(ql)
        rtbl.append((ql, ctx.lbases(str(lab))))
    return gtbl, mv, rtbl


def coq_tables(t):
    gtbl, mv, rtbl = t
    g = "[" + "; ".join(f"({k}, ({v[0]}, {coq_qlabel(v[1])}))" for k, v in gtbl.items()) + "]"
    m = "None" if mv is None else f"(Some ({mv[0]}, {coq_qlabel(mv[1])}))"
    r = "[" + "; ".join(f"({coq_qlabel(k)}, {v})" for k, v in rtbl) + "]"
    return Raw(f"({g}, {m}, {r})")


# --------------------------------------------------------------------------------------------
# oracle-contract monitors (rustworkx components; DAG round trip of decompose)
# --------------------------------------------------------------------------------------------
_W = {"w": None}
_orig_cc = T.connected_components


def _bfs_components(n, edges):
    adj = {i: set() for i in range(n)}
    for a, b in edges:
        adj[a].add(b)
        adj[b].add(a)
    seen = set()
    out = set()
    for s in range(n):
        if s in seen:
            continue
        comp = {s}
        stack = [s]
        while stack:
            x = stack.pop()
            for y in adj[x]:
                if y not in comp:
                    comp.add(y)
                    stack.append(y)
        seen |= comp
        out.add(frozenset(comp))
    return out


def _cc_monitor(graph):
    res = _orig_cc(graph)
    if _W["w"] is not None:
        try:
            nodes = list(graph.node_indices())
            want = _bfs_components(len(nodes), list(graph.edge_list()))
            ok = nodes == list(range(len(nodes))) and {frozenset(s) for s in res} == want and sum(len(s) for s in res) == len(nodes)
        except Exception:  # noqa: BLE001  (e.g. an edge to a node that does not exist: the caller's fault, not the oracle's)
            ok = None
        if ok is not None:
            _W["w"].contract("rustworkx.connected_components returns the connected components", ok)
    return res


T.connected_components = _cc_monitor

_orig_decompose = QuantumCircuit.decompose


def _wire_seqs(n, canon):
    return [[(tuple(map(str, i["op"])), tuple(i["qs"]), tuple(i["cs"])) for i in canon if q in i["qs"]] for q in range(n)]


def _decompose_monitor(self, gates_to_decompose=None, reps=1):
    out = _orig_decompose(self, gates_to_decompose, reps)
    if _W["w"] is not None and gates_to_decompose is TwoQubitQPDGate:
        try:
            _decompose_check(self, out)
        except Exception:  # noqa: BLE001
            _W["w"].contract("decompose(TwoQubitQPDGate) = permutation of the in-place expansion with equal per-qubit sequences", False)
    return out


def _decompose_check(self, out):
    if True:
        ctx = CircCtx()
        a = ctx.canon_circuit(self)
        b = ctx.canon_circuit(out)
        exp = []
        for i in a:
            if i["op"][0] == "qpd2":
                _, bh, bid, lbl = i["op"]
                exp.append(dict(op=["qpd1", bh, 0, bid, lbl], qs=[i["qs"][0]], cs=[]))
                exp.append(dict(op=["qpd1", bh, 1, bid, lbl], qs=[i["qs"][1]], cs=[]))
            else:
                exp.append(i)
        key = lambda i: (tuple(map(str, i["op"])), tuple(i["qs"]), tuple(i["cs"]))  # noqa: E731
        ok = (sorted(map(key, exp)) == sorted(map(key, b))  # a permutation of the in-place expansion ...
              and _wire_seqs(self.num_qubits, exp) == _wire_seqs(self.num_qubits, b))  # ... with the same per-qubit sequences
        _W["w"].contract("decompose(TwoQubitQPDGate) = permutation of the in-place expansion with equal per-qubit sequences", ok)


QuantumCircuit.decompose = _decompose_monitor


# --------------------------------------------------------------------------------------------
# generators
# --------------------------------------------------------------------------------------------

def rand_regs(rng, n):
    regs = []
    left = n
    while left > 0:
        s = int(rng.integers(1, left + 1))
        regs.append(["loose" if rng.integers(0, 4) == 0 else "reg", s])
        left -= s
    return regs


def rand_partition(rng, n, allow_none):
    """labels for n qubits: 1..3 groups from the exotic pool (+ None for some qubits)."""
    ng = int(rng.integers(1, 4)) if (n < 2 or rng.integers(0, 3) == 0) else int(rng.integers(2, 4))
    src = LABEL_POOL
    r = int(rng.integers(0, 8))
    if r == 0:
        src = list("ABCxyz")      # a plain string is then a valid label sequence
        allow_none = False
    elif r == 1:
        src = [0, 1, 2, 7, -7]    # an integer numpy array is then a valid label sequence
    pool = [src[i] for i in rng.permutation(len(src))[:ng]]
    labels = [pool[int(rng.integers(0, ng))] for _ in range(n)]
    if allow_none:
        for q in range(n):
            if rng.integers(0, 5) == 0:
                labels[q] = None
    return labels


def pick(rng, xs):
    return xs[int(rng.integers(0, len(xs)))]


def rand_items(rng, n, ncl, labels, *, length, within=0.9, clbits=False, qpd=True, three=True, bad2q=False):
    """Random instruction list.  `labels` (or None) steers multi-qubit gates: with probability `within` they stay inside
    one label group; qubits labelled None are avoided with the same probability."""
    usable = list(range(n))
    groups = None
    if labels is not None:
        groups = {}
        for q, l in enumerate(labels):
            if l is not None:
                groups.setdefault(l, []).append(q)
        usable = [q for q in range(n) if labels[q] is not None]
    # a few idle qubits
    idle = set()
    if n > 1 and rng.integers(0, 3) == 0:
        for q in range(n):
            if rng.integers(0, 3) == 0:
                idle.add(q)
    items = []

    def choose(k):
        strict = rng.random() < within
        cand = [q for q in (usable if strict else range(n)) if q not in idle or not strict]
        if groups is not None and strict and k > 1:
            gs = [g for g in groups.values() if len([q for q in g if q not in idle]) >= k]
            if not gs:
                return None
            cand = [q for q in pick(rng, gs) if q not in idle]
        if len(cand) < k:
            return None
        return [int(cand[i]) for i in rng.permutation(len(cand))[:k]]

    for _ in range(length):
        r = rng.random()
        if r < 0.22:
            qs = choose(1)
            if qs is None:
                continue
            name = pick(rng, list(G1))
            items.append(["g", name, [fr(pick(rng, ANGLES))] * NPAR.get(name, 0), qs])
        elif r < 0.50:
            qs = choose(2)
            if qs is None:
                continue
            name = pick(rng, list(G2))
            if bad2q and rng.integers(0, 12) == 0:
                name = "rzzp"
            items.append(["g", name, [fr(pick(rng, ANGLES))] * NPAR.get(name, 0), qs])
        elif r < 0.56 and three and n >= 3:
            qs = choose(3)
            if qs is None:
                continue
            items.append(["g", pick(rng, list(G3)), [], qs])
        elif r < 0.76:
            # barrier of every span, qubits in random order; may cross partitions (but avoids None/idle qubits mostly)
            strict = rng.random() < within
            cand = [q for q in (usable if strict else range(n)) if q not in idle or not strict]
            if not cand:
                continue
            k = int(rng.integers(1, len(cand) + 1))
            qs = [int(cand[i]) for i in rng.permutation(len(cand))[:k]]
            items.append(["barrier", qs, "foo" if rng.integers(0, 6) == 0 else None])
        elif r < 0.80:
            qs = choose(1)
            if qs is None:
                continue
            items.append(["reset", qs[0]] if rng.integers(0, 2) else ["cutwire", qs[0]])
        elif r < 0.84:
            qs = choose(2)
            if qs is None:
                continue
            items.append(["move", qs[0], qs[1]])
        elif r < 0.90 and clbits and ncl > 0:
            qs = choose(1)
            if qs is None:
                continue
            items.append(["measure", qs[0], int(rng.integers(0, ncl))])
        elif qpd:
            if rng.integers(0, 4) == 0:
                qs = choose(1)
                if qs is None:
                    continue
                items.append(["qpd1", ["cx", []], int(rng.integers(0, 2)), pick(rng, [None, 0, 3]), pick(rng, [None, "foo", "a_b"]), qs[0]])
            else:
                # pre-placed cut gate: anywhere (this is what it is for)
                if groups is not None and within >= 0.95 and rng.random() < within:
                    qs = choose(2)  # inside one label group: stays a two-qubit placeholder of that partition
                    if qs is None:
                        continue
                else:
                    cand = [q for q in range(n) if (labels is None or labels[q] is not None or rng.random() > within) and q not in idle]
                    if len(cand) < 2:
                        continue
                    qs = [int(cand[i]) for i in rng.permutation(len(cand))[:2]]
                key = pick(rng, [["cx", []], ["cz", []], ["rzz", [fr(Fraction(1, 2))]]])
                items.append(["qpd2", key, pick(rng, [None, None, 0, 2]), pick(rng, QPD_LABELS), qs])
    return items


def rand_desc(rng, n, labels, *, clbits=False, **kw):
    desc = dict(qregs=rand_regs(rng, n), cregs=[], loose_clbits=0)
    if clbits:
        desc["cregs"] = [int(rng.integers(1, 3)) for _ in range(int(rng.integers(0, 3)))]
        if rng.integers(0, 8) == 0:
            desc["loose_clbits"] = 1
    desc["items"] = rand_items(rng, n, nclbits(desc), labels, length=int(rng.integers(0, 11)), clbits=clbits, **kw)
    # for some pre-placed TwoQubitQPDGates the definition has been looked at before the call (e.g. by drawing the circuit)
    q2 = [i for i, it in enumerate(desc["items"]) if it[0] == "qpd2"]
    if q2 and rng.integers(0, 2):
        desc["predef"] = [i for i in q2 if rng.integers(0, 3) > 0]
    return desc


def rand_obs(rng, n, desc, labels, *, phases=False):
    used = set()
    for it in desc["items"]:
        used.update(item_qubits(it))
    k = int(rng.integers(1, 4))
    mode = int(rng.integers(0, 3))
    out = []
    for _ in range(k):
        lets = [int(rng.integers(0, 4)) for _ in range(n)]
        if mode < 2:  # identity on qubits that will be dropped (idle / None-labelled)
            for q in range(n):
                if (labels is None and q not in used) or (labels is not None and labels[q] is None):
                    lets[q] = 0
        out.append([int(rng.integers(1, 4)) if phases else 0, lets])
    return out


def item_qubits(it):
    k = it[0]
    if k == "g":
        return list(it[3])
    if k == "barrier":
        return list(it[1])
    if k in ("ubarrier", "reset", "cutwire"):
        return [it[1]]
    if k == "measure":
        return [it[1]]
    if k == "move":
        return [it[1], it[2]]
    if k == "qpd2":
        return list(it[4])
    if k == "qpd1":
        return [it[5]]
    raise ValueError(it)


# --------------------------------------------------------------------------------------------
# running the implementation
# --------------------------------------------------------------------------------------------

def canon_auto_labels(v):
    out = [None if l is None else int(l) for l in v]
    assert all(l is None or l >= 0 for l in out)
    return out


def try_build(w, desc):
    """the input circuit is built with the package's own classes (QPD gates, bases, Move, CutWire): if that fails the case
    cannot be expressed; it is counted and reported through the contract monitor instead of crashing the harness"""
    try:
        qc = build(desc)
        w.contract("input circuit can be built from the package's instruction classes", True)
        return qc
    except Exception:  # noqa: BLE001
        w.contract("input circuit can be built from the package's instruction classes", False)
        return None


LFORMS = ("list", "tuple", "str", "nparray")
OFORMS = ("PauliList", "list")


def as_labels(labels, form):
    """the same label sequence in another call form (the Coq model knows no call form)"""
    if labels is None or form == "list":
        return labels
    if form == "tuple":
        return tuple(labels)
    if form == "str":
        assert all(isinstance(l, str) and len(l) == 1 for l in labels)
        return "".join(labels)
    if form == "nparray":
        if all(isinstance(l, int) and not isinstance(l, bool) for l in labels):
            return np.array(labels, dtype=int)
        a = np.empty(len(labels), dtype=object)
        for i, l in enumerate(labels):
            a[i] = l
        return a
    raise ValueError(form)


def forms_for(rng, labels, obs):
    lf = "list"
    if labels is not None and rng.integers(0, 5) < 2:
        opts = ["tuple", "nparray"]
        if labels and all(isinstance(l, str) and len(l) == 1 for l in labels):
            opts += ["str", "str"]
        lf = pick(rng, opts)
    of = "list" if (obs is not None and rng.integers(0, 3) == 0) else "PauliList"
    return lf, of


def as_obs(obs, form, n):
    if obs is None:
        return None
    if not obs:  # an empty collection of observables
        return [] if form == "list" else PauliList(["I" * max(n, 1)])[:0]
    pl = mk_plist(obs)
    return list(pl) if form == "list" else pl


def check_input_untouched(ctx, qc, cin):
    if ctx.canon_circuit(qc) != cin:
        raise AssertionError("the call modified the caller's circuit")


def run_separate(desc, labels, lform="list"):
    qc = build(desc)
    ctx = CircCtx()
    cin = ctx.canon_circuit(qc)
    lab = Labeller(labels)
    r = call_canon(separate_circuit, qc, as_labels(labels, lform))

    def conv(v):
        out = (canon_subcircuits(ctx, lab, v.subcircuits), canon_qmap(lab, v.qubit_map))
        check_input_untouched(ctx, qc, cin)
        return out

    impl = canon_result(r, conv)
    return qc, ctx, cin, lab, impl


def input_labels(qc):
    """labels of the QPD placeholders of a circuit (what a caller can see of his own gate objects)"""
    return [[i, None if inst.operation.label is None else str(inst.operation.label)] for i, inst in enumerate(qc.data)
            if isinstance(inst.operation, (TwoQubitQPDGate, SingleQubitQPDGate))]


def run_problem(desc, labels, obs, calls=1, hist=None, lform="list", oform="PauliList"):
    qc = build(desc)
    ctx = CircCtx()
    cin = ctx.canon_circuit(qc)
    tables = oracle_tables(ctx, qc, cin)
    lab = Labeller(labels)
    pl = as_obs(obs, oform, qc.num_qubits)
    before = safe(lambda: input_labels(qc), "?")
    for _ in range(max(1, calls)):  # the same input handed to the function once or several times
        r = call_canon(partition_problem, qc, as_labels(labels, lform), pl)
    if hist is not None:
        hist["in_labels"] = [before, safe(lambda: input_labels(qc), "?")]

    def conv(v):
        so = None
        if v.subobservables is not None:
            so = [[("none" if k is None else lab(k)), canon_plist(x)] for k, x in v.subobservables.items()]
        out = (canon_subcircuits(ctx, lab, v.subcircuits), [ctx.basis_id(b) for b in v.bases], so)
        check_input_untouched(ctx, qc, cin)
        return out

    impl = canon_result(r, conv)
    return qc, ctx, cin, tables, lab, impl


def canon_result(r, conv):
    """r = call_canon(...) ; conv canonicalises a successful value.  If the implementation returned something
    the canonicaliser cannot digest (wrong shape, foreign bits, ...) the outcome is recorded as crashed."""
    if r[0] != "ok":
        return [r[0], r[1]]
    try:
        return ["ok"] + list(conv(r[1]))
    except Exception as e:  # noqa: BLE001
        return ["crashed", f"uncanonicalisable output ({type(e).__name__}: {str(e)[:120]})"]


def safe(f, default=None):
    try:
        return f()
    except Exception:  # noqa: BLE001
        return default


def lab_ids(lab, labels):
    return None if labels is None else [lab(l) for l in labels]


def json_case(kind, desc, cin, **kw):
    d = dict(kind=kind, desc=desc, circ=cin)
    d.update(kw)
    return d


# --------------------------------------------------------------------------------------------
# generate
# --------------------------------------------------------------------------------------------

def generate(rng, tier, outdir):
    w = CaseWriter(outdir, IMPORTS, case_types=CASE_TYPES)
    _W["w"] = w
    q = tier == "quick"
    N = dict(split=200 if q else 2500, combine=200 if q else 2500, labels=300 if q else 3000, qmap=150 if q else 1500,
             separate=700 if q else 7000, pcq=300 if q else 3000, cut=250 if q else 2500, problem=800 if q else 8000,
             preplaced=300 if q else 4000, freshcut=300 if q else 5000)

    # ---- _split_barriers ----
    for _ in range(N["split"]):
        n = int(rng.integers(1, 7))
        desc = rand_desc(rng, n, None, qpd=False)
        if rng.integers(0, 40) == 0:
            desc["items"].insert(int(rng.integers(0, len(desc["items"]) + 1)), ["barrier", [], None])
        qc = try_build(w, desc)
        if qc is None:
            continue
        ctx = CircCtx()
        cin = ctx.canon_circuit(qc)
        new = qc.copy()
        r = canon_result(call_canon(_split_barriers, new), lambda _v: (ctx.canon_circuit(new),))
        out = r[1] if r[0] == "ok" else None
        exp = Res("ok", coq_circ(out)) if r[0] == "ok" else Res(r[0])
        w.add("split", "chk_split", (coq_circ(cin), exp), json_case("split", desc, cin, impl=[r[0], r[1]]),
              nontrivial=any(i["op"][0] == "barrier" and len(i["qs"]) > 1 for i in cin))
        w.count("split.outcome", r[0])
        w.count("split.max_barrier_span", max([len(i["qs"]) for i in cin if i["op"][0] == "barrier"] + [0]))

    # ---- _combine_barriers on arbitrary arrangements of uuid-labelled one-qubit barriers ----
    for _ in range(N["combine"]):
        n = int(rng.integers(1, 7))
        desc = dict(qregs=[["reg", n]], cregs=[], loose_clbits=0, items=[])
        uu = [f"_uuid={k}" for k in range(int(rng.integers(1, 4)))]
        used_pairs = set()
        for _ in range(int(rng.integers(0, 10))):
            r = rng.random()
            qn = int(rng.integers(0, n))
            if r < 0.6:
                u = pick(rng, uu)
                if (qn, u) in used_pairs:  # one uuid never repeats a qubit (a barrier has distinct qubits)
                    continue
                used_pairs.add((qn, u))
                desc["items"].append(["ubarrier", qn, u])
            elif r < 0.7:
                desc["items"].append(["barrier", [qn], pick(rng, [None, "foo"])])
            elif r < 0.8 and n > 1:
                desc["items"].append(["barrier", [int(x) for x in rng.permutation(n)[:2]], pick(rng, uu + [None])])
            else:
                desc["items"].append(["g", "h", [], [qn]])
        qc = try_build(w, desc)
        if qc is None:
            continue
        ctx = CircCtx()
        cin = ctx.canon_circuit(qc)
        new = qc.copy()
        r = canon_result(call_canon(_combine_barriers, new), lambda _v: (ctx.canon_circuit(new),))
        out = r[1] if r[0] == "ok" else None
        exp = Res("ok", coq_circ(out)) if r[0] == "ok" else Res(r[0])
        w.add("combine", "chk_combine", (coq_circ(cin), exp), json_case("combine", desc, cin, impl=[r[0], r[1]]),
              nontrivial=(r[0] == "ok" and len(out) < len(cin)))
        w.count("combine.removed", len(cin) - len(out) if r[0] == "ok" else r[0])

    # ---- _partition_labels_from_circuit ----
    for _ in range(N["labels"]):
        n = int(rng.integers(1, 7))
        desc = rand_desc(rng, n, None)
        qc = try_build(w, desc)
        if qc is None:
            continue
        ctx = CircCtx()
        cin = ctx.canon_circuit(qc)
        ign = bool(rng.integers(0, 2))
        keep = bool(rng.integers(0, 4) == 0)
        kw = dict(keep_idle_wires=keep)
        if ign:
            kw["ignore"] = lambda inst: isinstance(inst.operation, TwoQubitQPDGate)
        r = canon_result(call_canon(_partition_labels_from_circuit, qc, **kw), lambda v: (canon_auto_labels(v),))
        out = r[1] if r[0] == "ok" else None
        exp = Res("ok", coq_labels(out)) if r[0] == "ok" else Res(r[0])
        w.add("labels", "chk_labels", (n, coq_circ(cin), ign, keep, exp),
              json_case("labels", desc, cin, ignore_qpd2=ign, keep_idle=keep, impl=[r[0], r[1]]),
              nontrivial=(r[0] == "ok" and len(set(out)) > 1))
        if r[0] == "ok":
            w.count("labels.ncomponents", len(set(l for l in out if l is not None)))
            w.count("labels.has_idle", None in out)
        w.count("labels.outcome", r[0])

    # ---- _qubit_map_from_partition_labels ----
    for _ in range(N["qmap"]):
        n = int(rng.integers(0, 8))
        labels = rand_partition(rng, n, True)
        lab = Labeller(labels)
        r = canon_result(call_canon(_qubit_map_from_partition_labels, labels),
                         lambda v: (canon_qmap(lab, v[0]), [[lab(k), [int(x) for x in x2]] for k, x2 in v[1].items()]))
        if r[0] == "ok":
            exp = Res("ok", (coq_qmap(r[1]), [(k, list(v)) for k, v in r[2]]))
        else:
            exp = Res(r[0])
        w.add("qmap", "chk_qmap", (coq_labels(lab_ids(lab, labels)), exp),
              dict(kind="qmap", labels=[tagged(l) for l in labels], impl=[r[0], r[1]]),
              nontrivial=(r[0] == "ok" and len(r[2]) > 1))

    # ---- separate_circuit ----
    for _ in range(N["separate"]):
        n = int(rng.integers(1, 7))
        mode = int(rng.integers(0, 10))
        clb = bool(rng.integers(0, 3) == 0)
        if mode < 4:  # automatic labelling
            labels = None
            desc = rand_desc(rng, n, None, clbits=clb, qpd=bool(rng.integers(0, 2)))
        elif mode < 9:  # explicit labels, circuit (mostly) compatible with them
            labels = rand_partition(rng, n, True)
            desc = rand_desc(rng, n, labels, clbits=clb, within=0.97, qpd=bool(rng.integers(0, 3) == 0))
        else:  # malformed stream: wrong count / incompatible circuit
            labels = rand_partition(rng, max(0, n + int(pick(rng, [-1, 0, 0, 1]))), True)
            desc = rand_desc(rng, n, None, clbits=clb)
        if try_build(w, desc) is None:
            continue
        lform, _of = forms_for(rng, labels, None)
        qc, ctx, cin, lab, impl = run_separate(desc, labels, lform)
        w.count("separate.label_form", lform if labels is not None else "auto")
        if impl[0] == "ok":
            exp = Res("ok", (coq_subcircuits(impl[1]), coq_qmap(impl[2])))
        else:
            exp = Res(impl[0])
        ls = lab_ids(lab, labels)
        w.add("separate", "chk_separate",
              (n, cregs_idx(qc), coq_circ(cin), Opt(coq_labels(ls)) if ls is not None else Opt(), exp),
              json_case("separate", desc, cin, labels=None if labels is None else [tagged(l) for l in labels], impl=impl,
                        lform=lform),
              nontrivial=(impl[0] == "ok" and len(impl[1]) > 1))
        w.count("separate.outcome", impl[0])
        w.count("separate.mode", "auto" if labels is None else ("malformed" if mode == 9 else "explicit"))
        w.count("separate.n", n)
        if impl[0] == "ok":
            w.count("separate.nsub", len(impl[1]))
            w.count("separate.barrier_spanning_partitions", safe(lambda: any(
                i["op"][0] == "barrier" and len({impl[2][x][0] for x in i["qs"]}) > 1 for i in cin), "?"))
            w.count("separate.has_dropped_qubit", None in impl[2])

    # ---- partition_circuit_qubits ----
    for _ in range(N["pcq"]):
        n = int(rng.integers(1, 7))
        labels = rand_partition(rng, n if rng.integers(0, 15) else n + 1, True)
        desc = rand_desc(rng, n, labels if len(labels) == n else None, within=0.5, bad2q=True)
        qc = try_build(w, desc)
        if qc is None:
            continue
        ctx = CircCtx()
        cin = ctx.canon_circuit(qc)
        tables = oracle_tables(ctx, qc, cin)
        lab = Labeller(labels)
        def conv_pcq(v, ctx=ctx, qc=qc, cin=cin):
            out = (ctx.canon_circuit(v),)
            check_input_untouched(ctx, qc, cin)
            return out

        r = canon_result(call_canon(partition_circuit_qubits, qc, labels), conv_pcq)
        out = r[1] if r[0] == "ok" else None
        exp = Res("ok", coq_circ(out)) if r[0] == "ok" else Res(r[0])
        w.add("pcq", "chk_pcq", (coq_tables(tables), n, coq_circ(cin), coq_labels(lab_ids(lab, labels)), exp),
              json_case("pcq", desc, cin, labels=[tagged(l) for l in labels], impl=[r[0], r[1]]),
              nontrivial=(r[0] == "ok" and out != cin))
        w.count("pcq.outcome", r[0])

    # ---- cut_gates ----
    for _ in range(N["cut"]):
        n = int(rng.integers(2, 7))
        clb = bool(rng.integers(0, 10) == 0)
        desc = rand_desc(rng, n, None, clbits=clb, bad2q=True)
        qc = try_build(w, desc)
        if qc is None:
            continue
        ctx = CircCtx()
        cin = ctx.canon_circuit(qc)
        tables = oracle_tables(ctx, qc, cin)
        two = [i for i, c in enumerate(cin) if c["op"][0] in ("gate", "move") and len(c["qs"]) == 2]
        ids = []
        for _k in range(int(rng.integers(0, 4))):
            if two and rng.random() < 0.9:
                ids.append(int(pick(rng, two)))
            else:
                ids.append(int(rng.integers(0, len(cin) + 2)))
        r = canon_result(call_canon(cut_gates, qc, ids),
                         lambda v: ([ctx.canon_circuit(v[0]), [ctx.basis_id(b) for b in v[1]]],))
        out = r[1]
        if r[0] == "ok":
            exp = Res("ok", (coq_circ(out[0]), out[1]))
        else:
            exp = Res(r[0])
        w.add("cut", "chk_cut", (coq_tables(tables), qc.num_clbits, len(qc.cregs), coq_circ(cin), ids, exp),
              json_case("cut", desc, cin, ids=ids, impl=[r[0], out]), nontrivial=(r[0] == "ok" and len(ids) > 0))
        w.count("cut.outcome", r[0])

    # ---- partition_problem ----
    # the witness class of F4 first (3 qubits, h 0; cx 0 1; automatic labels; IZZ / ZZZ)
    fixed = [
        (dict(qregs=[["reg", 3]], cregs=[], loose_clbits=0, items=[["g", "h", [], [0]], ["g", "cx", [], [0, 1]]]), None, [[0, [3, 3, 0]]]),
        (dict(qregs=[["reg", 3]], cregs=[], loose_clbits=0, items=[["g", "h", [], [0]], ["g", "cx", [], [0, 1]]]), None, [[0, [3, 3, 3]]]),
        (dict(qregs=[["reg", 3]], cregs=[], loose_clbits=0, items=[["g", "h", [], [0]], ["g", "cx", [], [0, 1]]]), ["A", "A", None], [[0, [3, 3, 0]]]),
        (dict(qregs=[["reg", 3]], cregs=[], loose_clbits=0, items=[["g", "h", [], [0]], ["g", "cx", [], [0, 1]]]), ["A", "B", "C"], [[0, [3, 3, 3]]]),
    ]
    for it in range(N["problem"]):
        if it < len(fixed):
            desc, labels, obs = fixed[it]
            n = nqubits(desc)
            mode = "fixed"
        else:
            n = int(rng.integers(1, 7))
            m = int(rng.integers(0, 20))
            if m < 7:
                labels = None
                desc = rand_desc(rng, n, None, within=1.0, three=bool(rng.integers(0, 2)), bad2q=bool(rng.integers(0, 6) == 0))
                mode = "auto"
            elif m < 17:
                labels = rand_partition(rng, n, True)
                desc = rand_desc(rng, n, labels, within=0.4 if rng.integers(0, 3) else 0.97, three=bool(rng.integers(0, 3) == 0),
                                 bad2q=bool(rng.integers(0, 6) == 0))
                mode = "explicit"
            else:
                labels = rand_partition(rng, max(0, n + int(pick(rng, [-1, 0, 1]))), True) if rng.integers(0, 2) else None
                desc = rand_desc(rng, n, None, clbits=bool(rng.integers(0, 2)))
                mode = "malformed"
            obs = None
            if rng.integers(0, 5) > 0:
                no = n if (mode != "malformed" or rng.integers(0, 2)) else max(1, n + int(pick(rng, [-1, 1])))
                od = desc if no == n else dict(items=[])
                ol = labels if (labels is None or len(labels) == no) else None
                obs = rand_obs(rng, no, od, ol, phases=(mode == "malformed" and bool(rng.integers(0, 2))))
        if try_build(w, desc) is None:
            continue
        hist = {}
        if obs is not None and mode != "fixed" and rng.integers(0, 40) == 0:
            obs = []  # an empty collection of observables
        lform, oform = forms_for(rng, labels, obs)
        qc, ctx, cin, tables, lab, impl = run_problem(desc, labels, obs, 1, hist, lform, oform)
        hist.update(lform=lform, oform=oform)
        w.count("problem.label_form", lform if labels is not None else "auto")
        w.count("problem.obs_form", oform if obs is not None else "none")
        if impl[0] == "ok":
            so = impl[3]
            if so is None:
                cso = Opt()
            else:
                # the key None has no counterpart in the (repaired) model: encode it as an impossible key
                cso = Opt([((4999 if k == "none" else k), [coq_pauli(c) for c in v]) for k, v in so])
            exp = Res("ok", (coq_subcircuits(impl[1]), impl[2], cso))
        else:
            exp = Res(impl[0])
        ls = lab_ids(lab, labels)
        cobs = Opt([coq_pauli(c) for c in obs]) if obs is not None else Opt()
        w.add("problem", "chk_problem",
              (coq_tables(tables), n, qc.num_clbits, len(qc.cregs), coq_circ(cin),
               Opt(coq_labels(ls)) if ls is not None else Opt(), cobs, exp),
              json_case("problem", desc, cin, labels=None if labels is None else [tagged(l) for l in labels], obs=obs, impl=impl,
                        bases=safe(lambda: [ctx.canon_basis(b) for b in ctx.bases], None), **hist),
              nontrivial=(impl[0] == "ok" and len(impl[2]) > 0))
        w.count("problem.outcome", impl[0])
        w.count("problem.mode", mode)
        w.count("problem.n", n)
        if impl[0] == "ok":
            w.count("problem.ncuts", len(impl[2]))
            w.count("problem.fresh_cuts", len(impl[2]) - sum(1 for i in cin if i["op"][0] == "qpd2"))
            w.count("problem.nsub", len(impl[1]))
            w.count("problem.preplaced_qpd2", any(i["op"][0] == "qpd2" for i in cin))
            w.count("problem.subobs_has_None_key", safe(lambda: bool(impl[3]) and any(k == "none" for k, _ in impl[3]), "?"))

    # ---- partition_problem with nothing left to cut: every partition-crossing gate is a pre-placed TwoQubitQPDGate;
    #      the same gate INSTANCE may sit at several positions; the same input may be handed over twice ----
    for it in range(N["preplaced"]):
        n = int(rng.integers(2, 7))
        auto = bool(rng.integers(0, 3) == 0)
        labels = None
        if not auto:
            labels = rand_partition(rng, n, bool(rng.integers(0, 4) == 0))
        desc = rand_desc(rng, n, labels, within=1.0, qpd=False, three=bool(rng.integers(0, 2)))
        desc.pop("predef", None)
        if auto:  # keep the components small: no wide barriers
            desc["items"] = [x for x in desc["items"] if not (x[0] == "barrier" and len(x[1]) > 1) or rng.integers(0, 3) == 0]
        cand = [q for q in range(n) if labels is None or labels[q] is not None]
        if len(cand) < 2:
            continue
        pool = [[pick(rng, [["cx", []], ["cz", []], ["rzz", [fr(Fraction(1, 2))]]]), pick(rng, [None, None, 0, 2]),
                 pick(rng, QPD_LABELS)] for _ in range(int(rng.integers(1, 4)))]
        shared = bool(rng.integers(0, 3) > 0)  # shared: positions may reuse one gate object
        for _k in range(int(rng.integers(1, 5))):
            qs = [int(cand[i]) for i in rng.permutation(len(cand))[:2]]
            j = int(rng.integers(0, len(pool)))
            item = ["qpd2", pool[j][0], pool[j][1], pool[j][2], qs]
            if shared:
                item.append(j)
            desc["items"].insert(int(rng.integers(0, len(desc["items"]) + 1)), item)
        q2 = [i for i, x in enumerate(desc["items"]) if x[0] == "qpd2"]
        if rng.integers(0, 3) == 0:
            desc["predef"] = [i for i in q2 if rng.integers(0, 2)]
        obs = rand_obs(rng, n, desc, labels) if rng.integers(0, 3) else None
        calls = 2 if rng.integers(0, 3) == 0 else 1
        if try_build(w, desc) is None:
            continue
        hist = {}
        lform, oform = forms_for(rng, labels, obs)
        qc, ctx, cin, tables, lab, impl = run_problem(desc, labels, obs, calls, hist, lform, oform)
        hist.update(lform=lform, oform=oform)
        if impl[0] == "ok":
            so = impl[3]
            cso = Opt() if so is None else Opt([((4999 if k == "none" else k), [coq_pauli(c) for c in v]) for k, v in so])
            exp = Res("ok", (coq_subcircuits(impl[1]), impl[2], cso))
        else:
            exp = Res(impl[0])
        ls = lab_ids(lab, labels)
        cobs = Opt([coq_pauli(c) for c in obs]) if obs is not None else Opt()
        w.add("preplaced", "chk_problem",
              (coq_tables(tables), n, qc.num_clbits, len(qc.cregs), coq_circ(cin),
               Opt(coq_labels(ls)) if ls is not None else Opt(), cobs, exp),
              json_case("problem", desc, cin, labels=None if labels is None else [tagged(l) for l in labels], obs=obs, impl=impl,
                        calls=calls, **hist),
              nontrivial=(impl[0] == "ok" and len(impl[2]) > 0))
        w.count("preplaced.outcome", impl[0])
        w.count("preplaced.labels", "auto" if auto else "explicit")
        w.count("preplaced.calls", calls)
        nobj = len({x[5] for x in desc["items"] if x[0] == "qpd2" and len(x) > 5})
        w.count("preplaced.same_instance_reused", shared and nobj < len(q2))
        if impl[0] == "ok":
            w.count("preplaced.ncuts", len(impl[2]))
            w.count("preplaced.nsub", len(impl[1]))

    # ---- partition_problem where gates are freshly cut: explicit labels without None, two or three groups, crossing
    #      two-qubit gates of every supported kind drawn directly ----
    kinds = list(G2) + ["move"]
    for it in range(N["freshcut"]):
        n = int(rng.integers(2, 7))
        ng = 2 if n < 3 else int(rng.integers(2, 4))
        pool = [LABEL_POOL[i] for i in rng.permutation(len(LABEL_POOL))[:ng]]
        labels = [pool[int(rng.integers(0, ng))] for _ in range(n)]
        if len(set(map(repr, labels))) < 2:
            labels[0], labels[-1] = pool[0], pool[1]
        desc = rand_desc(rng, n, labels, within=1.0, qpd=bool(rng.integers(0, 4) == 0), three=bool(rng.integers(0, 3) == 0))
        cross = [(a, b) for a in range(n) for b in range(n) if a != b and labels[a] != labels[b]]
        if not cross:  # e.g. the labels 1 and True are one label
            continue
        for _k in range(int(rng.integers(1, 5))):
            a, b = cross[int(rng.integers(0, len(cross)))]
            name = kinds[(it + _k) % len(kinds)] if rng.integers(0, 2) else pick(rng, kinds)
            item = ["move", a, b] if name == "move" else ["g", name, [fr(pick(rng, ANGLES))] * NPAR.get(name, 0), [a, b]]
            desc["items"].insert(int(rng.integers(0, len(desc["items"]) + 1)), item)
        q2 = [i for i, x in enumerate(desc["items"]) if x[0] == "qpd2"]
        desc.pop("predef", None)
        if q2 and rng.integers(0, 2):
            desc["predef"] = [i for i in q2 if rng.integers(0, 2)]
        obs = rand_obs(rng, n, desc, labels) if rng.integers(0, 3) else None
        if try_build(w, desc) is None:
            continue
        hist = {}
        lform, oform = forms_for(rng, labels, obs)
        qc, ctx, cin, tables, lab, impl = run_problem(desc, labels, obs, 1, hist, lform, oform)
        hist.update(lform=lform, oform=oform)
        if impl[0] == "ok":
            so = impl[3]
            cso = Opt() if so is None else Opt([((4999 if k == "none" else k), [coq_pauli(c) for c in v]) for k, v in so])
            exp = Res("ok", (coq_subcircuits(impl[1]), impl[2], cso))
        else:
            exp = Res(impl[0])
        ls = lab_ids(lab, labels)
        cobs = Opt([coq_pauli(c) for c in obs]) if obs is not None else Opt()
        w.add("freshcut", "chk_problem",
              (coq_tables(tables), n, qc.num_clbits, len(qc.cregs), coq_circ(cin), Opt(coq_labels(ls)), cobs, exp),
              json_case("problem", desc, cin, labels=[tagged(l) for l in labels], obs=obs, impl=impl, **hist),
              nontrivial=(impl[0] == "ok" and len(impl[2]) > 0))
        w.count("freshcut.outcome", impl[0])
        if impl[0] == "ok":
            fresh = len(impl[2]) - sum(1 for i in cin if i["op"][0] == "qpd2")
            w.count("freshcut.fresh_cuts", fresh)
            for i in cin:
                if i["op"][0] in ("gate", "move") and len(i["qs"]) == 2 and labels[i["qs"][0]] != labels[i["qs"][1]]:
                    w.count("freshcut.gate_kind", i["op"][2] if i["op"][0] == "gate" else "move")

    # ---- the property-level oracle must accept what the unchanged implementation does: run it on the generated cases
    #      (all of them in the quick tier, an evenly spread sample otherwise) ----
    allcases = [jc for g in w.groups.values() for (_c, jc) in g["cases"]]
    step = 1 if q else max(1, len(allcases) // 4000)
    for jc in allcases[::step]:
        try:
            v = judge(json.loads(json.dumps(jc, default=str)))
            okj = not v.get("violates")
        except Exception:  # noqa: BLE001
            okj = False
        w.contract("judge_accepts_clean_case", okj)
        if not okj and len(w.notes) < 5:
            w.notes.append(f"judge flags a generated case: kind={jc.get('kind')} detail={str(v.get('detail'))[:200] if 'v' in dir() else '?'}")

    _W["w"] = None
    return w.finish(
        rule="random circuits on 1..6 qubits over several registers/loose bits: 1-/2-/3-qubit gates (registry, KAK-path and unsupported "
        "ones), barriers of every span and qubit order, resets, cut_wire, move, measures into classical registers, pre-placed "
        "TwoQubitQPDGate / SingleQubitQPDGate; idle qubits; labels from a pool of exotic hashables incl. None, or automatic; Pauli "
        "lists (identity or not on dropped qubits); malformed streams (label/observable count mismatch, phases, clbits, spanning or "
        "None-labelled instructions, zero-qubit barrier, out-of-range gate ids). Streams: _split_barriers, _combine_barriers (arbitrary "
        "uuid arrangements), _partition_labels_from_circuit, _qubit_map_from_partition_labels, separate_circuit, "
        "partition_circuit_qubits, cut_gates, partition_problem, and partition_problem on circuits with nothing left to cut (all crossing "
        "gates pre-placed, one gate instance possibly at several positions, input handed over once or twice; the caller's gate "
        "labels are recorded before/after). distinct = distinct Coq case literal; non-trivial = successful call "
        "with >1 subcircuit / >0 cuts / a split or joined barrier")


# --------------------------------------------------------------------------------------------
# property-level oracle (independent of the Coq model; works on the canonical JSON forms)
# --------------------------------------------------------------------------------------------

def _norm(i, q=None):
    """comparable form of an instruction; barriers are compared per wire (their label is immaterial)."""
    if i["op"][0] == "barrier":
        return ("barrier", q)
    return (tuple(str(x) for x in i["op"]), tuple(i["qs"]), tuple(i["cs"]))


def _wires(n, circ):
    return [[_norm(i, q) for i in circ if q in i["qs"]] for q in range(n)]


def _back_map(subs, qmap, cl=None):
    """subcircuit instructions re-expressed on the original qubit indices, via qubit_map; subcircuits carry only the
    classical registers, so a clbit index is translated back through the list `cl` of register bits"""
    inv = {}
    for q, e in enumerate(qmap):
        if e is not None:
            inv[(e[0], e[1])] = q
    out = {}
    for l, nq, c in subs:
        out[l] = [dict(op=i["op"], qs=[inv[(l, x)] for x in i["qs"]], cs=[(cl[x] if cl is not None else x) for x in i["cs"]])
                  for i in c]
    return out


def _structure_checks(n, orig, labels_ids, subs, qmap, problems, cl=None):
    """orig: canonical circuit the subcircuits must recompose to; labels_ids: list of label id / None per qubit."""
    keys = [l for l, _, _ in subs]
    want_keys = []
    for l in labels_ids:
        if l is not None and l not in want_keys:
            want_keys.append(l)
    if sorted(map(str, keys)) != sorted(map(str, want_keys)) or len(set(keys)) != len(keys):
        problems.append(f"subcircuit keys {keys} are not the non-None labels {want_keys}")
        return
    # qubits of every subcircuit = that label's qubits in original order; qubit_map consistent
    for l, nq, c in subs:
        qs = [q for q in range(n) if labels_ids[q] == l]
        if nq != len(qs):
            problems.append(f"subcircuit {l} has {nq} qubits, label has {len(qs)}")
        for k, q in enumerate(qs):
            if qmap is not None and qmap[q] != [l, k]:
                problems.append(f"qubit_map[{q}] = {qmap[q]} but qubit {q} is the {k}-th qubit of label {l}")
    if qmap is None:  # partition_problem does not return one: it is determined by the labels
        cnt = {}
        qmap = []
        for l in labels_ids:
            if l is None:
                qmap.append(None)
            else:
                qmap.append([l, cnt.get(l, 0)])
                cnt[l] = cnt.get(l, 0) + 1
    else:
        if len(qmap) != n:
            problems.append("qubit_map has the wrong length")
        for q in range(n):
            if labels_ids[q] is None and qmap[q] is not None:
                problems.append(f"qubit {q} has label None but qubit_map says {qmap[q]}")
    if problems:
        return
    try:
        back = _back_map(subs, qmap, cl)
    except (KeyError, IndexError) as e:
        problems.append(f"a subcircuit uses a qubit index outside its qubit_map range: {e}")
        return
    # every instruction in exactly one subcircuit, per-wire order preserved (barriers per wire)
    W0 = _wires(n, orig)
    for q in range(n):
        l = labels_ids[q]
        got = [] if l is None else _wires(n, back[l])[q]
        if got != W0[q]:
            problems.append(f"wire {q}: recomposed sequence {got} differs from the original {W0[q]}")
    nb0 = sum(1 for i in orig if i["op"][0] != "barrier")
    nb1 = sum(1 for c in back.values() for i in c if i["op"][0] != "barrier")
    if nb0 != nb1:
        problems.append(f"{nb0} non-barrier instructions in the original, {nb1} in the subcircuits")
    # barriers re-joined per partition: each original barrier appears in a partition as ONE barrier on its qubits there
    for l, c in back.items():
        got = [tuple(i["qs"]) for i in c if i["op"][0] == "barrier"]
        want = []
        for i in orig:
            if i["op"][0] == "barrier":
                r = tuple(x for x in i["qs"] if labels_ids[x] == l)
                if r:
                    want.append(r)
        if sorted(got) != sorted(want):
            problems.append(f"partition {l}: barriers {got} but the original barriers restricted to it are {want}")
        # and in an order compatible with each wire (already checked per wire above)


_OPNAMES = dict(G1)
_OPNAMES.update(G2)
_OPNAMES.update(G3)


def _unitary_of(n, circ):
    """Operator of a canonical circuit made of plain gates and barriers only; None if it has anything else."""
    qc = QuantumCircuit(n)
    for i in circ:
        k = i["op"][0]
        if k == "barrier":
            continue
        if k != "gate" or i["op"][2] not in _OPNAMES:
            return None
        try:
            qc.append(_OPNAMES[i["op"][2]](*[float(p) for p in i["op"][3]]), i["qs"])
        except Exception:  # noqa: BLE001
            return None
    return Operator(qc)


def _operator_check(n, orig, labels_ids, subs, qmap, problems):
    if n > 5 or qmap is None:
        return "skipped"
    u0 = _unitary_of(n, orig)
    if u0 is None:
        return "skipped"
    back = _back_map(subs, qmap)
    rec = [i for l, _, _ in subs for i in back[l]]
    u1 = _unitary_of(n, rec)
    if u1 is None:
        problems.append("subcircuits contain operations the original does not")
        return "failed"
    if not np.allclose(u0.data, u1.data, atol=1e-9):
        problems.append("operator of the recomposed circuit differs from the original")
        return "failed"
    return "equal"


def _valid_separate_request(n, circ, labels_ids):
    if len(labels_ids) != n:
        return False, "label count differs from qubit count"
    for i in circ:
        ls = [labels_ids[q] for q in i["qs"]]
        if any(l is None for l in ls):
            return False, "an instruction acts on a None-labelled qubit"
        if i["op"][0] != "barrier" and len(set(map(str, ls))) > 1:
            return False, "an instruction spans several partitions"
        if len(i["qs"]) == 0:
            return False, "zero-qubit instruction"
    if any(i["op"][0] in ("measure",) for i in circ):
        pass
    return True, ""


def _components(n, circ, skip):
    edges = []
    for i in circ:
        if skip(i):
            continue
        for a in range(len(i["qs"])):
            for b in range(a + 1, len(i["qs"])):
                edges.append((i["qs"][a], i["qs"][b]))
    return _bfs_components(n, edges)


def _label_ids_of_case(case):
    if case.get("labels") is None:
        return None
    labels = [untag(t) for t in case["labels"]]
    lab = Labeller(labels)
    return [lab(l) for l in labels]


def judge(case):
    """never raises: an output the oracle cannot interpret is itself reported"""
    try:
        return _judge(case)
    except Exception as e:  # noqa: BLE001
        impl = case.get("impl") if isinstance(case, dict) else None
        return dict(violates=bool(impl) and impl[0] in ("ok", "crashed"),
                    detail=f"the recorded output could not be interpreted by the oracle ({type(e).__name__}: {str(e)[:160]}); "
                           f"outcome {impl[0] if impl else None}")


def _judge(case):
    k = case["kind"]
    impl = case["impl"]
    circ = case.get("circ")
    problems = []
    if k == "split":
        if impl[0] != "ok":
            bad = any(i["op"][0] == "barrier" and not i["qs"] for i in circ)
            return dict(violates=not bad, detail=f"_split_barriers failed: {impl}")
        n = nqubits(case["desc"])
        ok = _wires(n, circ) == _wires(n, impl[1]) and all(len(i["qs"]) == 1 for i in impl[1] if i["op"][0] == "barrier")
        return dict(violates=not ok, detail="per-wire sequences / one-qubit barriers after splitting")
    if k == "combine":
        n = nqubits(case["desc"])
        pos = {}
        for j, i in enumerate(circ):
            if i["op"][0] == "barrier" and i["op"][1] is not None and len(i["qs"]) == 1:
                pos.setdefault(i["op"][1], []).append(j)
        if any(v != list(range(v[0], v[0] + len(v))) for v in pos.values()):
            return dict(violates=False, detail="uuid groups not contiguous: never produced by separate_circuit; property silent")
        if impl[0] != "ok":
            return dict(violates=True, detail=f"_combine_barriers failed: {impl}")
        ok = _wires(n, circ) == _wires(n, impl[1])
        return dict(violates=not ok, detail="per-wire sequences after re-joining barriers")
    if k == "labels":
        n = nqubits(case["desc"])
        if impl[0] != "ok":
            return dict(violates=True, detail=f"_partition_labels_from_circuit failed: {impl}")
        out = impl[1]
        used = {q for i in circ for q in i["qs"]}
        if not case["keep_idle"]:
            for q in range(n):
                if (out[q] is None) != (q not in used):
                    problems.append(f"qubit {q}: label {out[q]} but idle={q not in used}")
        elif None in out:
            problems.append("keep_idle_wires=True but a qubit got None")
        return dict(violates=bool(problems), detail="; ".join(problems) or "idle qubits <-> None")
    if k == "qmap":
        if impl[0] != "ok":
            return dict(violates=True, detail=f"_qubit_map_from_partition_labels failed: {impl}")
        labels = [untag(t) for t in case["labels"]]
        lab = Labeller(labels)
        cnt = {}
        want = []
        for l in labels:
            if l is None:
                want.append(None)
            else:
                want.append([lab(l), cnt.get(l, 0)])
                cnt[l] = cnt.get(l, 0) + 1
        return dict(violates=want != impl[1], detail=f"want {want} got {impl[1]}")
    if k in ("pcq", "cut"):
        # helpers of partition_problem; the property speaks about them only through partition_problem.
        # A non-ValueError exception is a failure all the same (except the documented IndexError of a bad gate id).
        if impl[0] == "crashed" and not (k == "cut" and any(g >= len(circ) for g in case["ids"])):
            return dict(violates=True, detail=f"{k}: the call failed with a non-ValueError exception: {impl[1]}")
        return dict(violates=False, detail="helper function: no clause of the property text applies directly")
    n = nqubits(case["desc"])
    if k == "separate":
        lids = _label_ids_of_case(case)
        if lids is None:
            # automatic labelling is applied to the barrier-split circuit: barriers do not connect
            if any(len(i["qs"]) == 0 for i in circ):
                return dict(violates=False, detail="zero-qubit instruction; property silent")
            if impl[0] != "ok":
                loose = any(c not in sum(_cregs_of(case["desc"]), []) for i in circ for c in i["cs"])
                return dict(violates=not loose, detail=f"automatic separation failed: {impl}")
            qmap = impl[2]
            lids = [None if e is None else e[0] for e in qmap]
            used = {q for i in circ for q in i["qs"]}
            for q in range(n):
                if (lids[q] is None) != (q not in used):
                    problems.append(f"automatic labelling: qubit {q} dropped={lids[q] is None} but idle={q not in used}")
        else:
            valid, why = _valid_separate_request(n, circ, lids)
            if not valid:
                return dict(violates=False, detail=f"invalid request ({why}); property silent; outcome {impl[0]}")
            if impl[0] != "ok":
                loose = any(c not in sum(_cregs_of(case["desc"]), []) for i in circ for c in i["cs"])
                return dict(violates=not loose, detail=f"valid request failed: {impl}")
        subs, qmap = impl[1], impl[2]
        cl = []
        for r in _cregs_of(case["desc"]):
            cl.extend(x for x in r if x not in cl)
        _structure_checks(n, circ, lids, subs, qmap, problems, cl)
        opchk = "skipped"
        if not problems:
            opchk = _operator_check(n, circ, lids, subs, qmap, problems)
        return dict(violates=bool(problems), detail="; ".join(problems) or f"structure ok; operator check {opchk}")
    if k == "problem":
        return _judge_problem(case, n, problems)
    raise ValueError(k)


def _cregs_of(desc):
    out = []
    base = desc.get("loose_clbits", 0)
    for s in desc.get("cregs", []):
        out.append(list(range(base, base + s)))
        base += s
    return out


def _judge_problem(case, n, problems):
    """explicit labels: one reading.  Automatic labels: the property only says that exactly the idle qubits are dropped and
    that the result is a valid partition; both readings of 'connected' (barriers connecting or not) are accepted."""
    if _label_ids_of_case(case) is not None:
        return _judge_problem_with(case, n, [], True)
    v = _judge_problem_with(case, n, [], True)
    if v["violates"]:
        v2 = _judge_problem_with(case, n, [], False)
        if not v2["violates"]:
            return v2
    return v


def _qmap_from_lids(lids):
    cnt = {}
    qmap = []
    for l in lids:
        if l is None:
            qmap.append(None)
        else:
            qmap.append([l, cnt.get(l, 0)])
            cnt[l] = cnt.get(l, 0) + 1
    return qmap


def _align_cut_indices(n, exp, lids, gotsubs):
    """the property asks for 'two halves carrying the same cut index', not for a particular numbering: if the indices used
    in the subcircuits are a consistent renaming of the list-order numbering, rename them before comparing structure"""
    try:
        back = _back_map(gotsubs, _qmap_from_lids(lids))
    except (KeyError, IndexError):
        return gotsubs
    rec = [i for l, _, _ in gotsubs for i in back[l]]
    fwd, bwd = {}, {}
    for q in range(n):
        a = [i for i in exp if q in i["qs"]]
        b = [i for i in rec if q in i["qs"]]
        if len(a) != len(b):
            return gotsubs
        for x, y in zip(a, b):
            if x["op"][0] == "half" and y["op"][0] == "half":
                p, k = x["op"][2], y["op"][2]
                if fwd.setdefault(p, k) != k or bwd.setdefault(k, p) != p:
                    return gotsubs
    return [[l, nq, [dict(i, op=["half", i["op"][1], bwd.get(i["op"][2], i["op"][2])]) if i["op"][0] == "half" else i for i in c]]
            for l, nq, c in gotsubs]


def _judge_problem_with(case, n, problems, barriers_connect):
    impl, circ, obs = case["impl"], case["circ"], case["obs"]
    lids = _label_ids_of_case(case)
    auto = lids is None
    used = {q for i in circ for q in i["qs"]}
    # ---- is the request one the property speaks about? ----
    if nclbits(case["desc"]) or (lids is not None and len(lids) != n):
        return dict(violates=False, detail=f"invalid request (clbits / label count); outcome {impl[0]}")
    if obs is not None and any(len(o[1]) != n or o[0] != 0 for o in obs):
        return dict(violates=False, detail=f"invalid observables (size / phase); outcome {impl[0]}")
    if any(len(i["qs"]) == 0 for i in circ):
        return dict(violates=False, detail="zero-qubit instruction; property silent")
    if auto:
        # automatic labels: connectivity of everything except TwoQubitQPDGates (barriers count); idle -> None
        comps = sorted(_components(n, circ, lambda i: i["op"][0] == "qpd2" or (i["op"][0] == "barrier" and not barriers_connect)),
                       key=min)
        comps = [c for c in comps if not (len(c) == 1 and next(iter(c)) not in used)]
        lids = [None] * n
        for j, c in enumerate(comps):
            for q in c:
                lids[q] = j
    must_refuse = None
    for i in circ:
        ls = [lids[q] for q in i["qs"]]
        if any(l is None for l in ls):
            must_refuse = "an instruction acts on a None-labelled qubit"
        elif i["op"][0] != "barrier" and len(set(ls)) > 1 and len(i["qs"]) > 2:
            must_refuse = "a gate on more than two qubits spans partitions"
        elif i["op"][0] == "gate" and len(set(ls)) > 1 and i["op"][2] in ("rzz",) and any(isinstance(p, str) for p in i["op"][3]):
            must_refuse = "a gate with unbound parameters has to be cut"
    if must_refuse:
        return dict(violates=False, detail=f"request cannot be partitioned ({must_refuse}); outcome {impl[0]}")
    il = case.get("in_labels")
    if il is not None and il[0] != il[1]:
        problems.append(f"the call changed the labels of the caller's own gates: {il[0]} -> {il[1]}")
    idle_nonid = obs is not None and any(o[1][q] != 0 for o in obs for q in range(n) if lids[q] is None)
    if impl[0] != "ok":
        if impl[0] == "refused" and idle_nonid and not problems:
            return dict(violates=False, detail="observable acts on a dropped (idle) qubit: refusing with ValueError is allowed")
        if impl[0] == "refused" and idle_nonid:
            return dict(violates=True, detail="; ".join(problems))
        return dict(violates=True, detail="; ".join(problems + [f"valid request failed: {impl}"]))
    subs, bases, so = impl[1], impl[2], impl[3]
    # ---- expected circuit after cutting: spanning 2-qubit gates and pre-placed cut gates become two halves ----
    exp = []
    ncut = 0
    for i in circ:
        ls = {lids[q] for q in i["qs"]}
        if i["op"][0] == "qpd2" or (i["op"][0] in ("gate", "move") and len(i["qs"]) == 2 and len(ls) > 1):
            exp.append(dict(op=["half", 0, ncut], qs=[i["qs"][0]], cs=[]))
            exp.append(dict(op=["half", 1, ncut], qs=[i["qs"][1]], cs=[]))
            ncut += 1
        else:
            exp.append(i)
    if len(bases) != ncut:
        problems.append(f"{ncut} gates are cut but {len(bases)} bases returned")
    # the halves found in the subcircuits: suffix k, half h, basis b
    seen = {}
    gotsubs = []
    for l, nq, c in subs:
        cc = []
        for i in c:
            if i["op"][0] == "qpd1" and i["op"][4] is not None and i["op"][4][1] is not None and i["op"][4][1] < len(bases) \
                    and not _is_preplaced_qpd1(circ, i):
                _, b, h, bid, lbl = i["op"]
                seen.setdefault(lbl[1], []).append((h, b, bid, lbl[0]))
                cc.append(dict(op=["half", h, lbl[1]], qs=i["qs"], cs=i["cs"]))
            else:
                cc.append(i)
        gotsubs.append([l, nq, cc])
    for l, nq, c in subs:
        for i in c:
            if i["op"][0] == "qpd1" and not _is_preplaced_qpd1(circ, i) and (i["op"][4] is None or i["op"][4][1] is None
                                                                         or i["op"][4][1] >= len(bases)):
                problems.append(f"partition {l}: placeholder half {i['op']} on qubit {i['qs']} carries no valid cut index "
                                f"(label suffix {None if i['op'][4] is None else i['op'][4][1]}, {len(bases)} cuts)")
    for kidx in range(len(bases)):
        hs = seen.get(kidx, [])
        if sorted(h[0] for h in hs) != [0, 1]:
            problems.append(f"cut {kidx}: halves found {hs}")
        elif hs[0][1:] != hs[1][1:] or hs[0][1] != bases[kidx]:
            problems.append(f"cut {kidx}: halves {hs} do not carry the same basis/label, or differ from bases[{kidx}]={bases[kidx]}")
    if not problems:
        _structure_checks(n, exp, lids, _align_cut_indices(n, exp, lids, gotsubs), None, problems)
    # ---- sub-observables ----
    if obs is None or len(obs) == 0:  # `if observables:` — an empty collection yields no sub-observables
        if so is not None:
            problems.append("no observables given but sub-observables returned")
    else:
        if so is None:
            problems.append("observables given but no sub-observables returned")
        else:
            skeys = [kk for kk, _ in so]
            ckeys = [l for l, _, _ in subs]
            if sorted(map(str, skeys)) != sorted(map(str, ckeys)):
                problems.append(f"sub-observable keys {skeys} differ from subcircuit keys {ckeys}"
                                + _generation_note(case))
            # tensor product of the sub-observables over the returned subcircuits = original observable
            for j, o in enumerate(obs):
                rec = [0] * n
                for kk, v in so:
                    if kk == "none":
                        continue
                    qs = [q for q in range(n) if lids[q] == kk]
                    if len(v[j][1]) != len(qs) or v[j][0] != 0:
                        problems.append(f"sub-observable {kk}[{j}] has the wrong size/phase")
                        continue
                    for x, q in enumerate(qs):
                        rec[q] = v[j][1][x]
                if rec != o[1]:
                    problems.append(f"observable {j}: tensor product over the subcircuits {rec} differs from the original {o[1]}")
    return dict(violates=bool(problems), detail="; ".join(problems) or "cuts, structure, sub-observable keys and tensor product ok")


def _generation_note(case):
    """informative only: what the next pipeline stage does with the returned problem"""
    try:
        from qiskit_addon_cutting import generate_cutting_experiments
        labels = None if case["labels"] is None else [untag(t) for t in case["labels"]]
        r = partition_problem(build(case["desc"]), labels, mk_plist(case["obs"]))
        generate_cutting_experiments(r.subcircuits, r.subobservables, num_samples=4)
        return " (generate_cutting_experiments accepts it)"
    except Exception as e:  # noqa: BLE001
        return f" (generate_cutting_experiments on this result raises {type(e).__name__}: {str(e)[:60]})"


def _is_preplaced_qpd1(circ, i):
    return any(j["op"] == i["op"] for j in circ)


# --------------------------------------------------------------------------------------------
# replay
# --------------------------------------------------------------------------------------------

def rerun(case):
    """never raises: a failure to rebuild / re-execute is recorded as a crashed outcome"""
    try:
        return _rerun(case)
    except Exception as e:  # noqa: BLE001
        case["impl"] = ["crashed", f"{type(e).__name__}: {str(e)[:200]}"]
        return case


def _rerun(case):
    k = case["kind"]
    desc = case.get("desc")
    if k == "split":
        qc = build(desc)
        ctx = CircCtx()
        case["circ"] = ctx.canon_circuit(qc)
        new = qc.copy()
        r = canon_result(call_canon(_split_barriers, new), lambda _v: (ctx.canon_circuit(new),))
        case["impl"] = [r[0], r[1]]
    elif k == "combine":
        qc = build(desc)
        ctx = CircCtx()
        case["circ"] = ctx.canon_circuit(qc)
        new = qc.copy()
        r = canon_result(call_canon(_combine_barriers, new), lambda _v: (ctx.canon_circuit(new),))
        case["impl"] = [r[0], r[1]]
    elif k == "labels":
        qc = build(desc)
        kw = dict(keep_idle_wires=case["keep_idle"])
        if case["ignore_qpd2"]:
            kw["ignore"] = lambda inst: isinstance(inst.operation, TwoQubitQPDGate)
        case["circ"] = CircCtx().canon_circuit(qc)
        r = canon_result(call_canon(_partition_labels_from_circuit, qc, **kw), lambda v: (canon_auto_labels(v),))
        case["impl"] = [r[0], r[1]]
    elif k == "qmap":
        labels = [untag(t) for t in case["labels"]]
        lab = Labeller(labels)
        r = canon_result(call_canon(_qubit_map_from_partition_labels, labels), lambda v: (canon_qmap(lab, v[0]),))
        case["impl"] = [r[0], r[1]]
    elif k == "separate":
        labels = None if case["labels"] is None else [untag(t) for t in case["labels"]]
        qc, ctx, cin, lab, impl = run_separate(desc, labels, case.get("lform", "list"))
        case["circ"], case["impl"] = cin, impl
    elif k == "pcq":
        labels = [untag(t) for t in case["labels"]]
        qc = build(desc)
        ctx = CircCtx()
        case["circ"] = ctx.canon_circuit(qc)
        oracle_tables(ctx, qc, case["circ"])
        r = canon_result(call_canon(partition_circuit_qubits, qc, labels), lambda v: (ctx.canon_circuit(v),))
        case["impl"] = [r[0], r[1]]
    elif k == "cut":
        qc = build(desc)
        ctx = CircCtx()
        case["circ"] = ctx.canon_circuit(qc)
        oracle_tables(ctx, qc, case["circ"])
        r = canon_result(call_canon(cut_gates, qc, case["ids"]),
                         lambda v: ([ctx.canon_circuit(v[0]), [ctx.basis_id(b) for b in v[1]]],))
        case["impl"] = [r[0], r[1]]
    elif k == "problem":
        labels = None if case["labels"] is None else [untag(t) for t in case["labels"]]
        hist = {}
        qc, ctx, cin, tables, lab, impl = run_problem(desc, labels, case["obs"], case.get("calls", 1), hist,
                                                      case.get("lform", "list"), case.get("oform", "PauliList"))
        case["circ"], case["impl"] = cin, impl
        case.update(hist)
    else:
        raise ValueError(k)
    return case


# --------------------------------------------------------------------------------------------
# known-finding witnesses (driver.py witness c10 --name F4)
# --------------------------------------------------------------------------------------------

def witness(name):
    """F4: 3 qubits, h 0; cx 0 1, automatic labels, observable IZZ -> sub-observables carry the key None."""
    if name in ("F16", "C10-F16"):
        # pre-placed cut gate whose definition was read before the call: halves come out without the cut index
        desc = dict(qregs=[["reg", 3]], cregs=[], loose_clbits=0, predef=[1],
                    items=[["g", "h", [], [0]], ["qpd2", ["cx", []], None, "cut_cx", [1, 2]], ["g", "cx", [], [0, 1]]])
        case = rerun(dict(kind="problem", desc=desc, labels=[tagged(x) for x in "AAB"], obs=[[0, [3, 3, 3]]]))
        v = judge(case)
        return dict(fails=bool(v["violates"]), detail=v["detail"])
    if name not in ("F4", "C10-F4"):
        return dict(fails=None, detail=f"unknown witness {name}")
    desc = dict(qregs=[["reg", 3]], cregs=[], loose_clbits=0, items=[["g", "h", [], [0]], ["g", "cx", [], [0, 1]]])
    case = rerun(dict(kind="problem", desc=desc, labels=None, obs=[[0, [3, 3, 0]]]))
    v = judge(case)
    return dict(fails=bool(v["violates"]), detail=v["detail"])

"""C16 correspondence: the copy discipline of the public functions  vs  Model/Heap.v.

For every generated input the harness
  * builds the abstract heap of the MUTABLE objects reachable from the arguments (circuits, instruction objects with a
    stable Python identity, QPD bases, their slot lists and mutable gate objects, PauliLists, result objects),
  * takes deep structural snapshots of all arguments before / after the call                      -> changed
  * computes the REAL alias relation (by id(), arrays by np.shares_memory) between the objects reachable from the
    arguments before the call and those reachable from the result, and between the results of two calls  -> io, oo
    (reported as the number of alias ROOTS per kind: circuit, operation, basis, list, paulilist, result, other),
  * applies destructive edits to every mutable part of the second result and re-snapshots the arguments, the first
    result and the result of a third call                                                              -> edit effects.
The Coq checker evaluates the heap model on the abstract heap and compares (changed, io, oo).

Known sharing classes (the unchanged tree shows them; see KNOWN_FINDINGS.json):
  F6  circuit.copy() in cutting_decomposition.py shares the basis of pre-placed QPD gates with the result
  F10 cut_wires stores the input's operation objects in the new circuit
  F11 operations of basis.maps are stored in decomposed circuits / subexperiments without a copy
  F19 separate_circuit: circuit.copy() shares the basis of pre-placed QPD gates with the subcircuits
  F20 ndarray parameters (UnitaryGate matrix) are shared by Qiskit's instruction copy in every copying entry point
  F21 an EMPTY cached definition circuit is shared by Qiskit's instruction copy
  (F20 / F21 concern attributes the heap model does not represent: the roots satisfying the class predicate are removed
   from the compared observation and recorded in the case; a case may carry several classes, all must be listed)
A case whose ONLY deviations from the property belong to one class X that is listed (status "known", property C16)
in KNOWN_FINDINGS.json is tagged known_class=X and emitted in the separate group "<entry>__known_X", whose checker
compares with the model of the CURRENT (sharing) behaviour; every other case is compared with the model of the
behaviour the property demands (no sharing), so any other alias - or a listed one disappearing from the list - alarms.
"""
from __future__ import annotations

import enum
import itertools
import json
import os
from fractions import Fraction

import numpy as np
from qiskit.circuit import QuantumCircuit, Qubit, Clbit, Register, Instruction
from qiskit.circuit.library import CXGate, RZZGate, RZXGate, SwapGate, CZGate, RYYGate, CRXGate
from qiskit.quantum_info import PauliList, Pauli

from qiskit_addon_cutting import (
    partition_problem, cut_wires, expand_observables, find_cuts, generate_cutting_experiments,
    reconstruct_expectation_values, OptimizationParameters, DeviceConstraints,
)
from qiskit_addon_cutting.cutting_decomposition import partition_circuit_qubits, cut_gates
from qiskit_addon_cutting.instructions import CutWire, Move
from qiskit_addon_cutting.qpd import (QPDBasis, TwoQubitQPDGate, SingleQubitQPDGate, decompose_qpd_instructions,
                                      generate_qpd_weights)
from qiskit_addon_cutting.utils.transforms import separate_circuit, _partition_labels_from_circuit, _split_barriers
from qiskit_addon_cutting.qpd.instructions import BaseQPDGate
from qiskit_addon_cutting.utils.observable_grouping import ObservableCollection
from qiskit_addon_cutting.utils.simulation import ExactSampler

from common import CaseWriter, Raw, Interner, coq, Qc, tagged

IMPORTS = ("From Coq Require Import QArith.\nFrom CKT Require Import Common.Base Model.Heap Corr.C16Corr.\n"
           "Close Scope Q_scope.")
CASE_TY = "heap * call * (bool * list nat * list nat)"
ROOT = os.path.dirname(os.path.dirname(os.path.abspath(__file__)))
KINDS = ["circuit", "operation", "basis", "list", "paulilist", "result", "other"]
F6_ENTRIES = ("pcq", "cut_gates", "partition_problem", "find_cuts")
F10_ENTRIES = ("cut_wires",)
F11_ENTRIES = ("generate", "dqi")
F19_ENTRIES = ("separate",)
# entry points that hand out instruction objects made by QuantumCircuit.copy() / Instruction.copy()
COPY_ENTRIES = ("pcq", "cut_gates", "partition_problem", "find_cuts", "separate", "dqi", "generate")
ALL_CLASSES = ("F6", "F10", "F11", "F19", "F20", "F21")


def known_classes():
    """ids of the C16 findings listed as known (read-only lookup)."""
    try:
        # C16_KNOWN_FINDINGS: test hook naming another findings file (used to check that an unlisted class alarms)
        kf = json.load(open(os.environ.get("C16_KNOWN_FINDINGS") or os.path.join(ROOT, "KNOWN_FINDINGS.json")))
    except Exception:  # noqa: BLE001
        return set()
    return {e.get("id") for e in kf.get("findings", [])
            if e.get("property") == "C16" and e.get("status") == "known" and e.get("id") in ALL_CLASSES}


# ----------------------------------------------------------------------------------------------
# identity walk
# ----------------------------------------------------------------------------------------------
IMMUT = (int, float, complex, str, bytes, bool, type(None), Qubit, Clbit, Register, np.generic, frozenset, range)


def is_mutable_op(op):
    return isinstance(op, Instruction) and bool(getattr(op, "mutable", True))


def stable_op(qc, k):
    """the Python operation object of instruction k if it has a stable identity and is mutable, else None."""
    o1 = qc.data[k].operation
    o2 = qc.data[k].operation
    if o1 is o2 and is_mutable_op(o1):
        return o1
    return None


class Walk:
    """id()-graph of the mutable objects reachable from the roots."""

    def __init__(self):
        self.nodes = {}    # id -> (kind, obj)
        self.parents = {}  # id -> set(parent ids)
        self.arrays = []
        self.roots = []
        self.hints = {}    # id -> role of a list ("coeffs", "maps", "map-slot", ...)
        self.param_arrays = set()   # ids of ndarrays that are elements of an instruction's params list
        self.def_circuits = set()   # ids of circuits that are the cached `_definition` of an instruction

    def _add(self, obj, kind, parent):
        i = id(obj)
        ps = self.parents.setdefault(i, set())
        if parent is None:
            self.roots.append(i)
        else:
            ps.add(parent)
        if i in self.nodes:
            return False
        self.nodes[i] = (kind, obj)
        return True

    def visit(self, obj, parent=None, hint=None):
        if isinstance(obj, IMMUT) or isinstance(obj, (type, enum.Enum)):
            return
        if isinstance(obj, tuple):
            for x in obj:
                self.visit(x, parent, hint)
            return
        if isinstance(obj, np.ndarray):
            if hint:
                self.hints.setdefault(id(obj), hint)
            if self._add(obj, "array", parent):
                self.arrays.append(obj)
            return
        if isinstance(obj, QuantumCircuit):
            if not self._add(obj, "circuit", parent):
                return
            for k in range(len(obj.data)):
                o = stable_op(obj, k)
                if o is not None:
                    self.visit(o, id(obj), "operation")
            md = getattr(obj, "metadata", None)
            if md:
                self.visit(md, id(obj), "metadata")
            return
        if isinstance(obj, QPDBasis):
            if not self._add(obj, "basis", parent):
                return
            self.visit(obj._maps, id(obj), "maps")
            self.visit(obj._coeffs, id(obj), "coeffs")
            self.visit(getattr(obj, "_probabilities", None), id(obj), "probabilities")
            return
        if isinstance(obj, Instruction):
            if not is_mutable_op(obj):
                return
            if not self._add(obj, "operation", parent):
                return
            for p_ in obj._params:
                if isinstance(p_, np.ndarray):
                    self.param_arrays.add(id(p_))
            self.visit(obj._params, id(obj), "params")
            if isinstance(obj, BaseQPDGate):
                self.visit(obj._basis, id(obj))
            # the cached definition (also an empty one: Instruction.__deepcopy__ copies the definition only
            # `if self._definition:` and an empty QuantumCircuit is falsy, so Qiskit shares it with every copy - F21)
            d = getattr(obj, "_definition", None)
            if isinstance(d, QuantumCircuit):
                self.def_circuits.add(id(d))
                self.visit(d, id(obj))
            return
        if isinstance(obj, (PauliList, Pauli)):
            if not self._add(obj, "paulilist", parent):
                return
            for a in (obj._z, obj._x, obj._phase):
                self.visit(a, id(obj))
            return
        if isinstance(obj, list):
            if hint:
                self.hints.setdefault(id(obj), hint)
            if not self._add(obj, "list", parent):
                return
            for x in obj:
                self.visit(x, id(obj), "map-slot" if hint == "maps" else None)
            return
        if isinstance(obj, dict):
            if not self._add(obj, "list", parent):
                return
            for x in obj.values():
                self.visit(x, id(obj))
            return
        if not self._add(obj, "result", parent):
            return
        d = getattr(obj, "__dict__", None)
        if d:
            for v in d.values():
                self.visit(v, id(obj))
        for s in getattr(type(obj), "__slots__", ()):
            if hasattr(obj, s):
                self.visit(getattr(obj, s), id(obj))


def walk(*roots):
    w = Walk()
    for r in roots:
        w.visit(r)
    return w


ROLE = {}   # id(object) -> role of a shared list / array (for the report only)


def root_names(roots):
    return [[k, ROLE.get(id(o)) or getattr(o, "name", type(o).__name__)] for k, o in roots][:12]


def alias_roots(win, wout):
    """[(kind, obj)] of the shared objects that are result roots or are referenced by a non-shared result object;
    plus arrays of the result that share memory with a different array of the arguments (kind by owner)."""
    shared = set(win.nodes) & set(wout.nodes)
    roots = []
    for i in shared:
        ps = wout.parents.get(i, set())
        if i in wout.roots or any(p not in shared for p in ps):
            k, o = wout.nodes[i]
            ROLE[id(o)] = wout.hints.get(i) or win.hints.get(i)
            roots.append((k, o))
    for a in wout.arrays:
        if id(a) in shared:
            continue
        for b in win.arrays:
            if a is not b and np.shares_memory(a, b):
                owner = "other"
                for p in wout.parents.get(id(a), ()):
                    owner = wout.nodes[p][0] if wout.nodes[p][0] == "paulilist" else owner
                roots.append((owner if owner == "paulilist" else "array", a))
                break
    return roots


def kind_counts(roots):
    c = [0] * len(KINDS)
    for k, _ in roots:
        c[KINDS.index(k) if k in KINDS[:-1] else len(KINDS) - 1] += 1
    return c


# ----------------------------------------------------------------------------------------------
# structural snapshots
# ----------------------------------------------------------------------------------------------
def _pkey(p):
    if isinstance(p, np.ndarray):
        return ["nd", list(p.shape), p.tobytes().hex()[:2048]]
    try:
        f = float(p)
        fr = Fraction(f)
        return ["f", str(fr.numerator), str(fr.denominator)]
    except Exception:  # noqa: BLE001
        return ["r", repr(p)[:80]]


def snap_op(op, uu):
    lbl = getattr(op, "label", None)
    if isinstance(lbl, str) and lbl.startswith("_uuid="):
        lbl = "_uuid#%d" % uu(lbl)
    d = [type(op).__name__, op.name, op.num_qubits, [_pkey(p) for p in op.params], lbl]
    if isinstance(op, BaseQPDGate):
        d.append(["qpd", op.basis_id, getattr(op, "_qubit_id", None), snap_basis(op.basis, uu)])
        # the cached definition of a placeholder (None until `.definition` has been read)
        dfn = getattr(op, "_definition", None)
        d.append(["def", snap(dfn, uu) if isinstance(dfn, QuantumCircuit) else None])
    return d


def snap_basis(b, uu):
    return [[[[snap_op(o, uu) for o in lst] for lst in m] for m in b.maps], [_pkey(c) for c in b.coeffs],
            [_pkey(c) for c in np.asarray(b.probabilities).ravel()], _pkey(b.kappa)]


NAMES = [False]     # snapshots of ARGUMENTS also record circuit names (results get fresh automatic names on every call)


def snap_args(x):
    NAMES[0] = True
    try:
        return snap(x)
    finally:
        NAMES[0] = False


def snap(x, uu=None):
    uu = uu or Interner()
    if isinstance(x, QuantumCircuit):
        # quantum register NAMES are not compared: QuantumRegister(bits=...) draws them from a process-wide counter
        return ["qc", x.num_qubits, x.num_clbits, [r.size for r in x.qregs], [[r.name, r.size] for r in x.cregs],
                [[snap_op(i.operation, uu), [x.find_bit(q).index for q in i.qubits], [x.find_bit(c).index for c in i.clbits]]
                 for i in x.data],
                _pkey(x.global_phase), repr(sorted((x.metadata or {}).items(), key=repr))[:200], (x.name if NAMES[0] else None)]
    if isinstance(x, QPDBasis):
        return ["basis", snap_basis(x, uu)]
    if isinstance(x, PauliList):
        return ["pl", [int(p) for p in x.phase], x.z.astype(int).tolist(), x.x.astype(int).tolist()]
    if isinstance(x, dict):
        return ["dict", [[repr(k), snap(v, uu)] for k, v in x.items()]]
    if isinstance(x, (list, tuple)):
        return [type(x).__name__ if isinstance(x, tuple) and hasattr(x, "_fields") else "seq", [snap(v, uu) for v in x]]
    if isinstance(x, (float, np.floating)):
        return _pkey(x)
    if isinstance(x, (int, str, bool, type(None), np.integer)):
        return ["v", repr(x)]
    if type(x).__name__ == "PrimitiveResult":
        out = []
        for pub in x:
            out.append([[k, list(v.array.shape), v.array.tobytes().hex()[:512], v.num_bits] for k, v in pub.data.items()])
        return ["primitive-result", out, repr(x.metadata)[:200]]
    if hasattr(x, "quasi_dists"):
        # the outcome keys are recorded AS SPELLED (type and text: 3, '0b011', '011', '0x3' are different keys of the caller's
        # mapping), together with the mapping's type; the order of the keys is not compared
        return ["sampler-result", [[type(q).__name__, sorted([type(k).__name__, repr(k), _pkey(v)] for k, v in q.items())]
                                   for q in x.quasi_dists], repr(x.metadata)[:200]]
    if isinstance(x, Instruction):
        return snap_op(x, uu)
    return ["r", repr(x)[:120]]


# ----------------------------------------------------------------------------------------------
# destructive edits of a result
# ----------------------------------------------------------------------------------------------
def destroy(out):
    """edit every mutable part reachable from `out` (objects first, containers last)."""
    w = walk(out)
    n = 0
    items = list(w.nodes.values())
    for kind, o in items:
        if kind == "operation":
            try:
                o.label = "hacked"
                n += 1
            except Exception:  # noqa: BLE001
                pass
            if isinstance(o, BaseQPDGate):
                try:
                    o.basis_id = 1 if o.basis_id != 1 else 0
                    n += 1
                except Exception:  # noqa: BLE001
                    pass
            try:
                if len(o.params) and not isinstance(o.params[0], np.ndarray):
                    o.params[0] = 0.123
                    n += 1
            except Exception:  # noqa: BLE001
                pass
    for kind, o in items:
        if kind == "array" and o.flags.writeable:
            try:
                if o.dtype == bool:
                    np.logical_not(o, out=o)
                else:
                    o += 1
                n += 1
            except Exception:  # noqa: BLE001
                pass
    for kind, o in items:
        if kind == "basis":
            try:
                if isinstance(o._coeffs, list):          # basis.coeffs[k] = v  (in place)
                    for k in range(len(o._coeffs)):
                        o._coeffs[k] = -7.0
                    n += 1
            except Exception:  # noqa: BLE001
                pass
            try:
                o.coeffs = [float(c) * 3.0 + 1.0 for c in o.coeffs]   # basis.coeffs = [...]  (setter)
                n += 1
            except Exception:  # noqa: BLE001
                pass
    for kind, o in items:
        if kind == "circuit":
            try:
                if len(o.data):
                    del o.data[0]
                    n += 1
            except Exception:  # noqa: BLE001
                pass
            try:
                o.metadata["hacked"] = 1
                o.global_phase = 0.5
                o.name = "hacked"
                n += 1
            except Exception:  # noqa: BLE001
                pass
    for kind, o in items:
        if kind == "list":
            try:
                o.clear()
                n += 1
            except Exception:  # noqa: BLE001
                pass
    return n


# ----------------------------------------------------------------------------------------------
# abstract heap of the arguments
# ----------------------------------------------------------------------------------------------
def copt(v):
    return "None" if v is None else f"(Some {v})"


class HeapBuilder:
    def __init__(self):
        self.objs = []   # Coq literals
        self.addr = {}   # key -> address
        self.labels = Interner()
        self.keep = []

    def _alloc(self, key, lit):
        self.addr[key] = len(self.objs)
        self.objs.append(lit)
        return self.addr[key]

    def leaf_op(self, o):
        if id(o) in self.addr:
            return self.addr[id(o)]
        self.keep.append(o)
        if o.name == "qpd_measure":
            return self._alloc(id(o), "OOp KMeas 0 None None")
        return self._alloc(id(o), "OOp KPy 0 None None")

    def lst(self, l):
        if id(l) in self.addr:
            return self.addr[id(l)]
        self.keep.append(l)
        items = [self.leaf_op(o) for o in l if is_mutable_op(o)]
        return self._alloc(id(l), f"OList {coq(items)}")

    def basis(self, b):
        if id(b) in self.addr:
            return self.addr[id(b)]
        self.keep.append(b)
        slots = []
        for m in b.maps:
            assert len(m) == 2
            for l in m:
                slots.append(self.lst(l))
        co = "[" + "; ".join(coq(Qc(Fraction(float(c)))) for c in b.coeffs) + "]"
        return self._alloc(id(b), f"OBasis {coq(slots)} {co}")

    def op(self, o):
        if id(o) in self.addr:
            return self.addr[id(o)]
        self.keep.append(o)
        lbl = self.labels(o.label) + 1
        if isinstance(o, TwoQubitQPDGate):
            b = self.basis(o.basis)
            return self._alloc(id(o), f"OOp KQpd2 {lbl} {copt(o.basis_id)} (Some {b})")
        if isinstance(o, SingleQubitQPDGate):
            b = self.basis(o.basis)
            return self._alloc(id(o), f"OOp (KQpd1 {o.qubit_id}) {lbl} {copt(o.basis_id)} (Some {b})")
        if isinstance(o, CutWire):
            return self._alloc(id(o), f"OOp KCutWire {lbl} None None")
        return self._alloc(id(o), f"OOp KPy {lbl} None None")

    def circuit(self, qc):
        if id(qc) in self.addr:
            return self.addr[id(qc)]
        self.keep.append(qc)
        ops = []
        for k in range(len(qc.data)):
            o = stable_op(qc, k)
            if o is None:
                ops.append(self._alloc(("native", id(qc), k), "OOp KNative 0 None None"))
            else:
                ops.append(self.op(o))
        return self._alloc(id(qc), f"OCirc {coq(ops)} {len(qc.cregs)}")

    def pauli(self, pl):
        if id(pl) in self.addr:
            return self.addr[id(pl)]
        self.keep.append(pl)
        data = [int(a) + 2 * int(b) for za, xa in zip(pl.z, pl.x) for a, b in zip(za, xa)]
        return self._alloc(id(pl), f"OPauli {coq(data[:40])}")

    def result(self, r):
        if id(r) in self.addr:
            return self.addr[id(r)]
        self.keep.append(r)
        return self._alloc(id(r), f"OResult [{len(getattr(r, 'quasi_dists', []))}]")

    def plain_list(self, l):
        self.keep.append(l)
        return self._alloc(id(l), "OResult []")

    def heap(self):
        return Raw("[" + "; ".join(self.objs) + "]")


# ----------------------------------------------------------------------------------------------
# generators: a case is a JSON description from which the Python inputs are (re)built exactly
# ----------------------------------------------------------------------------------------------
LABEL_POOL = ["A", "B", "C", 0, 1, "foo", (1, 2)]
GATE_CLS = {"cx": CXGate, "rzz": RZZGate, "rzx": RZXGate, "swap": SwapGate, "cz": CZGate, "ryy": RYYGate, "crx": CRXGate}
CUTTABLE = set(GATE_CLS) | {"unitary"}    # a UnitaryGate (matrix with a global phase, det != 1) is cut through the KAK path
# UnitaryGate instructions in INPUT circuits: QuantumCircuit.copy() / Instruction.copy() copy the params LIST but not an
# ndarray inside it, so every copying entry point shares the matrix with its result (known finding F20).  The heap model
# has no ndarray parameters; the roots that satisfy the F20 predicate are taken out of the compared observation.
WITH_UNITARY = True     # on by default: the array sharing it exposes is the known finding F20
GATE_CLS["unitary"] = lambda: __import__("qiskit.circuit.library", fromlist=["UnitaryGate"]).UnitaryGate(np.exp(0.3j) * RZXGate(0.375).to_matrix())
BIG_SRC = ["swap", "rzx", "ryy", "crx"]       # bases with non-singleton gate objects (and 58 maps for swap / rzx)
SMALL_SRC = ["cx", "rzz", "cz"]               # 6-map bases of singleton gates only


SPECIAL_ANGLES = [np.pi, 2 * np.pi, -np.pi, 3 * np.pi, 4 * np.pi, np.pi * (1 + 2.0 ** -40), 2 * np.pi * (1 - 2.0 ** -42), np.pi / 2]


def _angle(rng):
    """dyadic angles, and (one in four) special ones: multiples of pi / 2 pi and neighbours, where a QPD basis has NONZERO
    coefficients far below the 1e-14 cut-off (RZZ(pi): 3.7e-33 and 6.1e-17) - derived fields such as basis.probabilities
    are then sensitive to in-place clean-ups"""
    if rng.random() < 0.25:
        return float(SPECIAL_ANGLES[int(rng.integers(0, len(SPECIAL_ANGLES)))])
    return float(rng.integers(1, 8)) / 8.0


def _params_for(name, rng):
    return [_angle(rng)] if name in ("rzz", "rzx", "ryy", "crx") else []


def insert_desc_op(ops, pos, op):
    """insert an instruction description, keeping the references to earlier pre-placed gates pointing at the same gates"""
    ops.insert(pos, op)
    for o in ops:
        for key in ("share", "same"):
            if key in o and o[key] >= pos:
                o[key] += 1


def rand_desc(rng, nq, ngates, p_pre=0.3, p_py=0.2, p_cw=0.0, barriers=True, srcs=None, hist=True, nc=0):
    """2-4 qubits; cx / rzz / swap made natively, some gates appended as Python objects, optional pre-placed
    TwoQubitQPDGate instances (sometimes two gates sharing ONE basis object), CutWire markers, a barrier."""
    srcs = srcs or (SMALL_SRC + BIG_SRC)
    ops = []
    last_pre = None
    for _ in range(ngates):
        r = rng.random()
        if r < 0.25 or nq < 2:
            ops.append(dict(g=["h", "x", "s", "rx"][int(rng.integers(0, 4))], q=[int(rng.integers(0, nq))]))
            if ops[-1]["g"] == "rx":
                ops[-1]["p"] = [0.25]
            continue
        a, b = (int(x) for x in rng.permutation(nq)[:2])
        r = rng.random()
        if r < p_pre:
            if last_pre is not None and rng.random() < 0.3:
                # another gate on the same basis object, or (history) the very same gate OBJECT appended again
                ops.append(dict(g="qpd_2q", q=[a, b], **({"same": last_pre} if hist and rng.random() < 0.4 else {"share": last_pre})))
            else:
                name = srcs[int(rng.integers(0, len(srcs)))]
                ops.append(dict(g="qpd_2q", q=[a, b], src=name, p=_params_for(name, rng)))
                last_pre = len(ops) - 1
                if hist and rng.random() < 0.35:      # history: a map id was already selected on the pre-placed gate
                    ops[-1]["bid"] = int(rng.integers(0, 6))
                # history: `.definition` of the gate was read (and cached) before the call.  For a KAK-path gate with a
                # selected map the cached definition holds UnitaryGate objects; circuit.copy() deep-copies the cached
                # definition and shares the matrix arrays (second route of F20); an empty cached definition is shared (F21)
                if hist and rng.random() < 0.35:
                    ops[-1]["read_def"] = True
        elif r < p_pre + p_py:
            name = ["rzx", "rzz"][int(rng.integers(0, 2))]
            if WITH_UNITARY and rng.random() < 0.35:
                name = "unitary"
            ops.append(dict(g=name, q=[a, b], p=_params_for(name, rng), py=True))
        else:
            name = ["cx", "rzz", "swap"][int(rng.integers(0, 3))]
            ops.append(dict(g=name, q=[a, b], p=_params_for(name, rng)))
        if p_cw and rng.random() < p_cw:
            ops.append(dict(g="cut_wire", q=[int(rng.integers(0, nq))]))
    if barriers and nq >= 2 and rng.random() < 0.2:
        ops.append(dict(g="barrier", q=list(range(nq))))
    if nc:
        for _ in range(int(rng.integers(1, 3))):
            insert_desc_op(ops, int(rng.integers(0, len(ops) + 1)),
                           dict(g="measure", q=[int(rng.integers(0, nq))], c=[int(rng.integers(0, nc))]))
        return dict(nq=nq, nc=nc, ops=ops)
    return dict(nq=nq, ops=ops)


def build_circuit(d):
    qc = QuantumCircuit(d["nq"], d.get("nc", 0), metadata={"origin": ["c16", d["nq"]]}, global_phase=0.25)
    made = {}
    for k, o in enumerate(d["ops"]):
        g, q, p = o["g"], o["q"], o.get("p", [])
        if g == "qpd_2q":
            if "same" in o:
                gate = made[o["same"]]
            elif "share" in o:
                gate = TwoQubitQPDGate(made[o["share"]].basis, label="cut_again", basis_id=o.get("bid"))
            else:
                gate = TwoQubitQPDGate.from_instruction(GATE_CLS[o["src"]](*p))
                if o.get("bid") is not None:
                    gate.basis_id = o["bid"]
            made[k] = gate
            qc.append(gate, q)
            if o.get("read_def"):
                _ = gate.definition
                _ = [i.operation.definition for i in gate.definition.data if gate.definition is not None]
        elif g == "measure":
            qc.measure(q[0], o["c"][0])
        elif g == "cut_wire":
            qc.append(CutWire(), q)
        elif g == "barrier":
            qc.barrier(*q)
        elif o.get("py"):
            qc.append(GATE_CLS[g](*p), q)          # keeps the Python gate object
        else:
            getattr(qc, g)(*p, *q)                 # made natively by the circuit method
    return qc


def rand_labels(rng, nq):
    nl = int(rng.integers(1, min(3, nq) + 1))
    pool = [LABEL_POOL[i] for i in rng.permutation(len(LABEL_POOL))[:nl]]
    return [pool[int(rng.integers(0, nl))] for _ in range(nq)]


def rand_obs(rng, nq, k=None):
    k = k or int(rng.integers(1, 3))
    return ["".join("IXYZ"[int(rng.integers(0, 4))] for _ in range(nq)) for _ in range(k)]


def spans_of(qc, labels):
    out = []
    for inst in qc.data:
        qs = [qc.find_bit(q).index for q in inst.qubits]
        ls = []
        for q in qs:
            if labels[q] not in ls:
                ls.append(labels[q])
        out.append(inst.operation.name != "barrier" and len(qs) == 2 and len(ls) == 2)
    return out


def sides_of(qc, labels):
    li = Interner()
    for l in labels:
        li(l)
    out = []
    for inst in qc.data:
        qs = [qc.find_bit(q).index for q in inst.qubits]
        a = li(labels[qs[0]])
        b = li(labels[qs[1]]) if len(qs) >= 2 and inst.operation.name != "barrier" else a
        out.append((a, b))
    return out, len(li.d)


def two_q_plain_ids(qc):
    return [k for k, i in enumerate(qc.data) if len(i.qubits) == 2 and i.operation.name in CUTTABLE]


# ----------------------------------------------------------------------------------------------
# examination of one call
# ----------------------------------------------------------------------------------------------
class Refusal(Exception):
    pass


class Crash(Exception):
    pass


def guarded(f, *a):
    """run an implementation call: ValueError -> Refusal, anything else -> Crash."""
    try:
        return f(*a)
    except ValueError as e:
        raise Refusal(str(e)[:200])
    except Exception as e:  # noqa: BLE001
        raise Crash(f"{type(e).__name__}: {str(e)[:160]}")


PROBE_GATES = [("cx", []), ("cy", []), ("cz", []), ("ch", []), ("ecr", []), ("rzz", [0.375]), ("rxx", [0.375]), ("crx", [0.5]),
               ("cp", [0.5]), ("cs", []), ("csx", []), ("swap", []), ("iswap", []), ("dcx", []), ("rzx", [0.25])]


def probe():
    """Outcome of calls on brand-new inputs: a basis from every gate family, the Move basis, and one small
    cut -> partition -> generate pipeline.  Compared with the value computed at the very start of the process
    (before any destructive edit) to see whether edits of results leak into later, independent calls."""
    import qiskit.circuit.library as lib
    out = []
    for name, params in PROBE_GATES:
        try:
            cls = {"cx": lib.CXGate, "cy": lib.CYGate, "cz": lib.CZGate, "ch": lib.CHGate, "ecr": lib.ECRGate,
                   "rzz": lib.RZZGate, "rxx": lib.RXXGate, "crx": lib.CRXGate, "cp": lib.CPhaseGate, "cs": lib.CSGate,
                   "csx": lib.CSXGate, "swap": lib.SwapGate, "iswap": lib.iSwapGate, "dcx": lib.DCXGate, "rzx": lib.RZXGate}[name]
            out.append([name, snap(QPDBasis.from_instruction(cls(*params)))])
        except Exception as e:  # noqa: BLE001
            out.append([name, "error " + type(e).__name__ + ": " + str(e)[:80]])
    try:
        out.append(["move", snap(QPDBasis.from_instruction(Move()))])
        qc = QuantumCircuit(2)
        qc.h(0)
        qc.cx(0, 1)
        qc.cz(0, 1)
        pp = partition_problem(qc, "AB", PauliList(["ZZ"]))
        ex, co = generate_cutting_experiments(pp.subcircuits, pp.subobservables, np.inf)
        out.append(["pipeline", snap([pp.subcircuits, pp.bases, ex, co])])
    except Exception as e:  # noqa: BLE001
        out.append(["pipeline", "error " + type(e).__name__ + ": " + str(e)[:80]])
    return out


PROBE_REF = None     # set at the start of generate / rerun, before any destructive edit, inherited by the forked workers


def probe_diff():
    if PROBE_REF is None:
        return None
    now = probe()
    bad = [a[0] for a, b in zip(now, PROBE_REF) if a != b]
    return bad


def examine(inputs, call, outs_of, inplace, fresh_inputs=None):
    """Run the protocol; `call(inputs)` executes the public function; `outs_of(result)` lists the result objects."""
    s0 = snap_args(inputs)
    s0_other = snap_args(inputs[1:])
    win = walk(inputs)
    out1 = guarded(call, inputs)
    changed = snap_args(inputs) != s0
    changed_other = snap_args(inputs[1:]) != s0_other      # any argument besides the first (the circuit) modified
    w1 = walk(outs_of(out1))
    io = alias_roots(win, w1)
    rec = dict(changed=changed, changed_other=changed_other, io=kind_counts(io), io_roots=io, win=win)
    if inplace:
        rec.update(oo=[0] * len(KINDS), oo_roots=[], edits=0, edit_hits_inputs=False, edit_hits_earlier=False,
                   later_call_changed=False, later_call_error=None, fresh_later_changed=[],
                   result_is_arg=(outs_of(out1)[0] is inputs[0]))
        return rec, out1
    try:
        out2 = call(inputs)
    except Exception as e:  # noqa: BLE001
        raise Crash(f"second call on the same arguments: {type(e).__name__}: {str(e)[:160]}")
    oo = alias_roots(w1, walk(outs_of(out2)))
    s_in = snap_args(inputs)
    s_out1 = snap(outs_of(out1))
    n = destroy(outs_of(out2))
    hit_in = snap_args(inputs) != s_in
    hit_earlier = snap(outs_of(out1)) != s_out1
    err = None
    later = False
    try:
        out3 = call(inputs)
        later = snap(outs_of(out3)) != s_out1
    except Exception as e:  # noqa: BLE001
        err = f"{type(e).__name__}: {str(e)[:120]}"
        later = True
    try:
        fresh = probe_diff() or []
    except Exception as e:  # noqa: BLE001
        fresh = ["probe raised " + type(e).__name__]
    rec.update(oo=kind_counts(oo), oo_roots=oo, edits=n, edit_hits_inputs=hit_in, edit_hits_earlier=hit_earlier,
               later_call_changed=later, later_call_error=err, fresh_later_changed=fresh)
    return rec, out1


def input_bases(circs):
    out = []
    for qc in circs:
        for k in range(len(qc.data)):
            o = stable_op(qc, k)
            if isinstance(o, BaseQPDGate):
                out.append(o.basis)
    return out


def root_class(entry, kind, obj, bases, ops, mapops, win):
    """the sharing class of one alias root: decided by the entry point and by WHICH object is shared"""
    if kind == "basis" and any(obj is b for b in bases):
        if entry in F6_ENTRIES:
            return "F6"
        if entry in F19_ENTRIES:
            return "F19"
    if kind == "operation" and entry in F10_ENTRIES and any(obj is p for p in ops):
        return "F10"
    if kind == "operation" and entry in F11_ENTRIES and any(obj is p for p in mapops):
        return "F11"
    if kind == "array" and entry in COPY_ENTRIES and id(obj) in win.param_arrays:
        return "F20"          # an ndarray parameter of an instruction reachable from the arguments
    if kind == "circuit" and entry in COPY_ENTRIES and id(obj) in win.def_circuits:
        return "F21"          # the cached definition circuit of an instruction reachable from the arguments
    return None


def classify(entry, rec, circs):
    """(classes, per-class root counts) when EVERY alias root belongs to a sharing class, else None.
    classes is [] when there is no deviation at all."""
    roots_io, roots_oo = rec["io_roots"], rec["oo_roots"]
    if rec["changed"] or rec.get("fresh_later_changed"):
        return None
    if not roots_io and not roots_oo:
        effects = rec["edit_hits_inputs"] or rec["edit_hits_earlier"] or rec["later_call_changed"]
        return None if effects else ([], {})
    bases = input_bases(circs)
    ops = [stable_op(qc, k) for qc in circs for k in range(len(qc.data))]
    mapops = [o for b in bases for m in b.maps for l in m for o in l]
    counts = {}
    for which, roots in (("io", roots_io), ("oo", roots_oo)):
        for k, o in roots:
            c = root_class(entry, k, o, bases, ops, mapops, rec["win"])
            if c is None:
                return None
            counts.setdefault(c, {"io": 0, "oo": 0})[which] += 1
    return sorted(counts), counts


def monitor_ocopy(w, qc):
    """O-copy: QuantumCircuit.copy() -> new circuit; every Python-defined instruction (QPD gates, CutWire) becomes a NEW
    object with equal attribute values sharing `basis`; a standard gate that was appended as a Python object is either
    re-materialised natively (no stable object) or a new object."""
    c2 = qc.copy()
    ok = c2 is not qc and len(c2.data) == len(qc.data)
    for k in range(len(qc.data)):
        a = stable_op(qc, k)
        if a is None:
            continue
        b = stable_op(c2, k)
        if b is None:
            if isinstance(a, (BaseQPDGate, CutWire)):
                ok = False
            continue
        if b is a or type(a) is not type(b) or a.label != b.label or b._params is a._params:
            ok = False
        elif isinstance(a, BaseQPDGate) and (b.basis is not a.basis or b.basis_id != a.basis_id):
            ok = False
    w.contract("O-copy: QuantumCircuit.copy() makes new operation objects with equal attributes sharing `basis`", ok)


def untag_label(t):
    from common import untag
    return untag(t)


def run_entry(entry, inplace, d, w=None):
    """Build the inputs from the description `d`, run the protocol; returns (hb, call literal, record, circuits)."""
    hb = HeapBuilder()
    if entry == "pcq":
        qc = build_circuit(d["circuit"])
        labels = [untag_label(t) for t in d["labels"]]
        if w is not None and not inplace:
            monitor_ocopy(w, qc)
        c = hb.circuit(qc)
        lit = f"CPcq {coq(inplace)} {c} {coq(spans_of(qc, labels))}"
        rec, _ = examine([qc, labels], lambda a: partition_circuit_qubits(a[0], a[1], inplace=inplace), lambda o: [o], inplace)
        return hb, lit, rec, [qc]
    if entry == "cut_gates":
        qc = build_circuit(d["circuit"])
        gids = list(d["gate_ids"])
        c = hb.circuit(qc)
        lit = f"CCutGates {coq(inplace)} {c} {coq([g % len(qc.data) for g in gids])}"     # negative ids index from the end
        rec, _ = examine([qc, gids], lambda a: cut_gates(a[0], a[1], inplace=inplace), lambda o: [o[0], o[1]], inplace)
        return hb, lit, rec, [qc]
    if entry == "partition_problem":
        qc = build_circuit(d["circuit"])
        labels = [untag_label(t) for t in d["labels"]] if d.get("labels") is not None else None
        obs = PauliList(d["obs"]) if d.get("obs") else None
        c = hb.circuit(qc)
        p = hb.pauli(obs) if obs is not None else None
        # automatic labels: the connectivity rule of the package (a pure function of the circuit), idle qubits get None
        eff = labels if labels is not None else _partition_labels_from_circuit(
            qc, ignore=lambda inst: isinstance(inst.operation, TwoQubitQPDGate))
        sides, nl = sides_of(qc, eff)
        lit = f"CPartition {c} {coq(spans_of(qc, eff))} {coq(sides)} {nl} {copt(p)}"
        rec, _ = examine([qc, labels, obs], lambda a: partition_problem(a[0], a[1], a[2]),
                         lambda o: [o.subcircuits, o.bases] + ([o.subobservables] if o.subobservables is not None else []), False)
        return hb, lit, rec, [qc]
    if entry == "separate":
        qc = build_circuit(d["circuit"])
        labels = [untag_label(t) for t in d["labels"]] if d.get("labels") is not None else None
        c = hb.circuit(qc)
        if labels is None:
            tmp = qc.copy()
            _split_barriers(tmp)
            eff = _partition_labels_from_circuit(tmp)
        else:
            eff = labels
        sides, nl = sides_of(qc, eff)
        rec, _ = examine([qc, labels], lambda a: separate_circuit(a[0], a[1]), lambda o: [o.subcircuits, o.qubit_map], False)
        return hb, f"CSeparate {c} {coq(sides)} {nl}", rec, [qc]
    if entry == "cut_wires":
        qc = build_circuit(d["circuit"])
        c = hb.circuit(qc)
        rec, _ = examine([qc], lambda a: cut_wires(a[0]), lambda o: [o], False)
        return hb, f"CCutWires {c}", rec, [qc]
    if entry == "expand":
        qc = build_circuit(d["circuit"])
        fc = cut_wires(qc)
        obs = PauliList(d["obs"])
        p = hb.pauli(obs)
        c1 = hb.circuit(qc)
        c2 = hb.circuit(fc)
        rec, _ = examine([obs, qc, fc], lambda a: expand_observables(a[0], a[1], a[2]), lambda o: [o], False)
        return hb, f"CExpand {p} {c1} {c2}", rec, [qc, fc]
    if entry == "find_cuts":
        qc = build_circuit(d["circuit"])
        opt = OptimizationParameters(seed=d["seed"], gate_lo=True, wire_lo=d["wire_lo"])
        con = DeviceConstraints(qubits_per_subcircuit=d["width"])
        _out0, meta0 = find_cuts(qc, opt, con)
        wires = sorted(i for t, i in meta0["cuts"] if t == "Wire Cut")
        gouts = [i for t, i in meta0["cuts"] if t == "Gate Cut"]
        gids = [i - sum(1 for x in wires if x < i) for i in gouts]
        # metadata lists every qpd_2q of the output; the gates cut by THIS call are those that were not QPD gates before
        gids = [i for i in gids if not isinstance(qc.data[i].operation, BaseQPDGate)]
        c = hb.circuit(qc)
        rec, _ = examine([qc, opt, con], lambda a: find_cuts(a[0], a[1], a[2]), lambda o: [o[0], o[1]], False)
        return hb, f"CFindCuts {c} {coq(gids)} {coq(wires)}", rec, [qc]
    if entry == "dqi":
        qc = build_circuit(d["circuit"])
        qids, mids = list(d["ids"]), list(d["map_ids"])
        iids = [[k] for k in qids]
        if d.get("pairs"):
            # unseparated circuit of SingleQubitQPDGate pairs: instruction_ids with two elements per decomposition
            qc = qc.decompose(TwoQubitQPDGate)
            pos = [k for k, i in enumerate(qc.data) if isinstance(i.operation, SingleQubitQPDGate)]
            iids = [[pos[2 * j], pos[2 * j + 1]] for j in range(len(pos) // 2)]
            mids = (mids + [0] * len(iids))[:len(iids)]
            qids = [k for pr in iids for k in pr]
            flat_mids = [m for m in mids for _ in (0, 1)]
        else:
            flat_mids = mids
        arg_mids = mids
        if d.get("map_none"):
            # map_ids=None: the map ids already selected on the gates are used (all gates carry one in this form)
            arg_mids = None
            flat_mids = [qc.data[k].operation.basis_id for k in qids]
        c = hb.circuit(qc)
        lit = f"CDqi {coq(inplace)} {c} {coq(qids)} {coq(flat_mids)}"
        rec, _ = examine([qc, iids, arg_mids],
                         lambda a: decompose_qpd_instructions(a[0], a[1], a[2], inplace=inplace), lambda o: [o], inplace)
        return hb, lit, rec, [qc]
    if entry == "generate":
        qc0 = build_circuit(d["circuit"])
        obs = PauliList(d["obs"])
        if d["form"] == "dict":
            labels = [untag_label(t) for t in d["labels"]]
            pp = partition_problem(qc0, labels, obs)
            circs, sobs, bases = pp.subcircuits, pp.subobservables, pp.bases
            clist = list(circs.values())
            cl = [hb.circuit(x) for x in clist]
            ol = [hb.pauli(sobs[k]) for k in circs]
            ng = [len(ObservableCollection(sobs[k]).groups) for k in circs]
            cutidx = [[int(i.operation.label.split("_")[-1]) for i in x.data if isinstance(i.operation, SingleQubitQPDGate)]
                      for x in clist]
        else:
            circs, bases = cut_gates(qc0, two_q_plain_ids(qc0))
            sobs = obs
            clist = [circs]
            cl = [hb.circuit(circs)]
            ol = [hb.pauli(sobs)]
            ng = [len(ObservableCollection(sobs).groups)]
            cutidx = [list(range(len(bases)))]
        nmaps = [len(b.maps) for b in bases]
        # exact mode keeps a joint map iff the product of its probabilities is >= 1e-14 (qpd/weights.py; C04's business,
        # monitored below through the number of returned coefficients)
        if d.get("num_samples"):
            # finite sampling from numpy's global generator: seeded before every call; the sampled joint map ids are
            # those of generate_qpd_weights under the same seed (oracle, monitored through the number of coefficients)
            ns, sd = d["num_samples"], d["np_seed"]
            np.random.seed(sd)
            samples = [[int(j) for j in t] for t in generate_qpd_weights(bases, ns).keys()]

            def call(a):
                np.random.seed(sd)
                return generate_cutting_experiments(a[0], a[1], ns)
        else:
            samples = [list(t) for t in itertools.product(*[range(n) for n in nmaps])
                       if float(np.prod([b.probabilities[j] for b, j in zip(bases, t)])) >= 1e-14]

            def call(a):
                return generate_cutting_experiments(a[0], a[1], np.inf)
        lit = f"CGenerate {coq(cl)} {coq(ol)} {coq(samples)} {coq(ng)} {coq(cutidx)}"
        rec, out1 = examine([circs, sobs], call, lambda o: [o[0], o[1]], False)
        if w is not None:
            w.contract("O-weights: one coefficient per joint map id (exact: probability >= 1e-14; sampled: as generate_qpd_weights "
                       "under the same numpy seed)", len(out1[1]) == len(samples))
        return hb, lit, rec, clist
    if entry == "reconstruct":
        qc0 = build_circuit(d["circuit"])
        obs = PauliList(d["obs"])
        form = d.get("form", "dict-v1")
        if form == "plain-v1":
            # unseparated form: one circuit, a PauliList, one SamplerResult
            circ, _bases = cut_gates(qc0, two_q_plain_ids(qc0))
            exps, coeffs = generate_cutting_experiments(circ, obs, np.inf)
            results = ExactSampler().run(exps).result()
            if d.get("spell") is not None:
                results = respell_result(results, len(exps), d["spell"])
            sobs = obs
            rs = [hb.result(results)]
            ol = [hb.pauli(obs)]
        else:
            pp = partition_problem(qc0, "AB", obs)
            exps, coeffs = generate_cutting_experiments(pp.subcircuits, pp.subobservables, np.inf)
            if form == "dict-v2":
                # SamplerV2-shaped results built directly (values are irrelevant for C16, only the object structure
                # PrimitiveResult -> SamplerPubResult -> DataBin -> BitArray.array matters)
                from qiskit.primitives.containers import BitArray, DataBin, SamplerPubResult, PrimitiveResult

                def pub(x):
                    regs = {r.name: r.size for r in x.cregs}
                    fields = {}
                    for name in ("qpd_measurements", "observable_measurements"):
                        n = regs[name]
                        arr = np.array([[(j + t) % 2 for t in range((n + 7) // 8)] for j in range(4)], dtype=np.uint8)
                        fields[name] = BitArray(arr, n)
                    return SamplerPubResult(DataBin(**fields, shape=()), metadata={"shots": 4})
                results = {k: PrimitiveResult([pub(x) for x in v], metadata={"version": 2}) for k, v in exps.items()}
            else:
                results = {k: ExactSampler().run(v).result() for k, v in exps.items()}
                if d.get("spell") is not None:
                    results = {k: respell_result(r, len(exps[k]), d["spell"] + 7 * j) for j, (k, r) in enumerate(results.items())}
            sobs = pp.subobservables
            rs = [hb.result(results[k]) for k in results]
            ol = [hb.pauli(sobs[k]) for k in results]
        co = hb.plain_list(coeffs)
        rec, _ = examine([results, coeffs, sobs], lambda a: reconstruct_expectation_values(a[0], a[1], a[2]),
                         lambda o: [o], False)
        return hb, f"CReconstruct {coq(rs)} {co} {coq(ol)}", rec, []
    raise ValueError(entry)


def record_json(entry, inplace, d, lit, rec, cls, tag):
    return dict(entry=entry, inplace=inplace, known_class=tag, detected_class=cls, desc=d, call=lit,
                changed=rec["changed"], changed_other=rec["changed_other"], io=rec["io"], oo=rec["oo"],
                io_roots=root_names(rec["io_roots"]), oo_roots=root_names(rec["oo_roots"]),
                edits=rec["edits"], edit_hits_inputs=rec["edit_hits_inputs"], edit_hits_earlier=rec["edit_hits_earlier"],
                later_call_changed=rec["later_call_changed"], later_call_error=rec["later_call_error"],
                fresh_later_changed=rec.get("fresh_later_changed") or [],
                result_is_arg=rec.get("result_is_arg"), kinds=KINDS)


def spell_outcome(o, width, how):
    """the outcome `o` (an int) in one of the spellings reconstruct_expectation_values accepts as a key of a quasi-distribution"""
    o = int(o)
    if how == 1:
        return bin(o)                                   # '0b101'
    if how == 2:
        return format(o, "0%db" % max(width, 1))        # '00101' (as in a counts dictionary)
    if how == 3:
        return hex(o)                                   # '0x5'
    if how == 4:
        b = format(o, "0%db" % max(width, 2))
        return b[:-1] + " " + b[-1:]                    # '0010 1' (registers separated by a blank)
    return o


def respell_result(res, n, seed):
    """A SamplerV1 result with the same quasi-probabilities as `res`, every quasi-distribution a plain dict whose keys
    are spelled per outcome as int / '0b…' / bitstring / '0x…' / blank-separated bitstring (deterministic in `seed`);
    the first key of every distribution is a string."""
    from qiskit.primitives import SamplerResult
    r = np.random.default_rng([1603, int(seed)])
    out = []
    for q in list(res.quasi_dists)[:n]:
        keys = sorted(int(k) for k in q)
        width = max([k.bit_length() for k in keys] + [1]) + int(r.integers(0, 2))
        dq = {}
        for j, k in enumerate(keys):
            how = int(r.integers(1, 5)) if j == 0 else int(r.integers(0, 5))
            dq[spell_outcome(k, width, how)] = float(q[k])
        out.append(dq)
    return SamplerResult(quasi_dists=out, metadata=[dict(m) for m in list(res.metadata)[:n]])


class Collector:
    """stands in for the CaseWriter inside a worker: records contract checks"""

    def __init__(self):
        self.contracts = []

    def contract(self, name, ok):
        self.contracts.append([name, bool(ok)])


CRASH_OBS = (True, [9] * len(KINDS), [9] * len(KINDS))     # never produced by the model: a crashed unit is a mismatch


def run_unit(unit):
    """One unit in a forked worker (the parent is never touched by the destructive edits).  Never raises."""
    entry, inplace, d, known = unit
    col = Collector()
    name = entry + ("_inplace" if inplace else "")
    try:
        try:
            hb, lit, rec, circs = run_entry(entry, inplace, d, col)
        except Refusal as e:
            return dict(status="refused", entry=entry, detail=str(e), contracts=col.contracts)
        except Crash as e:
            raise
        except ValueError as e:
            return dict(status="refused", entry=entry, detail="setup: " + str(e)[:160], contracts=col.contracts)
        cc = None if inplace else classify(entry, rec, circs)
        classes, counts = cc if cc else ([], {})
        cls = "+".join(classes) if classes else None
        tag = cls if (classes and all(c in known for c in classes)) else None
        effects = bool(rec["edit_hits_inputs"] or rec["edit_hits_earlier"] or rec["later_call_changed"]
                       or rec.get("fresh_later_changed"))
        # untagged cases: the property-satisfying model also predicts that edits of a result have no effect at all
        changed_obs = bool(rec["changed"]) or (effects and not tag and not inplace)
        io_obs, oo_obs = list(rec["io"]), list(rec["oo"])
        unmodelled = {}
        if tag:
            # F20 / F21 live in attributes the heap model does not represent (ndarray parameters, cached definitions):
            # exactly the roots that satisfy the class predicate are taken out of the observation that is compared with
            # the model of the current behaviour; every other root stays in
            for c, idx in (("F20", KINDS.index("other")), ("F21", KINDS.index("circuit"))):
                if c in counts:
                    io_obs[idx] -= counts[c]["io"]
                    oo_obs[idx] -= counts[c]["oo"]
                    unmodelled[c] = counts[c]
        js = record_json(entry, inplace, d, lit, rec, cls, tag)
        js["crashed"] = None
        js["unmodelled_roots"] = unmodelled
        no_alias = not rec["io_roots"] and not rec["oo_roots"]
        if not inplace:
            col.contract("no alias => destructive edits of a result have no effect", (not no_alias) or not effects)
        else:
            col.contract("an in-place call returns its circuit argument", bool(rec.get("result_is_arg")))
        return dict(status="ok", entry=entry, name=name, group=name + (f"__known_{tag}" if tag else ""),
                    checker="chk_cur" if tag else "chk_rep",
                    coq="(" + ", ".join([hb.heap().s, "(" + lit + ")", coq((changed_obs, io_obs, oo_obs))]) + ")",
                    js=js, cls=cls or "none", nobj=len(hb.objs), contracts=col.contracts)
    except BaseException as e:  # noqa: BLE001  the implementation (or the set-up that uses it) crashed
        msg = f"{type(e).__name__}: {str(e)[:200]}"
        js = dict(entry=entry, inplace=inplace, known_class=None, detected_class=None, desc=d, call=None, crashed=msg,
                  changed=False, changed_other=False, io=[0] * len(KINDS), oo=[0] * len(KINDS), io_roots=[], oo_roots=[], edits=0,
                  edit_hits_inputs=False, edit_hits_earlier=False, later_call_changed=False, later_call_error=None,
                  fresh_later_changed=[], result_is_arg=None, kinds=KINDS)
        return dict(status="crashed", entry=entry, name=name, group=name + "__crashed", checker="chk_rep",
                    coq="(" + ", ".join(["[]", "(CReconstruct [] 0 [])", coq(CRASH_OBS)]) + ")",
                    js=js, cls="crashed", nobj=0, contracts=col.contracts)


def run_units(units, nproc=None):
    """Run the units in forked one-shot workers (fresh copy of the pristine parent for every unit)."""
    import multiprocessing as mp

    nproc = nproc or int(os.environ.get("C16_JOBS", "8"))
    if os.environ.get("C16_NOFORK") == "1":
        return [run_unit(u) for u in units]
    ctx = mp.get_context("fork")
    out = []
    with ctx.Pool(processes=nproc, maxtasksperchild=1) as pool:
        pending = [pool.apply_async(run_unit, (u,)) for u in units]
        for u, r in zip(units, pending):
            try:
                out.append(r.get(timeout=600))
            except Exception as e:  # noqa: BLE001  (worker died or hung)
                out.append(dict(status="lost", entry=u[0], detail=f"{type(e).__name__}: {e}", contracts=[]))
    return out


class Gen:
    """collects the units of one run"""

    def __init__(self, known):
        self.known = known
        self.units = []

    def case(self, entry, d, inplace=False):
        self.units.append((entry, inplace, d, sorted(self.known)))


def safe_ids(cd):
    """instruction indices of the cuttable two-qubit gates of a description (no implementation call involved)"""
    return [k for k, o in enumerate(cd["ops"]) if len(o["q"]) == 2 and o["g"] in CUTTABLE]


def qpd_positions(cd):
    """for every pre-placed QPD gate of a description: (index, number of maps of its basis)"""
    nm = {"cx": 6, "cz": 6, "rzz": 6, "ryy": 6, "crx": 6, "swap": 58, "rzx": 58}
    out = []
    for k, o in enumerate(cd["ops"]):
        if o["g"] == "qpd_2q":
            src = o["src"] if "src" in o else cd["ops"][o["share"] if "share" in o else o["same"]]["src"]
            out.append((k, nm[src]))
    return out


def generate(rng, tier, outdir):
    w = CaseWriter(outdir, IMPORTS, case_types={"chk_rep": CASE_TY, "chk_cur": CASE_TY})
    w.SHARD = 40          # the generate cases are heavy for vm_compute: keep the shards small so that they run in parallel
    known = known_classes()
    g = Gen(known)
    global PROBE_REF
    PROBE_REF = probe()   # pristine reference for "later calls on new inputs", taken before any destructive edit
    quick = tier == "quick"
    N = dict(pcq=70, cut_gates=70, partition=100, cut_wires=70, expand=30, find_cuts=36, generate=44, dqi=60, reconstruct=12,
             reconstruct_spell=6, inplace=66, separate=36) if quick else \
        dict(pcq=400, cut_gates=400, partition=500, cut_wires=400, expand=150, find_cuts=200, generate=200, dqi=300,
             reconstruct=48, reconstruct_spell=24, inplace=300, separate=250)
    w.notes.append("known classes routed to the current-behaviour checker: " + (",".join(sorted(known)) or "none"))

    def tl(labels):
        return [tagged(l) for l in labels]

    for it in range(N["pcq"]):
        nq = int(rng.integers(2, 5))
        cd = rand_desc(rng, nq, int(rng.integers(1, 7)), p_pre=0.3 if it % 3 else 0.0)
        g.case("pcq", dict(circuit=cd, labels=tl(rand_labels(rng, nq))))

    for it in range(N["cut_gates"]):
        nq = int(rng.integers(2, 5))
        cd = rand_desc(rng, nq, int(rng.integers(1, 7)), p_pre=0.3 if it % 3 else 0.0, barriers=False)
        ids = safe_ids(cd)
        k = int(rng.integers(0, min(3, len(ids)) + 1))
        gids = [int(x) for x in rng.permutation(ids)[:k]] if ids else []
        if it % 4 == 0:      # negative indices (from the end)
            gids = [x - len(cd["ops"]) if rng.random() < 0.5 else x for x in gids]
        g.case("cut_gates", dict(circuit=cd, gate_ids=gids))

    for it in range(N["partition"]):
        nq = int(rng.integers(2, 5))
        cd = rand_desc(rng, nq, int(rng.integers(1, 7)), p_pre=0.35 if it % 3 else 0.0)
        auto = (it % 4 == 3)       # automatic labels (partition_labels=None); idle qubits then get the label None
        g.case("partition_problem", dict(circuit=cd, labels=None if auto else tl(rand_labels(rng, nq)),
                                         obs=(["I" * nq] if auto else rand_obs(rng, nq)) if rng.random() < 0.6 else None))

    # separate_circuit (utils.transforms): explicit and automatic labels, wide barriers.  Pre-placed QPD gates only with
    # circuit.copy() shares the basis of pre-placed QPD gates here exactly as in F6: known finding F19 (own call site)
    for it in range(N["separate"]):
        nq = int(rng.integers(2, 5))
        cd = rand_desc(rng, nq, int(rng.integers(1, 7)), p_pre=0.3 if it % 3 != 1 else 0.0, p_py=0.3)
        if it % 2 == 0:
            insert_desc_op(cd["ops"], int(rng.integers(0, len(cd["ops"]) + 1)), dict(g="barrier", q=list(range(nq))))
        # labels that keep every multi-qubit instruction inside one partition: one label, or automatic
        g.case("separate", dict(circuit=cd, labels=None if it % 3 else tl([LABEL_POOL[int(rng.integers(0, len(LABEL_POOL)))]] * nq)))

    for it in range(N["cut_wires"]):
        nq = int(rng.integers(2, 5))
        cd = rand_desc(rng, nq, int(rng.integers(1, 6)), p_pre=0.25 if it % 3 else 0.0, p_py=0.25 if it % 2 else 0.0,
                       p_cw=0.35, barriers=False, nc=(int(rng.integers(1, 3)) if it % 4 == 1 else 0))
        g.case("cut_wires", dict(circuit=cd))

    for it in range(N["expand"]):
        nq = int(rng.integers(2, 5))
        cd = rand_desc(rng, nq, int(rng.integers(1, 5)), p_pre=0.0, p_cw=0.4, barriers=False)
        g.case("expand", dict(circuit=cd, obs=rand_obs(rng, nq)))

    for it in range(N["find_cuts"]):
        nq = int(rng.integers(3, 5))
        cd = rand_desc(rng, nq, int(rng.integers(2, 6)), p_pre=0.2 if it % 2 else 0.0, p_py=0.25, barriers=False, srcs=SMALL_SRC)
        g.case("find_cuts", dict(circuit=cd, seed=int(rng.integers(0, 1000)), wire_lo=bool(rng.integers(0, 2)),
                                 width=int(rng.integers(2, nq))))

    for it in range(N["dqi"]):
        nq = int(rng.integers(2, 4))
        cd = rand_desc(rng, nq, int(rng.integers(1, 5)), p_pre=0.5, p_py=0.15, barriers=False)
        qp = qpd_positions(cd)
        qids = [k for k, _ in qp]
        if not qids and it % 4:
            continue
        mids = [int(rng.integers(0, n)) for _, n in qp]
        du = dict(circuit=cd, ids=qids, map_ids=mids)
        if it % 5 == 1 and qids:        # map_ids=None: needs a selected map on every gate
            for k in qids:
                o = cd["ops"][k]
                if "same" not in o and o.get("bid") is None:
                    o["bid"] = int(rng.integers(0, 6))
                # with map_ids=None the selected map ids are not re-assigned, so an already cached definition is used as it
                # is (circuit.copy() deep-copies it): that path is not in the heap model (no definition caches) - not generated
                o.pop("read_def", None)
            du["map_none"] = True
        elif it % 5 == 2 and qids and not any("same" in cd["ops"][k] for k in qids):     # pairs of SingleQubitQPDGates
            du["pairs"] = True
        g.case("dqi", du)

    for it in range(N["generate"]):
        nq = int(rng.integers(2, 4))
        form = "dict" if it % 2 == 0 else "circuit"
        big = (it % 3 == 0)
        ops = [dict(g="h", q=[int(rng.integers(0, nq))]) for _ in range(int(rng.integers(0, 3)))]
        for j in range(1 if big else int(rng.integers(1, 3))):
            # the dict form cuts gates between even and odd qubits (labels A/B); the circuit form cuts every listed gate
            a = int(rng.integers(0, nq))
            b = (a + 1) % nq if form == "dict" else int([x for x in range(nq) if x != a][int(rng.integers(0, nq - 1))])
            if form == "dict" and (a % 2) == (b % 2):
                a, b = 0, 1
            name = BIG_SRC[int(rng.integers(0, len(BIG_SRC)))] if big else SMALL_SRC[int(rng.integers(0, len(SMALL_SRC)))]
            ops.append(dict(g=name, q=[a, b], p=_params_for(name, rng), py=name in ("rzx", "ryy", "crx")))
            if rng.random() < 0.5:
                ops.append(dict(g="rx", q=[a], p=[0.25]))
        du = dict(circuit=dict(nq=nq, ops=ops), form=form, obs=rand_obs(rng, nq),
                  labels=tl(["A" if q % 2 == 0 else "B" for q in range(nq)]))
        if it % 3 == 1:       # finite sampling (numpy's global generator, seeded before every call)
            du.update(num_samples=int(rng.integers(1, 30)), np_seed=int(rng.integers(0, 10000)))
        g.case("generate", du)
        w.count("generate.form", form)

    for it in range(N["reconstruct"]):
        name = SMALL_SRC[int(rng.integers(0, 3))]
        ops = [dict(g="h", q=[0]), dict(g=name, q=[0, 1], p=_params_for(name, rng))]
        g.case("reconstruct", dict(circuit=dict(nq=2, ops=ops), obs=rand_obs(rng, 2), form=["dict-v1", "plain-v1", "dict-v2"][it % 3]))

    for it in range(N["inplace"]):
        nq = int(rng.integers(2, 5))
        which = it % 3
        if which == 0:
            cd = rand_desc(rng, nq, int(rng.integers(1, 6)), p_pre=0.25)
            g.case("pcq", dict(circuit=cd, labels=tl(rand_labels(rng, nq))), inplace=True)
        elif which == 1:
            cd = rand_desc(rng, nq, int(rng.integers(1, 6)), p_pre=0.25, barriers=False)
            ids = safe_ids(cd)
            gids = [int(x) for x in rng.permutation(ids)[:int(rng.integers(0, 3))]] if ids else []
            g.case("cut_gates", dict(circuit=cd, gate_ids=gids), inplace=True)
        else:
            cd = rand_desc(rng, min(nq, 3), int(rng.integers(1, 5)), p_pre=0.5, barriers=False)
            qp = qpd_positions(cd)
            g.case("dqi", dict(circuit=cd, ids=[k for k, _ in qp], map_ids=[int(rng.integers(0, n)) for _, n in qp]), inplace=True)

    # TARGETED stream (result objects as spelled by the caller): the SamplerV1 results of the experiments are handed over as
    # plain mutable mappings whose outcome keys are spelled, per outcome, as int / '0b…' / zero-padded or blank-separated
    # bitstring / '0x…' (every spelling reconstruct_expectation_values accepts); the argument snapshot records the keys as
    # spelled, so re-keying, merging or re-typing the caller's mappings shows as `changed`
    for it in range(N["reconstruct_spell"]):
        name = SMALL_SRC[int(rng.integers(0, 3))]
        ops = [dict(g=["h", "x", "s"][int(rng.integers(0, 3))], q=[int(rng.integers(0, 2))]),
               dict(g=name, q=[0, 1], p=_params_for(name, rng))]
        g.case("reconstruct", dict(circuit=dict(nq=2, ops=ops), obs=rand_obs(rng, 2), form=["dict-v1", "plain-v1"][it % 2],
                                   spell=int(rng.integers(0, 1000000))))
        w.count("reconstruct.keys", "spelled")

    # ---- run the units (forked one-shot workers) and collect
    results = run_units(g.units)
    lost = [i for i, r in enumerate(results) if r["status"] == "lost"]
    if lost:       # a worker died or timed out (machine under load): run those units once more, two at a time
        again = run_units([g.units[i] for i in lost], nproc=2)
        for i, r in zip(lost, again):
            results[i] = r
        w.notes.append(f"{len(lost)} unit(s) re-run after a lost worker")
    for u, r in zip(g.units, results):
        for name, ok in r.get("contracts", []):
            w.contract(name, ok)
        if r["status"] == "refused":
            w.count("refused", r["entry"])
            continue
        if r["status"] == "lost":
            w.count("worker_lost", r["entry"])
            w.notes.append(f"worker lost on {u[0]}: {r['detail']}")
            w.contract("every unit's worker returns", False)
            continue
        # self-test of the property-level oracle: it must accept every case whose recorded observation is clean
        # (and every case of a listed known class); run.py judges samples of ALL cases when something else breaks
        js = r["js"]
        if r["status"] == "ok":
            v = judge(js)
            w.contract("judge_accepts_clean_case", not (v.get("violates") is not False and (clean_observation(js) or js.get("known_class"))))
        w.add(r["group"], r["checker"], Raw(r["coq"]), r["js"], nontrivial=(r["nobj"] > 2))
        w.count("entry", r["name"])
        w.count("class", r["cls"])
        w.count("heap_objects", f"{r['nobj'] // 20 * 20}+")

    return w.finish(
        rule="random circuits on 2-4 qubits (h/x/s/rx, cx/rzz/swap made natively, rzx/rzz appended as Python gate objects, "
             "optional pre-placed TwoQubitQPDGate instances from cx/rzz/cz/swap/rzx/ryy/crx incl. two gates sharing one basis, "
             "CutWire markers, barriers, circuit metadata / global phase; histories: a map id already selected on a pre-placed gate, "
             "its definition already read, the same gate object appended twice; classical registers + measure for cut_wires); "
             "explicit labels from a pool of hashables and automatic labels (incl. idle qubits -> None); negative gate ids; "
             "separate_circuit with wide barriers; random PauliLists; exact (num_samples=inf) and seeded finite generation, both "
             "call forms; decompose_qpd_instructions with explicit map ids, map_ids=None and two-element instruction ids; "
             "reconstruction from SamplerResult (dict and plain form) and PrimitiveResult, plus SamplerResults held in plain "
             "mappings with outcome keys spelled as int / 0b / bitstring / 0x (keys snapshotted as spelled); every call also in its "
             "in-place form where one exists. UnitaryGate instructions in input circuits and pre-placed gates in separate_circuit "
             "are generated (known findings F20 / F19). distinct = distinct Coq case literal; non-trivial = heap with > 2 objects",
        extra=dict(extra=dict(known_classes=sorted(known))),
    )


# ----------------------------------------------------------------------------------------------
# property-level oracle (independent of the Coq model)
# ----------------------------------------------------------------------------------------------
def clean_observation(js):
    """the recorded observation shows no deviation from the property (what the harness itself saw)"""
    zeros = [0] * len(KINDS)
    if js.get("crashed"):
        return False
    if js.get("inplace"):
        return (js.get("io") in ([1] + zeros[1:], zeros)) and not js.get("changed_other") and js.get("result_is_arg") is not False
    return (not js.get("changed") and js.get("io") == zeros and js.get("oo") == zeros and not js.get("edit_hits_inputs")
            and not js.get("edit_hits_earlier") and not js.get("later_call_changed") and not js.get("fresh_later_changed"))


def judge(case):
    """Decides from the recorded JSON alone; never raises."""
    try:
        return _judge(case)
    except Exception as e:  # noqa: BLE001
        return dict(violates=None, detail=f"judge could not decide: {type(e).__name__}: {e}")


def _judge(case):
    problems = []
    kinds = case.get("kinds") or KINDS
    io = case.get("io") or [0] * len(kinds)
    oo = case.get("oo") or [0] * len(kinds)
    if case.get("crashed"):
        return dict(violates=False, detail="the call (or the set-up that uses the implementation) crashed before the protocol "
                                           "could finish: " + str(case["crashed"]) + " - not decidable as a C16 question")
    if case.get("inplace"):
        # an in-place call is documented to modify its circuit argument and to return it; nothing else may change
        if case.get("changed_other"):
            problems.append("an argument other than the circuit was modified by the in-place call")
        if case.get("result_is_arg") is False:
            problems.append("the in-place call did not return its circuit argument")
        others = [k for k, n in zip(kinds, io) if n and k != "circuit"]
        if others:
            problems.append(f"in-place result shares {others} with the arguments besides the circuit itself")
        if io and io[0] > 1:
            problems.append("more than one circuit shared")
    else:
        if case.get("changed"):
            problems.append("an argument was modified by the call")
        if any(io):
            problems.append("result shares mutable objects with the arguments: " + json.dumps(case.get("io_roots")))
        if any(oo):
            problems.append("two results share mutable objects: " + json.dumps(case.get("oo_roots")))
        if case.get("edit_hits_inputs"):
            problems.append("destructive edits of a result changed the arguments")
        if case.get("edit_hits_earlier"):
            problems.append("destructive edits of a result changed an earlier result")
        if case.get("later_call_changed"):
            problems.append("destructive edits of a result changed the outcome of a later call on the same arguments" +
                            (f" ({case['later_call_error']})" if case.get("later_call_error") else ""))
        if case.get("fresh_later_changed"):
            problems.append("destructive edits of a result changed the outcome of later calls on NEW inputs: " +
                            json.dumps(case.get("fresh_later_changed")))
    if problems and case.get("known_class"):
        return dict(violates=False, known=case["known_class"],
                    detail=f"known sharing class {case['known_class']}: " + "; ".join(problems))
    return dict(violates=bool(problems), detail="; ".join(problems) or "inputs unchanged, nothing shared, edits without effect")


def rerun(case):
    """Re-execute the implementation on the stored description (for --replay) and refresh the record.  Never raises."""
    global PROBE_REF
    try:
        if PROBE_REF is None:
            PROBE_REF = probe()
        r = run_unit((case["entry"], case.get("inplace", False), case["desc"], sorted(known_classes())))
        if r["status"] in ("ok", "crashed"):
            case.update(r["js"])
        else:
            case["replay_note"] = f"{r['status']}: {r.get('detail')}"
            case.update(changed=False, io=[0] * len(KINDS), oo=[0] * len(KINDS), io_roots=[], oo_roots=[], crashed=None,
                        edit_hits_inputs=False, edit_hits_earlier=False, later_call_changed=False, fresh_later_changed=[])
    except Exception as e:  # noqa: BLE001
        case["replay_note"] = f"replay failed: {type(e).__name__}: {e}"
    return case


# ----------------------------------------------------------------------------------------------
# witnesses of the known findings
# ----------------------------------------------------------------------------------------------
def witness(name):
    if name == "F6":
        g = TwoQubitQPDGate.from_instruction(CXGate())
        qc = QuantumCircuit(2)
        qc.append(g, [0, 1])
        before = [float(c) for c in g.basis.coeffs]
        pp = partition_problem(qc, "AB")
        same = pp.bases[0] is g.basis
        pp.bases[0].coeffs = [9.0] + [0.0] * (len(before) - 1)
        visible = [float(c) for c in qc.data[0].operation.basis.coeffs] != before
        return dict(fails=bool(same and visible),
                    detail=f"partition_problem(qc,'AB').bases[0] is g.basis: {same}; editing its coeffs visible through the input gate: {visible}")
    if name == "F10":
        g = TwoQubitQPDGate.from_instruction(CXGate())
        qc = QuantumCircuit(2)
        qc.h(0)
        qc.append(g, [0, 1])
        qc.append(CutWire(), [0])
        qc.cx(0, 1)
        out = cut_wires(qc)
        same = out.data[1].operation is g
        out.data[1].operation.label = "hacked"
        visible = qc.data[1].operation.label == "hacked"
        return dict(fails=bool(same and visible),
                    detail=f"cut_wires(qc).data[1].operation is the input gate object: {same}; relabelling it visible in the input: {visible}")
    if name == "F11":
        qc = QuantumCircuit(2)
        qc.h(0)
        qc.swap(0, 1)
        obs = PauliList(["ZZ"])
        pp = partition_problem(qc, "AB", obs)
        ex, _ = generate_cutting_experiments(pp.subcircuits, pp.subobservables, np.inf)
        s0 = snap(ex)
        b0 = snap(pp.bases[0])
        n = 0
        for c in ex["A"]:
            for i in c.data:
                if i.operation.name == "ry":
                    i.operation.params[0] = 1.0
                    n += 1
        basis_changed = snap(pp.bases[0]) != b0
        ex2, _ = generate_cutting_experiments(pp.subcircuits, pp.subobservables, np.inf)
        later = snap(ex2) != s0
        return dict(fails=bool(basis_changed and later),
                    detail=f"edited params of {n} ry operation(s) of returned subexperiments; input basis changed: {basis_changed}; "
                           f"a later generate_cutting_experiments call returns different circuits: {later}")
    if name == "F19":
        g = TwoQubitQPDGate.from_instruction(CXGate())
        qc = QuantumCircuit(2)
        qc.append(g, [0, 1])
        before = [float(c) for c in g.basis.coeffs]
        sub = separate_circuit(qc, "AA").subcircuits["A"]
        op = sub.data[0].operation
        same = isinstance(op, TwoQubitQPDGate) and op is not g and op.basis is g.basis
        if same:
            op.basis.coeffs = [9.0] + [0.0] * (len(before) - 1)
        visible = [float(c) for c in qc.data[0].operation.basis.coeffs] != before
        return dict(fails=bool(same and visible),
                    detail=f"separate_circuit(qc,'AA').subcircuits['A'].data[0].operation.basis is g.basis: {same}; "
                           f"editing its coeffs visible through the input gate: {visible}")
    if name == "F20":
        from qiskit.circuit.library import UnitaryGate
        hit = []
        for entry, f in (("partition_circuit_qubits", lambda q: partition_circuit_qubits(q, "AA")),
                         ("cut_gates", lambda q: cut_gates(q, [])[0]),
                         ("partition_problem", lambda q: partition_problem(q, "AA").subcircuits["A"]),
                         ("separate_circuit", lambda q: separate_circuit(q, "AA").subcircuits["A"]),
                         ("find_cuts", lambda q: find_cuts(q, OptimizationParameters(seed=1), DeviceConstraints(2))[0]),
                         ("decompose_qpd_instructions", lambda q: decompose_qpd_instructions(q, [], []))):
            qc = QuantumCircuit(2)
            qc.append(UnitaryGate(np.exp(0.3j) * RZXGate(0.375).to_matrix()), [0, 1])
            m_in = qc.data[0].operation.params[0]
            ref = m_in.copy()
            try:
                out = f(qc)
                m_out = [i.operation.params[0] for i in out.data if i.operation.name == "unitary"][0]
                shared = m_out is m_in or np.shares_memory(m_out, m_in)
                m_out[0, 0] = 5.0
                if shared and not np.array_equal(qc.data[0].operation.params[0], ref):
                    hit.append(entry)
            except Exception as e:  # noqa: BLE001
                hit.append(f"({entry}: {type(e).__name__})")
        real = [h for h in hit if not h.startswith("(")]
        return dict(fails=bool(real), detail="editing the matrix of the returned UnitaryGate in place changes the input circuit's "
                                             "gate for: " + ", ".join(hit))
    if name == "F21":
        from qiskit.circuit.library import CZGate as _CZ
        g = TwoQubitQPDGate.from_instruction(_CZ())
        g.basis_id = 2                       # map 2 of the cz basis is (measurement, []): the second half decomposes to nothing
        half_in = g.definition.data[1].operation
        d_in = half_in.definition           # cached, EMPTY QuantumCircuit
        qc = QuantumCircuit(2)
        qc.append(g, [0, 1])
        out = partition_circuit_qubits(qc, "AA")
        og = out.data[0].operation
        half_out = og._definition.data[1].operation if og._definition is not None else None
        same = (half_out is not None and half_out is not half_in and half_out._definition is d_in and len(d_in.data) == 0)
        if same:
            half_out._definition.x(0)
        visible = len(qc.data[0].operation.definition.data[1].operation.definition.data) == 1
        return dict(fails=bool(same and visible),
                    detail=f"the copy's placeholder half holds the input half's (empty) cached definition circuit: {same}; "
                           f"appending to it through the returned gate shows in the input gate's definition: {visible}")
    return dict(fails=None, detail=f"unknown witness {name}")

"""C08 correspondence: metadata['sampling_overhead'] and metadata['minimum_reached'] of
qiskit_addon_cutting.find_cuts  vs  Model/CutFinder.v (repaired F3 behaviour), STRICT on the flag.

One case = one find_cuts request executed under several seeds; the random tape of the best-first queue is
recorded per seed (harness/c07.py: run_impl) and handed to the model.

`judge` is independent of the Coq model and of the package: it enumerates all 5^g assignments
(leave / cut gate / cut left wire / cut right wire / cut both wires, permitted kinds only) with its own
union-find over wire segments and decides whether the recorded outputs violate the property text:
  (a) minimum_reached is True although a feasible assignment has a smaller sampling overhead,
  (b) the search was unrestricted (max_backjumps None, max_gamma >= optimal gamma) but minimum_reached is False,
  (c) the search was unrestricted and the overhead differs between seeds.
"""
from __future__ import annotations

import os
from fractions import Fraction

from qiskit.circuit import Gate

from qiskit_addon_cutting.qpd import QPDBasis, TwoQubitQPDGate

from common import CaseWriter, Raw, coq
from circ import CircCtx, coq_circ, coq_op
from c07 import run_impl, build_circuit, rand_ops, qlit, lst, tape_lit, natlit

IMPORTS = ("From Coq Require Import QArith.\nFrom CKT Require Import Model.CutFinder Corr.C08Corr.\n"
           "Close Scope Q_scope.")

MAX_GAMMAS = [1, 2, 3, 8, 9, 21, 49, 1024]
BACKJUMPS = [0, 1, 3, 10000, None]
LO = [(True, False), (False, True), (True, True)]
KIND_GAMMA = {"cx": 3, "swap": 7}


# ----------------------------------------------------------------------------------------
# running the implementation
# ----------------------------------------------------------------------------------------
def analyse(case):
    """run find_cuts on case['input'] once per seed; fills case['canon_in'], ['gtab'], ['runs']"""
    inp = case["input"]
    qc = build_circuit(inp["nq"], inp["ops"], inp.get("ncl", 0))
    ctx = CircCtx()
    case["canon_in"] = ctx.canon_circuit(qc)
    gtab = {}
    for inst in qc.data:
        op = inst.operation
        if isinstance(op, Gate) and len(inst.qubits) == 2 and op.name != "barrier":
            g = ctx.gate_id(op)
            if g not in gtab:
                kappa = Fraction(float(QPDBasis.from_instruction(op).kappa))
                gtab[g] = (kappa, ctx.canon_op(TwoQubitQPDGate.from_instruction(op)))
    case["gtab"] = {str(g): [str(k), w] for g, (k, w) in gtab.items()}
    replays = case.get("replay_tapes") or {}
    runs = []
    for j, seed in enumerate(inp["seeds"]):
        r = run_impl(qc, inp["W"], inp["gate_lo"], inp["wire_lo"], inp["max_gamma"], inp["max_backjumps"], seed,
                     replay=replays.get(str(j)))
        run = dict(seed=seed, status=r["status"], error=r.get("error"), tape=[str(Fraction(t)) for t in r["tape"]])
        visited = 0
        opt = r["optimizer"]
        if opt is not None and getattr(opt, "cut_optimization", None) is not None:
            st = opt.cut_optimization.get_stats()
            visited = int(st.states_visited)
            g = opt.cut_optimization.greedy_goal_state
            run["greedy_gamma"] = None if g is None else str(Fraction(float(g.gamma_UB)))
        if r["status"] == "ok":
            run["overhead"] = str(Fraction(float(r["md"]["sampling_overhead"])))
            run["minimum_reached"] = bool(r["md"]["minimum_reached"])
            run["n_cuts"] = len(r["md"]["cuts"])
        run["visited"] = visited
        run["fuel"] = visited + len(r["tape"]) + 20
        runs.append(run)
    case["runs"] = runs
    return case


def case_lit(case):
    inp = case["input"]
    gt = lst(["(%s, (%s, %s))" % (g, qlit(v[0]), coq_op(v[1])) for g, v in case["gtab"].items()])
    mb = "None" if inp["max_backjumps"] is None else f"(Some ({int(inp['max_backjumps'])})%Z)"
    runs = []
    check_model = bool(case.get("check_model", True))
    for r in (case["runs"] if check_model else []):
        if r["status"] == "ok":
            ex = "(Ok (%s, %s))" % (qlit(r["overhead"]), coq(bool(r["minimum_reached"])))
        elif r["status"] == "refused":
            ex = "Refused"
        else:
            ex = "Crashed"
        runs.append("(mkRun %s %s %s)" % (tape_lit(r["tape"]), natlit(r["fuel"]), ex))
    oracle_ok = not (case.get("oracle") or {}).get("violates", False)
    return Raw("(mkC8 %d %s %s %d %s %s %s %s %s %s %s)" % (
        inp["nq"], coq(coq_circ(case["canon_in"])), gt, max(0, inp["W"]), coq(bool(inp["gate_lo"])),
        coq(bool(inp["wire_lo"])), qlit(Fraction(inp["max_gamma"])), mb, lst(runs), coq(check_model), coq(oracle_ok)))


# ----------------------------------------------------------------------------------------
# small circuits up to qubit relabelling: qubits numbered in order of first use
# ----------------------------------------------------------------------------------------
def canon_seqs(g, maxq=4):
    out = []

    def rec(seq, used):
        if len(seq) == g:
            out.append(list(seq))
            return
        for a in range(min(used + 1, maxq)):
            ua = max(used, a + 1)
            for b in range(min(ua + 1, maxq)):
                if a != b:
                    rec(seq + [(a, b)], max(ua, b + 1))

    rec([], 0)
    return out


def small_circuits(g):
    """all circuits with exactly g two-qubit gates from {cx, swap} on <= 4 qubits, up to relabelling"""
    for seq in canon_seqs(g):
        nq = max(max(p) for p in seq) + 1
        for mask in range(2 ** g):
            ops = [dict(name=("swap" if (mask >> i) & 1 else "cx"), qs=[a, b]) for i, (a, b) in enumerate(seq)]
            yield nq, ops


# ----------------------------------------------------------------------------------------
# the independent oracle: brute force over all assignments on wire segments
# ----------------------------------------------------------------------------------------
def _gates_of(case):
    """[(q1, q2, gamma | None)] for every two-qubit instruction that is not a barrier (None: cannot be gate-cut)"""
    gates = []
    for d in case["canon_in"]:
        if d["op"][0] != "barrier" and len(d["qs"]) == 2:
            ent = case["gtab"].get(str(d["op"][1])) if d["op"][0] == "gate" else None
            gates.append((d["qs"][0], d["qs"][1], None if ent is None else Fraction(ent[0])))
    return gates


def brute_optimum(nq, gates, W, gate_lo, wire_lo, budget=3_000_000):
    """minimum over ALL assignments of permitted kinds whose every subcircuit has at most W qubits of the product of the
    per-cut factors (gamma of the gate, 4, 4, 16).  Depth-first over the 5^g assignments; a branch is abandoned only
    when a component already exceeds W (components never shrink).  Returns (gamma_opt | None, #feasible, #visited)."""
    best = [None]
    feasible = [0]
    nodes = [0]

    def find(p, x):
        while p[x] != x:
            x = p[x]
        return x

    def rec(i, cur, parent, size, cost):
        nodes[0] += 1
        if nodes[0] > budget:
            raise RuntimeError("budget")
        if i == len(gates):
            feasible[0] += 1
            if best[0] is None or cost < best[0]:
                best[0] = cost
            return
        q1, q2, gam = gates[i]
        kinds = [("leave", Fraction(1))]
        if gate_lo and gam is not None:
            kinds.append(("gate", gam))
        if wire_lo:
            kinds += [("left", Fraction(4)), ("right", Fraction(4)), ("both", Fraction(16))]
        for kind, factor in kinds:
            if kind == "gate":
                rec(i + 1, cur, parent, size, cost * factor)
                continue
            cur2, p2, s2 = list(cur), list(parent), list(size)
            for q, cutit in ((q1, kind in ("left", "both")), (q2, kind in ("right", "both"))):
                if cutit:
                    cur2[q] = len(p2)          # a fresh wire segment, alone in its component
                    p2.append(len(p2))
                    s2.append(1)
            a, b = find(p2, cur2[q1]), find(p2, cur2[q2])
            if a != b:
                p2[a] = b
                s2[b] += s2[a]
            if s2[b] <= W:
                rec(i + 1, cur2, p2, s2, cost * factor)

    rec(0, list(range(nq)), list(range(nq)), [1] * nq, Fraction(1))
    return best[0], feasible[0], nodes[0]


def judge(case, budget=3_000_000):
    inp = case["input"]
    runs = case["runs"]
    W = inp["W"]
    cin = case["canon_in"]
    in_domain = (all(len(d["qs"]) <= 2 or d["op"][0] == "barrier" for d in cin) and inp.get("ncl", 0) == 0
                 and inp["max_gamma"] >= 1 and (inp["max_backjumps"] is None or inp["max_backjumps"] >= 0) and W >= 1
                 and (inp["gate_lo"] or inp["wire_lo"]))
    if not in_domain:
        return dict(violates=False, detail="input outside the property's domain (%s)" % [r["status"] for r in runs])
    gates = _gates_of(case)
    try:
        opt, nfeas, nodes = brute_optimum(inp["nq"], gates, W, inp["gate_lo"], inp["wire_lo"], budget=budget)
    except RuntimeError:
        return dict(violates=False, detail="brute-force budget exhausted; undecided", optimum=None, decided=False)
    ok_runs = [r for r in runs if r["status"] == "ok"]
    if opt is None:
        return dict(violates=False, detail=f"no feasible assignment exists; statuses {[r['status'] for r in runs]} (feasibility errors belong to C07)",
                    optimum=None, decided=True)
    opt_overhead = opt * opt
    unrestricted = inp["max_backjumps"] is None and Fraction(inp["max_gamma"]) >= opt
    problems = []

    def same(a, b):      # equal up to the one binary64 rounding of gamma ** 2 beyond 2^52
        return a == b or (max(a, b) > 2 ** 52 and abs(a - b) * 2 ** 50 <= max(a, b))

    for r in ok_runs:
        ov = Fraction(r["overhead"])
        # (a) a reported minimum is the minimum
        if r["minimum_reached"] and opt_overhead < ov and not same(ov, opt_overhead):
            problems.append(f"seed {r['seed']}: minimum_reached=True with overhead {ov}, but a feasible assignment has overhead {opt_overhead}")
        # (b) the unrestricted search reports the minimum as reached
        if unrestricted and not r["minimum_reached"]:
            problems.append(f"seed {r['seed']}: search unrestricted (max_backjumps None, max_gamma {inp['max_gamma']} >= optimal gamma {opt}) "
                            f"but minimum_reached=False (overhead {ov})")
        # (d) attainment: the returned overhead is that of some permitted choice meeting the width limit, so never below the optimum
        if ov < opt_overhead and not same(ov, opt_overhead):
            problems.append(f"seed {r['seed']}: returned overhead {ov} is below the overhead {opt_overhead} of every permitted choice of cuts "
                            f"that meets the width limit (understated)")
    # (c) the unrestricted search returns the same overhead under every seed
    if unrestricted and ok_runs:
        ovs = [Fraction(r["overhead"]) for r in ok_runs]
        if not all(same(ovs[0], o) for o in ovs):
            problems.append("search unrestricted but the overhead depends on the seed: " +
                            ", ".join(f"seed {r['seed']} -> {r['overhead']}" for r in ok_runs))
    # (e) the unrestricted search on a request that admits a solution always reports (does not raise)
    if unrestricted:
        for r in runs:
            if r["status"] != "ok":
                problems.append(f"seed {r['seed']}: search unrestricted and a feasible choice of cuts exists (gamma {opt}), but find_cuts "
                                f"raised ({r['status']}: {r.get('error')})")
    detail = (f"brute force over {nodes} search nodes: {nfeas} feasible assignments, optimal gamma {opt} (overhead {opt_overhead}); "
              f"unrestricted={unrestricted}; " + ("; ".join(problems) if problems else
                                                 "recorded (overhead, minimum_reached) = %s consistent with the property"
                                                 % [(r.get("overhead"), r.get("minimum_reached")) for r in runs]))
    return dict(violates=bool(problems), detail=detail, optimum=str(opt), decided=True, unrestricted=bool(unrestricted))


def rerun(case):
    case = dict(case)
    tapes = {}
    for j, r in enumerate(case.get("runs") or []):
        if r.get("tape"):
            tapes[str(j)] = [float(Fraction(t)) for t in r["tape"]]
    case["replay_tapes"] = tapes
    analyse(case)
    case.pop("replay_tapes", None)
    return case


# ----------------------------------------------------------------------------------------
# generator
# ----------------------------------------------------------------------------------------
WITNESS_CIRCUITS = [
    (3, [("cx", 0, 1), ("swap", 1, 2)]),                     # DESIGN F3
    (3, [("cx", 0, 1), ("swap", 1, 2), ("swap", 1, 2)]),
    (4, [("cx", 0, 1), ("swap", 1, 2), ("cx", 2, 3)]),
    (3, [("cx", 1, 0), ("swap", 2, 0), ("cx", 0, 1)]),
]


# Corpus "rewired": every circuit of the bounded space (<= 4 qubits, 3-4 gates, both gate kinds present, 2 <= W < n) for which
# EVERY optimal assignment found by the brute force of this file wire-cuts a qubit and LATER gate-cuts a gate that touches
# that re-wired qubit (optimum needs the qubit -> wire indirection inside a gate cut).  Encoding: gate kind c|s + the two
# qubits, then ":W".  Computed once with `optimal assignments` of brute force over the whole space (independent of the package);
# the first entry is the witness of seeded change C08-1.
REWIRED_CORPUS = (
    "s01s02s02c01:2 s01s02c03:2 s01s02c30:2 s01s12c13:2 s01s12c31:2 s01s20c03:2 s01s20c30:2 s01s21c13:2 s01s21c31:2 "
    "c01c01s02c03:2 s01c01s02c03:2 c01s01s02c03:2 s01s01s02c03:2 c01c01s02c30:2 s01c01s02c30:2 c01s01s02c30:2 "
    "s01s01s02c30:2 c01c01s12c13:2 s01c01s12c13:2 c01s01s12c13:2 s01s01s12c13:2 c01c01s12c31:2 s01c01s12c31:2 "
    "c01s01s12c31:2 s01s01s12c31:2 c01c01s20c03:2 s01c01s20c03:2 c01s01s20c03:2 s01s01s20c03:2 c01c01s20c30:2 "
    "s01c01s20c30:2 c01s01s20c30:2 s01s01s20c30:2 c01c01s21c13:2 s01c01s21c13:2 c01s01s21c13:2 s01s01s21c13:2 "
    "c01c01s21c31:2 s01c01s21c31:2 c01s01s21c31:2 s01s01s21c31:2 s01s02c01c02:2 s01s02c01s02:2 s01s02c01c20:2 "
    "s01s02c01s20:2 s01s02c02c01:2 s01c02s02c01:2 s01c02c02c03:2 s01s02c02c03:2 s01c02s02c03:2 s01s02s02c03:2 "
    "s01s02c02c10:2 s01c02s02c10:2 s01s02s02c10:2 s01c02c02c30:2 s01s02c02c30:2 s01c02s02c30:2 s01s02s02c30:2 "
    "c01s02s03c01:2 s01s02s03c01:2 s01c02c03c02:2 s01s02c03c02:2 s01c02s03c02:2 s01s02s03c02:2 s01c02c03s02:2 "
    "s01s02c03s02:2 s01c02s03s02:2 c01s02s03c10:2 s01s02s03c10:2 s01s02c03c12:2 s01c02c03c20:2 s01s02c03c20:2 "
    "s01c02s03c20:2 s01s02s03c20:2 s01c02c03s20:2 s01s02c03s20:2 s01c02s03s20:2 s01s02c03c21:2 s01s02c10c02:2 "
    "s01s02c10s02:2 s01s02c10c20:2 s01s02c10s20:2 s01s02c12c03:2 s01c02s12c13:2 c01s02s12c23:2 s01s02c12c30:2 "
    "s01c02s12c31:2 c01s02s12c32:2 s01s02c20c01:2 s01c02s20c01:2 s01s02s20c01:2 s01c02c20c03:2 s01s02c20c03:2 "
    "s01c02s20c03:2 s01s02s20c03:2 s01s02c20c10:2 s01c02s20c10:2 s01s02s20c10:2 s01c02c20c30:2 s01s02c20c30:2 "
    "s01c02s20c30:2 s01s02s20c30:2 s01s02c21c03:2 s01c02s21c13:2 c01s02s21c23:2 s01s02c21c30:2 s01c02s21c31:2 "
    "c01s02s21c32:2 c01s02s30c01:2 s01s02s30c01:2 s01c02c30c02:2 s01s02c30c02:2 s01c02s30c02:2 s01s02s30c02:2 "
    "s01c02c30s02:2 s01s02c30s02:2 s01c02s30s02:2 c01s02s30c10:2 s01s02s30c10:2 s01s02c30c12:2 s01c02c30c20:2 "
    "s01s02c30c20:2 s01c02s30c20:2 s01s02s30c20:2 s01c02c30s20:2 s01s02c30s20:2 s01c02s30s20:2 s01s02c30c21:2 "
    "c01c10s02c03:2 s01c10s02c03:2 c01s10s02c03:2 s01s10s02c03:2 c01c10s02c30:2 s01c10s02c30:2 c01s10s02c30:2 "
    "s01s10s02c30:2 c01c10s12c13:2 s01c10s12c13:2 c01s10s12c13:2 s01s10s12c13:2 c01c10s12c31:2 s01c10s12c31:2 "
    "c01s10s12c31:2 s01s10s12c31:2 c01c10s20c03:2 s01c10s20c03:2 c01s10s20c03:2 s01s10s20c03:2 c01c10s20c30:2 "
    "s01c10s20c30:2 c01s10s20c30:2 s01s10s20c30:2 c01c10s21c13:2 s01c10s21c13:2 c01s10s21c13:2 s01s10s21c13:2 "
    "c01c10s21c31:2 s01c10s21c31:2 c01s10s21c31:2 s01s10s21c31:2 s01s12c01c12:2 s01s12c01s12:2 s01s12c01c21:2 "
    "s01s12c01s21:2 s01c12s02c03:2 s01s12c02c13:2 c01s12s02c23:2 s01c12s02c30:2 s01s12c02c31:2 c01s12s02c32:2 "
    "s01s12c10c12:2 s01s12c10s12:2 s01s12c10c21:2 s01s12c10s21:2 s01s12c12c01:2 s01c12s12c01:2 s01s12s12c01:2 "
    "s01s12c12c10:2 s01c12s12c10:2 s01s12s12c10:2 s01c12c12c13:2 s01s12c12c13:2 s01c12s12c13:2 s01s12s12c13:2 "
    "s01c12c12c31:2 s01s12c12c31:2 s01c12s12c31:2 s01s12s12c31:2 c01s12s13c01:2 s01s12s13c01:2 s01s12c13c02:2 "
    "c01s12s13c10:2 s01s12s13c10:2 s01c12c13c12:2 s01s12c13c12:2 s01c12s13c12:2 s01s12s13c12:2 s01c12c13s12:2 "
    "s01s12c13s12:2 s01c12s13s12:2 s01s12c13c20:2 s01c12c13c21:2 s01s12c13c21:2 s01c12s13c21:2 s01s12s13c21:2 "
    "s01c12c13s21:2 s01s12c13s21:2 s01c12s13s21:2 s01c12s20c03:2 s01s12c20c13:2 c01s12s20c23:2 s01c12s20c30:2 "
    "s01s12c20c31:2 c01s12s20c32:2 s01s12c21c01:2 s01c12s21c01:2 s01s12s21c01:2 s01s12c21c10:2 s01c12s21c10:2 "
    "s01s12s21c10:2 s01c12c21c13:2 s01s12c21c13:2 s01c12s21c13:2 s01s12s21c13:2 s01c12c21c31:2 s01s12c21c31:2 "
    "s01c12s21c31:2 s01s12s21c31:2 c01s12s31c01:2 s01s12s31c01:2 s01s12c31c02:2 c01s12s31c10:2 s01s12s31c10:2 "
    "s01c12c31c12:2 s01s12c31c12:2 s01c12s31c12:2 s01s12s31c12:2 s01c12c31s12:2 s01s12c31s12:2 s01c12s31s12:2 "
    "s01s12c31c20:2 s01c12c31c21:2 s01s12c31c21:2 s01c12s31c21:2 s01s12s31c21:2 s01c12c31s21:2 s01s12c31s21:2 "
    "s01c12s31s21:2 s01s20c01c02:2 s01s20c01s02:2 s01s20c01c20:2 s01s20c01s20:2 s01s20c02c01:2 s01c20s02c01:2 "
    "s01s20s02c01:2 s01c20c02c03:2 s01s20c02c03:2 s01c20s02c03:2 s01s20s02c03:2 s01s20c02c10:2 s01c20s02c10:2 "
    "s01s20s02c10:2 s01c20c02c30:2 s01s20c02c30:2 s01c20s02c30:2 s01s20s02c30:2 c01s20s03c01:2 s01s20s03c01:2 "
    "s01c20c03c02:2 s01s20c03c02:2 s01c20s03c02:2 s01s20s03c02:2 s01c20c03s02:2 s01s20c03s02:2 s01c20s03s02:2 "
    "c01s20s03c10:2 s01s20s03c10:2 s01s20c03c12:2 s01c20c03c20:2 s01s20c03c20:2 s01c20s03c20:2 s01s20s03c20:2 "
    "s01c20c03s20:2 s01s20c03s20:2 s01c20s03s20:2 s01s20c03c21:2 s01s20c10c02:2 s01s20c10s02:2 s01s20c10c20:2 "
    "s01s20c10s20:2 s01s20c12c03:2 s01c20s12c13:2 c01s20s12c23:2 s01s20c12c30:2 s01c20s12c31:2 c01s20s12c32:2 "
    "s01s20c20c01:2 s01c20s20c01:2 s01s20s20c01:2 s01c20c20c03:2 s01s20c20c03:2 s01c20s20c03:2 s01s20s20c03:2 "
    "s01s20c20c10:2 s01c20s20c10:2 s01s20s20c10:2 s01c20c20c30:2 s01s20c20c30:2 s01c20s20c30:2 s01s20s20c30:2 "
    "s01s20c21c03:2 s01c20s21c13:2 c01s20s21c23:2 s01s20c21c30:2 s01c20s21c31:2 c01s20s21c32:2 c01s20s30c01:2 "
    "s01s20s30c01:2 s01c20c30c02:2 s01s20c30c02:2 s01c20s30c02:2 s01s20s30c02:2 s01c20c30s02:2 s01s20c30s02:2 "
    "s01c20s30s02:2 c01s20s30c10:2 s01s20s30c10:2 s01s20c30c12:2 s01c20c30c20:2 s01s20c30c20:2 s01c20s30c20:2 "
    "s01s20s30c20:2 s01c20c30s20:2 s01s20c30s20:2 s01c20s30s20:2 s01s20c30c21:2 s01s21c01c12:2 s01s21c01s12:2 "
    "s01s21c01c21:2 s01s21c01s21:2 s01c21s02c03:2 s01s21c02c13:2 c01s21s02c23:2 s01c21s02c30:2 s01s21c02c31:2 "
    "c01s21s02c32:2 s01s21c10c12:2 s01s21c10s12:2 s01s21c10c21:2 s01s21c10s21:2 s01s21c12c01:2 s01c21s12c01:2 "
    "s01s21s12c01:2 s01s21c12c10:2 s01c21s12c10:2 s01s21s12c10:2 s01c21c12c13:2 s01s21c12c13:2 s01c21s12c13:2 "
    "s01s21s12c13:2 s01c21c12c31:2 s01s21c12c31:2 s01c21s12c31:2 s01s21s12c31:2 c01s21s13c01:2 s01s21s13c01:2 "
    "s01s21c13c02:2 c01s21s13c10:2 s01s21s13c10:2 s01c21c13c12:2 s01s21c13c12:2 s01c21s13c12:2 s01s21s13c12:2 "
    "s01c21c13s12:2 s01s21c13s12:2 s01c21s13s12:2 s01s21c13c20:2 s01c21c13c21:2 s01s21c13c21:2 s01c21s13c21:2 "
    "s01s21s13c21:2 s01c21c13s21:2 s01s21c13s21:2 s01c21s13s21:2 s01c21s20c03:2 s01s21c20c13:2 c01s21s20c23:2 "
    "s01c21s20c30:2 s01s21c20c31:2 c01s21s20c32:2 s01s21c21c01:2 s01c21s21c01:2 s01s21s21c01:2 s01s21c21c10:2 "
    "s01c21s21c10:2 s01s21s21c10:2 s01c21c21c13:2 s01s21c21c13:2 s01c21s21c13:2 s01s21s21c13:2 s01c21c21c31:2 "
    "s01s21c21c31:2 s01c21s21c31:2 s01s21s21c31:2 c01s21s31c01:2 s01s21s31c01:2 s01s21c31c02:2 c01s21s31c10:2 "
    "s01s21s31c10:2 s01c21c31c12:2 s01s21c31c12:2 s01c21s31c12:2 s01s21s31c12:2 s01c21c31s12:2 s01s21c31s12:2 "
    "s01c21s31s12:2 s01s21c31c20:2 s01c21c31c21:2 s01s21c31c21:2 s01c21s31c21:2 s01s21s31c21:2 s01c21c31s21:2 "
    "s01s21c31s21:2 s01c21s31s21:2 "
).split()


# circuits whose optimal gamma exceeds the built-in default limit 1024 of OptimizationSettings (the demo class of seeded change
# C08-r3-2): (nq, gates, W, (gate_lo, wire_lo))
LARGE_CIRCUITS = [
    (3, [("swap", 0, 2), ("swap", 0, 1), ("swap", 1, 2), ("cx", 1, 0), ("cx", 0, 1)], 1, (True, True)),       # 7*7*7*3*3 = 3087
    (4, [("swap", 0, 1), ("swap", 3, 1), ("swap", 3, 0), ("swap", 2, 0), ("cx", 0, 1)], 1, (True, True)),     # 7^4 * 3 = 7203
    (3, [("swap", 0, 1), ("swap", 1, 2), ("swap", 0, 2), ("cx", 1, 2), ("cx", 2, 0)], 2, (False, True)),      # seven wire cuts
    (4, [("swap", 0, 2), ("iswap", 2, 1), ("swap", 2, 3), ("iswap", 2, 3), ("swap", 3, 0)], 1, (True, False)),  # 7^5 = 16807
]
LARGE_GAMMAS = [2000, 4096, 30870, 10 ** 6, 10.0 ** 9, 2.0 ** 60, 1e18]


def _decode_rewired(item):
    body, W = item.split(":")
    ops = [dict(name={"c": "cx", "s": "swap"}[body[k]], qs=[int(body[k + 1]), int(body[k + 2])]) for k in range(0, len(body), 3)]
    return max(max(o["qs"]) for o in ops) + 1, ops, int(W)


def _job(case):
    """run the implementation and the independent brute-force oracle on one case (also executed in worker processes)"""
    analyse(case)
    case["oracle"] = judge(case, budget=400_000)
    return case


def generate(rng, tier, outdir):
    w = CaseWriter(outdir, IMPORTS, case_types={"chk_c08": "case8"})
    quick = tier == "quick"
    w.SHARD = 150 if quick else 500
    visit_cap = 3000 if quick else 20000

    def emit(group, inp, nontrivial=None, thin=False):
        return record(group, _job(dict(kind=group, input=inp)), nontrivial, thin)

    def record(group, case, nontrivial=None, thin=False):
        inp = case["input"]
        runs = case["runs"]
        if thin and all(r["status"] != "ok" or r["n_cuts"] == 0 for r in runs) and rng.random() > 0.25:
            return None           # keep only a fraction of the uninformative outcomes (no cut needed / refusal)
        case["check_model"] = not any(r["visited"] > visit_cap for r in runs)
        if not case["check_model"]:
            # too deep for the model-evaluation budget: not compared with the model, still judged by the oracle (k_oracle)
            w.count(group + ".deep", f"more than {visit_cap} states visited: judged by the oracle only")
            for r in runs:
                if r["seed"] is not None:
                    r["tape"] = []          # reproducible from the seed; keeps the JSON small
        gg = [r.get("greedy_gamma") for r in runs if r.get("greedy_gamma")]
        if gg and Fraction(gg[0]) >= (1 << 26):
            w.count(group + ".skipped", "greedy gamma >= 2^26 (gamma**2 not exact in binary64)")
            return None
        gates = _gates_of(case)
        # oracle contracts
        w.contract("gate gamma >= 1 (hypothesis of c08_cost_monotone)", all(g is None or g >= 1 for _, _, g in gates))
        for r in runs:
            w.contract("tape values in [0,1)", all(0 <= Fraction(t) < 1 for t in r["tape"]))
            w.count(group + ".status", r["status"])
            if r["status"] == "ok":
                w.count(group + ".minimum_reached", r["minimum_reached"])
        # the independent oracle ran on every generated case; a case it rejects is marked in the Coq literal (k_oracle = false),
        # so it is reported as a disagreement even if model and implementation agree with each other
        orc = case["oracle"]
        w.contract("judge_accepts_clean_case", not orc["violates"])
        if orc.get("optimum") is not None and Fraction(inp["max_gamma"]) == Fraction(orc["optimum"]):
            w.count(group + ".max_gamma_exactly_at_optimum", True)
        if inp["W"] > inp["nq"]:
            w.count(group + ".W_above_nq", True)
        w.count(group + ".oracle_verdict", "VIOLATES" if orc["violates"] else ("consistent" if orc.get("decided") else "outside domain / undecided"))
        if orc.get("optimum") is not None:
            opt = Fraction(orc["optimum"])
            below = Fraction(inp["max_gamma"]) < opt
            w.count(group + ".max_gamma_vs_optimum", "below the optimum" if below else "at or above the optimum")
            w.count(group + ".unrestricted", bool(orc.get("unrestricted")))
            ok = [r for r in runs if r["status"] == "ok"]
            w.count(group + ".returned", "optimum" if ok and all(Fraction(r["overhead"]) == opt * opt for r in ok) else
                    ("above optimum" if ok else "no result"))
            w.count(group + ".optimal_gamma", str(opt) if opt < 50 else ">=50")
        elif orc.get("decided") and "no feasible" in orc["detail"]:
            w.count(group + ".max_gamma_vs_optimum", "no assignment meets the width limit")
        nt = any(r["status"] == "ok" and r["n_cuts"] > 0 for r in runs) if nontrivial is None else nontrivial
        w.add(group, "chk_c08", case_lit(case), case, nontrivial=nt)
        return case

    # ---- corpus of past disagreements: the F3 witness class (max_gamma below / at the optimum), runs first ----
    for nq, gl in WITNESS_CIRCUITS:
        ops = [dict(name=n, qs=[a, b]) for n, a, b in gl]
        for (g_lo, w_lo) in LO:
            for mg in (1, 2, 3, 8):
                for mb in (10000, None):
                    emit("witness", dict(nq=nq, ops=ops, W=2, gate_lo=g_lo, wire_lo=w_lo, max_gamma=mg, max_backjumps=mb,
                                         seeds=[0, 1, None]))

    # ---- corpus: optimum = wire cut of a qubit followed by a gate cut touching the re-wired qubit; unrestricted search ----
    for k, item in enumerate(REWIRED_CORPUS):
        nq, ops, W = _decode_rewired(item)
        if not quick or k < 60 or k % 3 == 0:
            emit("rewired", dict(nq=nq, ops=ops, W=W, gate_lo=True, wire_lo=True, max_gamma=1024, max_backjumps=None,
                                 seeds=[k % 97, None]))

    # ---- bounded-exhaustive: every circuit up to relabelling on <= 4 qubits, every W and cut-kind combination ----
    gmax_full = 3 if quick else 4
    n_sample = 300 if quick else 0
    it = 0

    sched = {}

    def small_case(nq, ops, W, lo, it):
        # `it` advances once per (circuit, W, lo) with lo innermost; the schedule is driven by the request index it // 3 shifted by
        # the position of lo, so that every cut-kind combination meets every max_gamma / max_backjumps (checked below)
        j = LO.index(tuple(lo))
        h = (it // 3) * 3 + (it // 3 + j) % 3 + 7 * j
        mg = MAX_GAMMAS[(h * 5 + h // 7) % len(MAX_GAMMAS)] if h % 3 else 1024
        mb = BACKJUMPS[(h // 2 + h // 11) % len(BACKJUMPS)] if h % 2 else None
        s = int(rng.integers(0, 1000))
        seeds = [s, s + 1] if h % 4 else [s, None]
        sched.setdefault((j, mg), 0)
        sched[(j, mg)] += 1
        w.count("exhaustive.cut_kinds_x_max_gamma", f"gate={lo[0]},wire={lo[1]} x {mg}")
        return dict(nq=nq, ops=ops, W=W, gate_lo=lo[0], wire_lo=lo[1], max_gamma=mg, max_backjumps=mb, seeds=seeds)

    jobs = []
    for g in range(1, gmax_full + 1):
        for ci, (nq, ops) in enumerate(small_circuits(g)):
            # quick tier, 3 gates: every circuit and cut-kind combination, but one width per circuit (rotating over 1..n)
            for W in ([1 + ci % nq] if (quick and g == 3) else range(1, nq + 1)):
                for lo in LO:
                    inp = small_case(nq, ops, W, lo, it)
                    if g == 4 or (quick and g == 3):
                        inp["seeds"] = inp["seeds"][-1:] if it % 5 == 0 else inp["seeds"][:1]   # one seed each (sometimes None)
                    jobs.append(dict(kind="exhaustive", input=inp))
                    it += 1
    if quick or len(jobs) < 2000:
        done = map(_job, jobs)
    else:
        import multiprocessing as mp
        nproc = max(1, min(8, int(os.environ.get("CKT_JOBS", "8"))))
        pool_ = mp.get_context("fork").Pool(nproc)
        done = pool_.imap(_job, jobs, chunksize=256)
    for case in done:
        record("exhaustive", case)
        w.count("exhaustive.gates", len(case["input"]["ops"]))
    if n_sample:
        pool = list(small_circuits(4))
        for k in range(n_sample):
            nq, ops = pool[int(rng.integers(0, len(pool)))]
            W = int(rng.integers(1, nq + 1))
            lo = LO[int(rng.integers(0, 3))]
            emit("exhaustive", small_case(nq, ops, W, lo, it))
            w.count("exhaustive.gates", str(len(ops)) + " (random sample)")
            it += 1

    w.contract("exhaustive stream: every cut-kind combination meets every max_gamma",
               all(sched.get((j, mg), 0) > 0 for j in range(3) for mg in MAX_GAMMAS))

    # ---- limits far ABOVE the built-in default 1024, optimum above 1024: 5-6 gates that (nearly) all have to be cut ----
    # (public find_cuts entry point; an unrestricted request must report the minimum as reached whatever the size of the limit)
    for nq, gl, W, lo in LARGE_CIRCUITS:
        ops = [dict(name=n, qs=[a, b]) for n, a, b in gl]
        for mg in (30870, 10.0 ** 9):
            emit("large", dict(nq=nq, ops=ops, W=W, gate_lo=lo[0], wire_lo=lo[1], max_gamma=mg, max_backjumps=None, seeds=[0, None]))
    n_large = 24 if quick else 400
    kept = 0
    while kept < n_large:
        nq = int(rng.integers(3, 5))
        n2q = int(rng.integers(5, 7))
        ops = []
        for _ in range(n2q):
            a, b = [int(x) for x in rng.permutation(nq)[:2]]
            ops.append(dict(name=str(rng.choice(["swap", "iswap", "swap", "cx"])), qs=[a, b]))
        W = 1 if rng.random() < 0.6 else 2
        lo = (True, True) if W == 1 and rng.random() < 0.6 else LO[int(rng.integers(0, 3))]
        if W == 1 and not lo[0]:
            lo = (True, False)              # W = 1 without gate cuts admits no solution at all
        mg = LARGE_GAMMAS[int(rng.integers(0, len(LARGE_GAMMAS)))]
        s0 = int(rng.integers(0, 1000))
        case = emit("large", dict(nq=nq, ops=ops, W=W, gate_lo=lo[0], wire_lo=lo[1], max_gamma=mg, max_backjumps=None, seeds=[s0, None]))
        if case is None:
            continue
        kept += 1
        w.count("large.max_gamma", mg)
        w.count("large.W", W)
        opt = (case.get("oracle") or {}).get("optimum")
        w.count("large.optimum", "undecided" if opt is None else ("above 1024" if Fraction(opt) > 1024 else "at most 1024"))
        if opt is not None and Fraction(opt) > 1024:
            w.count("large.optimum_above_default_and_below_limit", Fraction(opt) <= Fraction(mg))

    # ---- corpus "repeat": a gate REPEATED on one qubit pair (the second application finds both qubits in one subcircuit already),
    # then a gate to a third qubit, optionally one more gate; wire cuts only and wire+gate cuts; tight W; unrestricted search.
    # (the class of seeded change C08-r4-1: ApplyGate inside one subcircuit must yield a NEW state, or the CutBothWires sibling skips
    # the following gate and an overhead below every feasible choice is reported) ----
    rep = []
    for k1, k2 in (("cx", "cx"), ("cx", "swap"), ("swap", "cx")):
        for third in (("cx", 0, 2), ("cx", 1, 2), ("cx", 2, 0)):
            for fourth in (None, ("cx", 0, 1), ("cx", 1, 0), ("swap", 1, 2)):
                gl = [(k1, 0, 1), (k2, 0, 1), third] + ([fourth] if fourth else [])
                rep.append((3, gl, 2))
    rep += [(4, [("cx", 0, 1), ("cx", 0, 1), ("cx", 1, 2), ("cx", 2, 3), ("cx", 0, 1)], 3),
            (4, [("cx", 0, 1), ("swap", 0, 1), ("cx", 0, 2), ("cx", 0, 3), ("cx", 1, 0)], 3),
            (4, [("cx", 0, 1), ("cx", 1, 0), ("cx", 0, 1), ("cx", 1, 2), ("cx", 2, 3)], 2),
            (4, [("swap", 2, 3), ("cx", 2, 3), ("cx", 3, 1), ("cx", 1, 0), ("cx", 2, 3)], 2)]
    for k, (nq, gl, W) in enumerate(rep):
        ops = [dict(name=n, qs=[a, b]) for n, a, b in gl]
        for j, lo in enumerate(((False, True), (True, True))):
            if quick and j == 1 and k % 2:
                continue
            emit("repeat", dict(nq=nq, ops=ops, W=W, gate_lo=lo[0], wire_lo=lo[1], max_gamma=(1024 if k % 3 else 10.0 ** 9),
                                max_backjumps=None, seeds=[k % 7, None]))

    # ---- limits below the optimum on purpose: small circuits with max_gamma in {1, 2} (the F3 trigger, found afresh) ----
    pool34 = [c for g in (3, 4) for c in small_circuits(g)]
    for k in range(150 if quick else 1500):
        nq, ops = pool34[int(rng.integers(0, len(pool34)))]
        W = int(rng.integers(1, nq))
        lo = LO[int(rng.integers(0, 3))]
        s0 = int(rng.integers(0, 1000))
        emit("below", dict(nq=nq, ops=ops, W=W, gate_lo=lo[0], wire_lo=lo[1], max_gamma=int(rng.integers(1, 3)),
                           max_backjumps=(None if rng.random() < 0.5 else 10000), seeds=[s0, None]))

    # ---- random circuits on 2..6 qubits with <= 7 two-qubit gates, all limits, several seeds ----
    n_rand = 260 if quick else 5000
    kept = 0
    while kept < n_rand:
        nq = int(rng.integers(2, 7))
        n2q = int(rng.integers(1, 8))
        shapes = rng.random() < 0.5
        kinds = ["cx", "swap", "cz", "iswap"] if shapes else ["cx", "swap"]
        ops = rand_ops(rng, nq, n2q, kinds, p_idle=0.1, p_barrier=(0.12 if shapes else 0.0), p_1q=0.25,
                       opaque=(shapes and rng.random() < 0.4))
        if shapes and rng.random() < 0.3:
            for o in ops:                      # a gate of gamma exactly 1 (cutting it is free)
                if o["name"] in kinds and len(o["qs"]) == 2 and rng.random() < 0.3:
                    o["name"], o["params"] = "rzz", [0.0]
        W = int(rng.integers(1, nq + 1)) if rng.random() < 0.3 else int(rng.integers(1, max(2, nq // 2 + 1) + 1))
        W = min(W, nq) if rng.random() < 0.95 else nq + 1
        w.count("random.shapes", "barriers / opaque 2-qubit instruction / cz, iswap / gamma-1 gate" if shapes else "cx, swap only")
        gl, wl = LO[int(rng.integers(0, 3))]
        mg = MAX_GAMMAS[int(rng.integers(0, len(MAX_GAMMAS)))]
        mb = BACKJUMPS[int(rng.choice(len(BACKJUMPS), p=[0.1, 0.15, 0.15, 0.25, 0.35]))]
        s = int(rng.integers(0, 1000))
        inp = dict(nq=nq, ops=ops, W=W, gate_lo=gl, wire_lo=wl, max_gamma=mg, max_backjumps=mb, seeds=[s, s + 17, None])
        if emit("random", inp, thin=True) is None:
            continue
        kept += 1
        w.count("random.nq", nq)
        w.count("random.n2q", n2q)
        w.count("random.W", W)
        w.count("random.max_gamma", mg)
        w.count("random.max_backjumps", mb)
        w.count("random.cut_kinds", f"gate={gl},wire={wl}")

    # ---- malformed stream ----
    n_mal = 20 if quick else 150
    for k in range(n_mal):
        nq = int(rng.integers(2, 5))
        ops = rand_ops(rng, nq, int(rng.integers(1, 4)), ["cx", "swap"], p_idle=0.0, p_barrier=0.0, p_1q=0.2)
        inp = dict(nq=nq, ops=ops, W=int(rng.integers(1, nq + 1)), gate_lo=True, wire_lo=True, max_gamma=1024, max_backjumps=None,
                   seeds=[int(rng.integers(0, 100))])
        mode = k % 5
        if mode == 4:
            # a three-qubit gate: "must contain only single and two-qubit gates" (refusal theorem c08_wide_gate_no_result)
            nq = max(nq, 3)
            inp["nq"] = nq
            qs3 = [int(x) for x in rng.permutation(nq)[:3]]
            inp["ops"] = list(ops) + [dict(name="ccx", qs=qs3)] + rand_ops(rng, nq, 1, ["cx"], p_idle=0.0, p_barrier=0.0, p_1q=0.0)
            inp["W"] = int(rng.integers(1, nq + 1))
        elif mode == 0:
            inp["max_gamma"] = 0.5
        elif mode == 1:
            inp["max_backjumps"] = -1
        elif mode == 2:
            inp["gate_lo"] = inp["wire_lo"] = False
            inp["W"] = 1
        else:
            inp["W"] = 0
        w.count("malformed.mode", ["max_gamma<1", "max_backjumps<0", "no cut kind, W=1", "W=0", "three-qubit gate"][mode])
        emit("malformed", inp, nontrivial=True)

    # ---- stream "budget": incumbents BETWEEN the steps of the wire-cut budget.  The exact search may add at most
    # max_wire_cuts_gamma(greedy gamma) wires, a step function of the incumbent with steps at 3, 7, 15, ...; cx/swap circuits only ever
    # produce incumbents ON the steps (3, 7, 9, 21, ...).  Gate kinds here: cx (gamma 3) and rzz(asin s), s in {1/4, 1/2, 3/4}, whose
    # kappa is exactly 3/2, 2, 5/2 in binary64 (contract below), so that all products stay exact and the model comparison stays strict.
    # Kept: circuits of the bounded space (<= 4 qubits, 3-4 gates from TWO kinds of different gamma, a qubit pair used twice) in which the
    # brute force of this file finds a choice WITH wire cuts strictly cheaper than every choice of gate cuts only (both gate orientations
    # occur, so the cheaper wire cut is a first or a second input); gate and wire cuts allowed, unrestricted search. ----
    import math
    from collections import Counter
    mid = [("cx", None, Fraction(3)), ("rzz", math.asin(0.5), Fraction(2)), ("rzz", math.asin(0.25), Fraction(3, 2)),
           ("rzz", math.asin(0.75), Fraction(5, 2))]

    def mid_op(k, a, b):
        name, theta, _ = mid[k]
        return dict(name=name, qs=[a, b]) if theta is None else dict(name=name, qs=[a, b], params=[theta])

    def budget_case(nq, kseq, W, seeds):
        case = emit("budget", dict(nq=nq, ops=[mid_op(k, a, b) for k, a, b in kseq], W=W, gate_lo=True, wire_lo=True, max_gamma=1024,
                                   max_backjumps=None, seeds=seeds))
        got = sorted(Fraction(v[0]) for v in case["gtab"].values())
        w.contract("budget stream: gate kappas are exactly the intended dyadic values", got == sorted({mid[k][2] for k, _, _ in kseq}))
        gg = [r.get("greedy_gamma") for r in case["runs"] if r.get("greedy_gamma")]
        if gg:
            g0 = Fraction(gg[0])
            w.count("budget.greedy_gamma", "in (4,7)" if 4 < g0 < 7 else ("in [7,15)" if 7 <= g0 < 15 else ("<= 4" if g0 <= 4 else ">= 15")))
        w.count("budget.optimal_gamma_exact", (case.get("oracle") or {}).get("optimum"))

    # fixed part: a doubled bond followed by a doubled bond to a third qubit, the second bond in both orientations
    for k1, k2 in ((0, 1), (1, 1), (1, 3), (3, 3), (0, 2), (2, 0)):
        for (a, b) in ((1, 2), (2, 1)):
            budget_case(3, [(k1, 0, 1), (k2, 0, 1), (k2, a, b), (k1, a, b)], 2, [k1 + 2 * k2, None])
    # targeted part
    bpool = [sq for g in (3, 4) for sq in canon_seqs(g)
             if max(max(pq) for pq in sq) >= 2 and max(Counter(frozenset(pq) for pq in sq).values()) >= 2]
    kept = tried = 0
    n_budget = 50 if quick else 600
    while kept < n_budget and tried < 400 * n_budget:
        tried += 1
        sq = bpool[int(rng.integers(0, len(bpool)))]
        nq = max(max(pq) for pq in sq) + 1
        k1, k2 = [int(x) for x in rng.permutation(len(mid))[:2]]
        kseq = [(k1 if rng.random() < 0.5 else k2, a, b) for a, b in sq]
        W = int(rng.integers(2, nq))
        s0 = int(rng.integers(0, 1000))
        glist = [(a, b, mid[k][2]) for k, a, b in kseq]
        og = brute_optimum(nq, glist, W, True, False)[0]
        if og is None or og <= 4:
            continue
        if not brute_optimum(nq, glist, W, True, True)[0] < og:
            continue
        kept += 1
        budget_case(nq, kseq, W, [s0, None] if kept % 2 else [s0])
    w.contract("budget stream: enough circuits whose optimum needs a wire cut", kept == n_budget)

    return w.finish(
        rule="(1) corpus: the F3 witness class (cx;swap chains, W=2, max_gamma in {1,2,3,8}, every cut-kind combination, 3 seeds incl. None); "
             "(1b) corpus of %d circuits of the bounded space whose every brute-force optimum wire-cuts a qubit and later gate-cuts a gate touching "
             "the re-wired qubit (gate and wire cuts allowed, tight W, unrestricted search, 2 seeds; quick tier: the first 60 and every third); "
             "(2) bounded-exhaustive: every circuit up to qubit relabelling on <=4 qubits with <=%s two-qubit gates from {cx: gamma 3, swap: gamma 7}"
             "%s, every W in 1..n (quick tier, 3 gates: one W per circuit, rotating) and every cut-kind combination, max_gamma/max_backjumps cycling through %s / %s so that every cut-kind combination "
             "meets every limit, 2 seeds (1 seed for 4 gates and for 3 gates in the quick tier); searches beyond the model-evaluation budget are judged by the oracle only; "
             "(2a) limits far above the built-in default 1024: 4 fixed circuits with optimal gamma 3087..16807 and random circuits on 3-4 qubits with 5-6 gates "
             "from {cx, swap, iswap}, W in {1,2}, max_gamma in %s, no backjump limit, 2 seeds incl. None, through the public find_cuts; "
             "(2a') corpus 'repeat': 40 circuits with a gate repeated on one qubit pair followed by a gate to a third qubit (3-5 gates, 3-4 qubits), "
             "wire cuts only and wire+gate cuts, W = 2 or 3, unrestricted search, 2 seeds incl. None; "
             "(2b) random circuits of that space with 3-4 gates, W < n, max_gamma in {1,2} (limits below the optimum on purpose); "
             "(2c) stream 'budget': incumbents between the steps 3, 7, 15 of the wire-cut budget max_wire_cuts_gamma(greedy gamma): circuits of the bounded space "
             "(3-4 qubits, 3-4 gates from two of the kinds cx: 3, rzz(asin 1/2): 2, rzz(asin 1/4): 3/2, rzz(asin 3/4): 5/2 - kappas exact in binary64 -, a qubit pair used twice) "
             "in which the brute force finds a choice with wire cuts strictly cheaper than every gate-cut-only choice (12 fixed doubled-bond chains + %d drawn from rng), "
             "gate and wire cuts, W < n, unrestricted search, 1-2 seeds incl. None, compared strictly with the model and judged; "
             "(3) random circuits on 2..6 qubits with 1..7 two-qubit gates (idle qubits, arbitrary first use, one-qubit gates; half of them also "
             "with partial/full barriers, opaque 2-qubit non-Gate instructions, cz/iswap (equal gammas) and rzz(0) of gamma 1; W occasionally n+1), max_gamma in %s "
             "(limits below the optimum included), max_backjumps in %s, 3 seeds incl. None; (4) malformed: invalid settings, no cut kind, W=0, a three-qubit gate. "
             "Compared EXACTLY per seed with the model fed the recorded queue tape: sampling_overhead and minimum_reached (or the refusal). "
             "non-trivial = at least one cut made." % (
                 len(REWIRED_CORPUS), gmax_full, " plus a random sample of %d circuits with 4 gates" % n_sample if n_sample else "",
                 MAX_GAMMAS, BACKJUMPS, LARGE_GAMMAS, n_budget, MAX_GAMMAS, BACKJUMPS),
        extra=dict(extra=dict(strict=True)))

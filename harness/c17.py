"""C17 correspondence: observables_restricted_to_subsystem, decompose_observables,
expand_observables  vs  Model/Observables.v.

Every call of the implementation is recorded as an OUTCOME (ok / refused / crashed) -- generation never
asserts on what the implementation does.  Circuits of the expand stream are described by a replayable
LAYOUT (list of build operations over numbered bit objects) stored in the JSON case, so that `rerun`
rebuilds the same registers / loose bits / classical bits / overlaps / transform calls.
"""
from __future__ import annotations

import os
import re
import traceback

import numpy as np
from qiskit.circuit import (QuantumCircuit, QuantumRegister, Qubit, ClassicalRegister, AncillaRegister,
                            AncillaQubit, Clbit)
from qiskit.quantum_info import Pauli, PauliList

from qiskit_addon_cutting.utils.observable_grouping import observables_restricted_to_subsystem
from qiskit_addon_cutting.cutting_decomposition import decompose_observables
from qiskit_addon_cutting.wire_cutting_transforms import expand_observables, cut_wires, _transform_cuts_to_moves
from qiskit_addon_cutting.instructions import CutWire

from common import CaseWriter, Res, Raw, Opt, Interner, call_canon, tagged, untag

IMPORTS = "From CKT Require Import Common.Base Model.Observables Corr.C17Corr."
CASE_TYPES = {
    "chk_restrict": "bool * nat * list nat * list pauli * res (list pauli)",
    "chk_decompose": "bool * nat * list nat * list pauli * res (list (nat * list pauli))",
    "chk_expand": "nat * list nat * list nat * list pauli * res (list pauli) * option (option refusal)",
}
LET = {(False, False): 0, (True, False): 1, (True, True): 2, (False, True): 3}
LETTERS = "IXYZ"  # model code -> letter
XBIT = [False, True, True, False]
ZBIT = [False, False, True, True]


# ----------------------------------------------------------------------------------------------
# canonical forms
# ----------------------------------------------------------------------------------------------
def canon_pauli(p: Pauli):
    x = [bool(b) for b in p.x]
    z = [bool(b) for b in p.z]
    return (int(p.phase), [LET[(a, b)] for a, b in zip(x, z)])


def canon_plist(pl):
    return [canon_pauli(p) for p in pl]


def coq_pauli(c):
    return Raw(f"(P {c[0]} [{'; '.join(str(l) for l in c[1])}])")


def mk_plist(n, canon):
    """PauliList with len(canon) rows on n qubits (n = 0 and zero rows are legal) from [(phase, letters)]."""
    k = len(canon)
    z = np.zeros((k, n), dtype=bool)
    x = np.zeros((k, n), dtype=bool)
    ph = np.zeros(k, dtype=int)
    for r, (p, lets) in enumerate(canon):
        ph[r] = p
        for q, l in enumerate(lets):
            x[r, q] = XBIT[l]
            z[r, q] = ZBIT[l]
    return PauliList.from_symplectic(z, x, ph)


def rand_canon(rng, n, k):
    return [(int(rng.integers(0, 4)), [int(rng.integers(0, 4)) for _ in range(n)]) for _ in range(k)]


def rand_k(rng, kmax):
    """number of observables: 0 (empty list) in about 7% of the draws, else 1..kmax"""
    return 0 if rng.integers(0, 14) == 0 else int(rng.integers(1, kmax + 1))


def rand_n(rng, nmax=8):
    """number of qubits 0..nmax, the boundary values 0 and nmax over-represented"""
    r = int(rng.integers(0, 12))
    if r == 0:
        return 0
    if r == 1:
        return nmax
    return int(rng.integers(0, nmax + 1))


LABEL_POOL = [0, 1, 2, "A", "B", "foo", (1, 2), ("a", 0), None, 3.5, True, frozenset([1]), -7, "",
              False, 0.0, 1.0, 2.0, "a", (), (None,), 10**20]


def tag17(x):
    """tagged() of common.py extended by numpy scalars (labels equal by ==/hash to a Python number but distinct objects)"""
    if isinstance(x, np.bool_):
        return ["np_bool", bool(x)]
    if isinstance(x, np.integer):
        return ["np_int", int(x)]
    if isinstance(x, np.floating):
        return ["np_float", float(x)]
    return tagged(x)


def untag17(t):
    """a FRESH object per call where Python allows it (tuples, frozensets, numpy scalars): labels that are equal by == but
    distinct objects are the normal case in every call the harness makes"""
    if t[0] == "np_bool":
        return np.bool_(t[1])
    if t[0] == "np_int":
        return np.int64(t[1])
    if t[0] == "np_float":
        return np.float64(t[1])
    return untag(t)


def clone_equal(l):
    """an object of another type that is the same dict key (same hash, ==): numpy scalar for a Python number"""
    if isinstance(l, bool):
        return np.bool_(l)
    if isinstance(l, int) and abs(l) < 2**62:
        return np.int64(l)
    if isinstance(l, float):
        return np.float64(l)
    return l


def dict_key_eq(a, b):
    """Python's dict-key equality (hash equal and (identical or ==)), decided by a dict itself"""
    return len({a: None, b: None}) == 1


def interning_monitor(objs, ids):
    """(contract premise of c17_interning_contract, equivalence hypotheses of c17_interner_sound) on the objects of one call:
    ids[i] == ids[j]  <->  objs[i], objs[j] are the same dict key;   dict-key equality is reflexive, symmetric, transitive"""
    m = len(objs)
    eq = [[dict_key_eq(objs[i], objs[j]) for j in range(m)] for i in range(m)]
    contract = all((ids[i] == ids[j]) == eq[i][j] for i in range(m) for j in range(m))
    equiv = all(eq[i][i] for i in range(m)) and all(eq[i][j] == eq[j][i] for i in range(m) for j in range(m))
    if equiv:  # given reflexivity and symmetry, transitivity <=> equal objects have equal rows
        equiv = all(eq[i] == eq[j] for i in range(m) for j in range(m) if eq[i][j])
    return contract, equiv


def outcome(r, conv):
    """('ok', v) -> ['ok', conv(v)];  ('refused'|'crashed', msg) -> [status, msg]; a conv failure is recorded, not raised"""
    if r[0] != "ok":
        return [r[0], r[1]]
    try:
        return ["ok", conv(r[1])]
    except Exception as e:  # noqa: BLE001  the implementation returned something that is not the documented container
        return ["crashed", f"unreadable return value {type(r[1]).__name__}: {type(e).__name__}: {str(e)[:120]}"]


def res_of(o, conv):
    return Res("ok", conv(o[1])) if o[0] == "ok" else Res(o[0])


# ----------------------------------------------------------------------------------------------
# restrict
# ----------------------------------------------------------------------------------------------
QFORMS = ["list", "list", "list", "tuple", "range", "ndarray", "npints"]


def qubits_arg(qs, form, qrange=None):
    if form == "tuple":
        return tuple(qs)
    if form == "range":
        return range(*qrange)
    if form == "ndarray":
        return np.array(qs, dtype=np.int64)
    if form == "npints":
        return [np.int64(q) for q in qs]
    return list(qs)


def call_restrict(case):
    pl = mk_plist(case["n"], case["paulis"])
    arg = list(pl) if case["aslist"] else pl
    r = call_canon(observables_restricted_to_subsystem, qubits_arg(case["qs"], case["qform"], case.get("qrange")), arg)
    case["impl"] = outcome(r, canon_plist)
    return case


def gen_restrict(rng, w, cases, it):
    n = rand_n(rng)
    k = rand_k(rng, 5)
    cin = rand_canon(rng, n, k)
    mode = int(rng.integers(0, 20))
    qform = QFORMS[int(rng.integers(0, len(QFORMS)))]
    qrange = None
    if qform == "range":
        a, b = sorted(int(v) for v in rng.integers(0, n + 1, size=2))
        st = int(rng.integers(1, 4))
        qrange = [a, b, st] if rng.integers(0, 2) else [b - 1, a - 1, -st]  # ascending a..b-1 / descending b-1..a
        qs = list(range(*qrange))
        kind = "range"
    elif mode < 12 or n == 0:  # subset in random order (incl. empty, full permutations)
        m = int(rng.integers(0, n + 1))
        if rng.integers(0, 4) == 0:
            m = n
        qs = [int(q) for q in rng.permutation(n)[:m]]
        kind = "subset"
    elif mode < 14:  # with repeats (outside the property's "subsets": recorded, compared with the model, not judged)
        qs = [int(q) for q in rng.integers(0, n, size=int(rng.integers(1, n + 3)))]
        kind = "repeats"
    elif mode < 16:  # all, reversed / ascending
        qs = list(range(n))[::-1] if rng.integers(0, 2) else list(range(n))
        kind = "all"
    else:  # out of range (malformed stream)
        qs = [int(q) for q in rng.integers(0, n + 2, size=int(rng.integers(0, 4)))] + [n + int(rng.integers(0, 3))]
        if rng.integers(0, 2):
            qs = qs[::-1]
        kind = "out_of_range"
    if n == 0 and mode >= 18 and qform != "range":  # 0-qubit observables, any index is out of range
        qs = [int(rng.integers(0, 2))]
        kind = "out_of_range"
    aslist = bool(rng.integers(0, 3) == 0)
    case = dict(kind="restrict", n=n, qs=qs, qform=qform, qrange=qrange, paulis=[[p, l] for p, l in cin], aslist=aslist)
    call_restrict(case)
    o = case["impl"]
    exp = res_of(o, lambda v: [coq_pauli(c) for c in v])
    w.add("restrict", "chk_restrict", (aslist, n, qs, [coq_pauli(c) for c in cin], exp), case,
          nontrivial=(len(qs) > 0 and k > 0 and o[0] == "ok"))
    cases.append(case)
    w.count("restrict.n", n)
    w.count("restrict.k", k)
    w.count("restrict.request", kind)
    w.count("restrict.outcome", o[0])
    w.count("restrict.path", "list" if aslist else "PauliList")
    w.count("restrict.qubits_arg", qform)


# ----------------------------------------------------------------------------------------------
# decompose_observables
# ----------------------------------------------------------------------------------------------
def call_decompose(case):
    pl = mk_plist(case["n"], case["paulis"])
    arg = list(pl) if case["aslist"] else pl
    labels = [untag17(t) for t in case["labels"]]
    r = call_canon(decompose_observables, arg, labels)
    case["impl"] = outcome(r, lambda d: [[tag17(l), canon_plist(v)] for l, v in d.items()])
    # the glue the model states (Model/ObservablesExt.v): ids by first appearance = dict-key classes; a dict keeps the FIRST key object
    intern = Interner()
    ids = [intern(l) for l in labels]
    contract, equiv = interning_monitor(labels, ids)
    first = True
    if r[0] == "ok" and isinstance(r[1], dict):
        firsts = {}
        for l in labels:
            firsts.setdefault(l, l)
        first = all(any(kk is f for f in firsts.values()) for kk in r[1].keys())
    case["glue"] = dict(interning_is_dict_key_equality=bool(contract), dict_key_equality_is_equivalence=bool(equiv),
                        dict_keeps_first_key_object=bool(first))
    return case


def gen_decompose(rng, w, cases, it):
    n = rand_n(rng)
    mode = int(rng.integers(0, 12))
    nlab = n
    if mode == 0:  # more labels than qubits: the out-of-range index inside decompose (IndexError)
        nlab = n + int(rng.integers(1, 3))
    elif mode == 1 and n > 0:  # fewer labels than qubits: not validated by the source, trailing qubits dropped
        nlab = int(rng.integers(0, n))
    if mode in (2, 3):  # every qubit its own partition / up to 8 distinct labels
        nl = max(1, nlab)
    else:
        nl = int(rng.integers(1, 6))
    pool = [LABEL_POOL[i] for i in rng.permutation(len(LABEL_POOL))[:nl]]
    if mode in (2, 3):
        # distinct as dict keys: drop ==/hash duplicates (0/False/0.0, 1/True/1.0), then a permutation of them
        uniq = list({l: None for l in pool}.keys())
        labels = [uniq[i % len(uniq)] for i in range(nlab)]
        labels = [labels[i] for i in rng.permutation(len(labels))]
    else:
        labels = [pool[int(rng.integers(0, nl))] for _ in range(nlab)]
    # equal-as-dict-key but distinct objects of another type (numpy scalars); tuples/frozensets are rebuilt per position by untag17
    labels = [clone_equal(l) if rng.integers(0, 4) == 0 else l for l in labels]
    k = rand_k(rng, 4)
    cin = rand_canon(rng, n, k)
    aslist = bool(rng.integers(0, 4) == 0)
    intern = Interner()
    lab_ids = [intern(l) for l in labels]
    case = dict(kind="decompose", n=n, labels=[tag17(l) for l in labels], paulis=[[p, l] for p, l in cin], aslist=aslist)
    call_decompose(case)
    o = case["impl"]
    for name, okv in case["glue"].items():
        w.contract(name, okv)
    w.count("decompose.label_objects", "numpy scalar among labels" if any(t[0].startswith("np_") for t in case["labels"]) else "python only")
    exp = res_of(o, lambda v: [(intern(untag17(t)), [coq_pauli(c) for c in pv]) for t, pv in v])
    w.add("decompose", "chk_decompose", (aslist, n, lab_ids, [coq_pauli(c) for c in cin], exp), case,
          nontrivial=(len(set(lab_ids)) > 1 and k > 0 and o[0] == "ok"))
    cases.append(case)
    w.count("decompose.n", n)
    w.count("decompose.k", k)
    w.count("decompose.nlabels", len(set(lab_ids)))
    w.count("decompose.len_labels", "== n" if nlab == n else ("> n" if nlab > n else "< n"))
    w.count("decompose.outcome", o[0])
    w.count("decompose.path", "list" if aslist else "PauliList")


# ----------------------------------------------------------------------------------------------
# expand: replayable circuit layouts
#   op ["bits", [ids]]                     add loose qubits (AncillaQubit when the id is in `anc`)
#   op ["reg", name, kind, [ids]]          add a NEW register owning its bits  (kind "q" QuantumRegister / "a" AncillaRegister)
#   op ["regbits", name, kind, [ids]]      add a register built over listed bits (existing -> overlap, or new loose ones)
#   op ["regref", name]                    add the SAME register object that an earlier op (of either circuit) created
#   op ["clbits", m] / ["creg", name, m]   classical bits / a classical register
# ----------------------------------------------------------------------------------------------
class Table:
    def __init__(self, anc):
        self.bits = {}
        self.regs = {}
        self.anc = set(anc)

    def bit(self, i):
        if i not in self.bits:
            self.bits[i] = AncillaQubit() if i in self.anc else Qubit()
        return self.bits[i]


def build_circuit(ops, tab):
    qc = QuantumCircuit()
    for op in ops:
        t = op[0]
        if t == "bits":
            qc.add_bits([tab.bit(i) for i in op[1]])
        elif t == "reg":
            _, name, kind, ids = op
            reg = AncillaRegister(len(ids), name) if kind == "a" else QuantumRegister(len(ids), name)
            for i, b in zip(ids, reg):
                tab.bits[i] = b
            tab.regs[name] = reg
            qc.add_register(reg)
        elif t == "regbits":
            _, name, kind, ids = op
            bits = [tab.bit(i) for i in ids]
            reg = AncillaRegister(bits=bits, name=name) if kind == "a" else QuantumRegister(bits=bits, name=name)
            tab.regs[name] = reg
            qc.add_register(reg)
        elif t == "regref":
            qc.add_register(tab.regs[op[1]])
        elif t == "clbits":
            qc.add_bits([Clbit() for _ in range(op[1])])
        elif t == "creg":
            qc.add_register(ClassicalRegister(op[2], op[1]))
        else:
            raise ValueError(op)
    return qc


def apply_gates(qc, gates):
    for g in gates:
        if g[0] == "h":
            qc.h(g[1])
        elif g[0] == "cx":
            qc.cx(g[1], g[2])
        elif g[0] == "cut":
            qc.append(CutWire(), [g[1]])
        elif g[0] == "measure":
            qc.measure(g[1], g[2])
        else:
            raise ValueError(g)


TRANSFORMS = {
    "cut_wires": cut_wires,
    "cuts_to_moves": _transform_cuts_to_moves,
    "cut_wires_then_moves": lambda c: _transform_cuts_to_moves(cut_wires(c)),
}

RE_COUNT = re.compile(r"^The `observables` and `original_circuit` must have the same number of qubits\. \((\d+) != (\d+)\)$")
RE_MISSING = re.compile(r"^The (\d+)-th qubit of the `original_circuit` cannot be found in the `final_circuit`\.$")
PKG_DIR = os.sep + "qiskit_addon_cutting" + os.sep


def call_expand(pl, oc, fc):
    """-> (outcome [status, payload], info) ; info attributes a refusal to the frame that raised it"""
    try:
        v = expand_observables(pl, oc, fc)
    except Exception as e:  # noqa: BLE001
        tb = traceback.extract_tb(e.__traceback__)
        inner = tb[-1].filename if tb else ""
        msg = str(e)
        line = (tb[-1].line or "").strip() if tb else ""
        # the package's own guard = the innermost frame is a `raise` statement of the package (a numpy broadcast error
        # surfaces in a package frame too -- at the assignment `z[:, mapping] = observables.z` -- and is NOT a guard)
        info = dict(exc=type(e).__name__, msg=msg[:200], raised_in=os.path.basename(inner), raised_at=line[:80],
                    own_guard=bool(PKG_DIR in inner and line.startswith("raise")), reason=None)
        if isinstance(e, ValueError):
            m1, m2 = RE_COUNT.match(msg), RE_MISSING.match(msg)
            if info["own_guard"] and m1:
                info["reason"] = ["count", int(m1.group(1)), int(m1.group(2))]
            elif info["own_guard"] and m2:
                info["reason"] = ["missing", int(m2.group(1))]
            return ["refused", msg[:200]], info
        return ["crashed", f"{type(e).__name__}: {msg[:200]}"], info
    return outcome(("ok", v), canon_plist), dict(exc=None, msg="", raised_in="", raised_at="", own_guard=None, reason=None)


def run_pre_step(st, pl):
    """one earlier use of the SAME PauliList object `pl`:  ["restrict", qs, qform] | ["decompose", tagged labels]"""
    if st[0] == "restrict":
        r = call_canon(observables_restricted_to_subsystem, qubits_arg(st[1], st[2]), pl)
        return outcome(r, canon_plist)
    if st[0] == "decompose":
        r = call_canon(decompose_observables, pl, [untag17(t) for t in st[1]])
        return outcome(r, lambda d: [[tag17(l), canon_plist(v)] for l, v in d.items()])
    raise ValueError(st)


def rand_pre_steps(rng, n):
    """1..3 well-formed restrictions (subset of 0..n-1 in any order) / decompositions (exactly n labels) of n-qubit observables"""
    pre = []
    for _ in range(int(rng.integers(1, 4))):
        if rng.integers(0, 3):
            m = n if rng.integers(0, 4) == 0 else int(rng.integers(0, n + 1))
            qs = [int(q) for q in rng.permutation(n)[:m]]
            pre.append(["restrict", qs, ["list", "tuple", "ndarray", "npints"][int(rng.integers(0, 4))]])
        else:
            nl = int(rng.integers(1, 4))
            pool = [LABEL_POOL[i] for i in rng.permutation(len(LABEL_POOL))[:nl]]
            pre.append(["decompose", [tag17(pool[int(rng.integers(0, nl))]) for _ in range(n)]])
    return pre


def run_expand(case):
    """(re)build both circuits from the stored layout, call the implementation, fill in oq/fq/impl"""
    tab = Table(case["anc"])
    oc = build_circuit(case["oc_ops"], tab)
    apply_gates(oc, case.get("gates") or [])
    case["transform_outcome"] = None
    if case.get("via"):
        r = call_canon(TRANSFORMS[case["via"]], oc)
        case["transform_outcome"] = r[0]
        if r[0] != "ok":
            case["impl"] = None
            return case
        fc = r[1]
    elif case.get("same_object"):
        fc = oc
    else:
        fc = build_circuit(case["fc_ops"], tab)
    ids = Interner()
    case["oq"] = [ids(q) for q in oc.qubits]
    case["fq"] = [ids(q) for q in fc.qubits]
    contract, equiv = interning_monitor(list(oc.qubits) + list(fc.qubits), case["oq"] + case["fq"])
    case["glue"] = dict(interning_is_dict_key_equality=bool(contract), dict_key_equality_is_equivalence=bool(equiv))
    case["shape"] = dict(o_clbits=oc.num_clbits, f_clbits=fc.num_clbits, o_anc=oc.num_ancillas, f_anc=fc.num_ancillas,
                         o_qregs=len(oc.qregs), f_qregs=len(fc.qregs), o_cregs=len(oc.cregs), f_cregs=len(fc.cregs),
                         o_width=oc.width(), f_width=fc.width())
    pl = mk_plist(case["nobs"], case["paulis"])
    if case.get("pre"):
        # history stream: the caller's ONE PauliList object is first restricted / decomposed, then expanded
        case["pre_impl"] = [run_pre_step(st, pl) for st in case["pre"]]
    o, info = call_expand(pl, oc, fc)
    case["impl"] = o
    case["refusal"] = info
    return case


def rand_layout_original(rng, n, names):
    """ops for an n-qubit circuit: registers owning their bits, ancilla registers, loose (ancilla) bits, an
    overlapping register, classical bits/registers.  Returns (ops, ids in build order, anc ids)."""
    ops, ids, anc = [], [], []
    left, nxt = n, 0
    while left > 0:
        s = int(rng.integers(1, left + 1))
        chunk = list(range(nxt, nxt + s))
        t = int(rng.integers(0, 8))
        if t < 2:
            ops.append(["bits", chunk])
        elif t < 5:
            ops.append(["reg", names("r"), "q", chunk])
        elif t < 6:
            ops.append(["reg", names("a"), "a", chunk])
            anc += chunk
        elif t < 7:
            ops.append(["bits", chunk])
            anc += chunk
        else:
            ops.append(["regbits", names("b"), "q", chunk])
        ids += chunk
        nxt += s
        left -= s
        if rng.integers(0, 5) == 0:
            ops.append(["clbits", int(rng.integers(1, 3))])
    if n >= 1 and rng.integers(0, 4) == 0:  # an overlapping register over bits already present
        sub = [ids[i] for i in rng.permutation(n)[: int(rng.integers(1, n + 1))]]
        ops.append(["regbits", names("ov"), "q", sub])
    r = int(rng.integers(0, 6))
    if r == 0:
        ops.append(["creg", names("c"), int(rng.integers(1, 4))])
    elif r == 1:
        ops.append(["clbits", int(rng.integers(1, 3))])
        ops.append(["creg", names("c"), int(rng.integers(0, 3))])
    if rng.integers(0, 3) == 0:
        ops.insert(int(rng.integers(0, len(ops) + 1)), ["creg", names("m"), int(rng.integers(1, 3))])
    return ops, ids, anc


def rand_layout_final(rng, present, fresh, anc, names, oc_ops):
    """ops for a final circuit holding the bits `present` (a sub-list of the original's ids, possibly all) and `fresh`
    new ones, in a random order, across loose bits / several registers / an ancilla register / overlapping registers,
    optionally re-using whole registers of the original circuit, with classical bits."""
    ops = []
    avail = set(present) | set(fresh)
    placed = []

    def place(ids):
        placed.extend([i for i in ids if i not in placed])

    # re-use whole registers of the original (as cut_wires does) when all their bits are to be present
    if rng.integers(0, 3) == 0:
        for op in oc_ops:
            if op[0] in ("reg", "regbits") and set(op[3]) <= avail and rng.integers(0, 2):
                todo = [f for f in fresh if f not in placed]
                if todo and rng.integers(0, 2):
                    pre = todo[: int(rng.integers(1, len(todo) + 1))]
                    ops.append(["bits", pre])
                    place(pre)
                ops.append(["regref", op[1]])
                place(op[3])
    pool = [i for i in list(present) + list(fresh) if i not in placed]
    pool = [pool[i] for i in rng.permutation(len(pool))] if rng.integers(0, 8) else pool
    while pool:
        s = int(rng.integers(1, len(pool) + 1))
        chunk, pool = pool[:s], pool[s:]
        t = int(rng.integers(0, 6))
        if t < 2:
            ops.append(["bits", chunk])
        elif t == 2 and all(i in anc for i in chunk):
            ops.append(["regbits", names("fa"), "a", chunk])
        else:
            ops.append(["regbits", names("f"), "q", chunk])
        place(chunk)
        if rng.integers(0, 6) == 0:
            ops.append(["clbits", int(rng.integers(1, 3))])
    if placed and rng.integers(0, 3) == 0:  # overlapping registers
        for _ in range(int(rng.integers(1, 3))):
            sub = [placed[i] for i in rng.permutation(len(placed))[: int(rng.integers(1, len(placed) + 1))]]
            ops.append(["regbits", names("fo"), "q", sub])
    r = int(rng.integers(0, 5))
    if r == 0:
        ops.append(["creg", names("fc"), int(rng.integers(1, 5))])
    elif r == 1:
        ops.insert(0, ["clbits", int(rng.integers(1, 4))])
    return ops


class Names:
    def __init__(self):
        self.i = 0

    def __call__(self, prefix):
        self.i += 1
        return f"{prefix}{self.i}"


MISMATCH_KINDS = ["one", "one", "one", "one", "less", "less", "less", "zero", "n0", "more", "more"]


def gen_expand(rng, w, cases, it, history=False):
    """history=True (targeted stream): a well-formed expansion (transform / interleave modes, >= 1 qubit, >= 1 observable, at
    least one phase other than +1) whose PauliList object was restricted / decomposed 1..3 times before it is expanded"""
    n = rand_n(rng)
    if history and n == 0:
        n = int(rng.integers(1, 9))
    names = Names()
    r = int(rng.integers(0, 12 if history else 20))
    mode = "transform" if r < 6 else "interleave" if r < 12 else "mismatch" if r < 16 else "missing"
    if mode == "missing" and n == 0:
        mode = "interleave"
    oc_ops, oids, anc = rand_layout_original(rng, n, names)
    nobs = n
    mkind = None
    if mode == "mismatch":
        mkind = MISMATCH_KINDS[int(rng.integers(0, len(MISMATCH_KINDS)))]
        if mkind == "one":
            if n == 1:
                n = int(rng.integers(2, 9))
                oc_ops, oids, anc = rand_layout_original(rng, n, names)
            nobs = 1
        elif mkind == "less":
            if n < 3:
                n = int(rng.integers(3, 9))
                oc_ops, oids, anc = rand_layout_original(rng, n, names)
            nobs = int(rng.integers(2, n))
        elif mkind == "zero":
            if n == 0:
                n = int(rng.integers(1, 9))
                oc_ops, oids, anc = rand_layout_original(rng, n, names)
            nobs = 0
        elif mkind == "n0":
            n = 0
            oc_ops, oids, anc = rand_layout_original(rng, 0, names)
            nobs = int(rng.integers(1, 4))
        else:
            nobs = n + int(rng.integers(1, 4))
    k = rand_k(rng, 4)
    if history:
        k = int(rng.integers(1, 5))
    cin = rand_canon(rng, nobs, k)
    if history and all(p == 0 for p, _ in cin):
        j = int(rng.integers(0, k))
        cin[j] = (int(rng.integers(1, 4)), cin[j][1])
    case = dict(kind="expand", mode=mode, nobs=nobs, paulis=[[p, l] for p, l in cin], oc_ops=oc_ops, anc=list(anc),
                gates=[], via=None, fc_ops=None, same_object=False)
    nclb = sum(op[1] for op in oc_ops if op[0] == "clbits") + sum(op[2] for op in oc_ops if op[0] == "creg")
    if mode == "transform":
        gates = []
        for _ in range(int(rng.integers(0, 7))):
            g = int(rng.integers(0, 8))
            if n == 0:
                break
            q = int(rng.integers(0, n))
            if g < 4:
                gates.append(["cut", q])
            elif g < 5:
                gates.append(["h", q])
            elif g < 7 and n >= 2:
                q2 = int((q + 1 + rng.integers(0, n - 1)) % n)
                gates.append(["cx", q, q2])
            elif nclb > 0:
                gates.append(["measure", q, int(rng.integers(0, nclb))])
        case["gates"] = gates
        case["via"] = ["cut_wires", "cuts_to_moves", "cuts_to_moves", "cut_wires_then_moves"][int(rng.integers(0, 4))]
    else:
        nfresh_max = 5 if rng.integers(0, 3) == 0 else 3
        nf = int(rng.integers(0, nfresh_max + 1))
        fresh = list(range(n, n + nf))
        fanc = [f for f in fresh if rng.integers(0, 6) == 0]
        case["anc"] = list(anc) + fanc
        present = list(oids)
        if mode == "missing" or (mode == "mismatch" and n >= 1 and rng.integers(0, 4) == 0):
            ndrop = 1 if rng.integers(0, 3) else int(rng.integers(1, n + 1))
            for d in sorted((int(x) for x in rng.permutation(n)[:ndrop]), reverse=True):
                present.pop(d)
        if mode == "interleave" and rng.integers(0, 12) == 0:
            case["same_object"] = True  # final circuit IS the original circuit object
        elif mode == "interleave" and rng.integers(0, 12) == 0:
            # final = the original's own registers/bits re-added in the original order plus fresh bits at the end
            fops = []
            for op in oc_ops:
                if op[0] in ("reg", "regbits"):
                    fops.append(["regref", op[1]])
                elif op[0] == "bits":
                    fops.append(["bits", op[1]])
                else:
                    fops.append(op if op[0] != "creg" else ["creg", names("k"), op[2]])
            if fresh:
                fops.append(["bits", fresh])
            case["fc_ops"] = fops
        else:
            case["fc_ops"] = rand_layout_final(rng, present, fresh, set(case["anc"]), names, oc_ops)
    if history:
        case["pre"] = rand_pre_steps(rng, nobs)
    run_expand(case)
    if case["via"]:
        w.count("expand.transform_call", f"{case['via']}:{case['transform_outcome']}")
        if case["transform_outcome"] != "ok":
            return  # the transform itself misbehaved on this marker pattern: that is C03's business
    o, info = case["impl"], case["refusal"]
    oq, fq, sh = case["oq"], case["fq"], case["shape"]
    for name, okv in case["glue"].items():
        w.contract(name, okv)
    exp = res_of(o, lambda v: [coq_pauli(c) for c in v])
    if o[0] == "refused" and info["reason"] is None:
        why = Opt(some=False)  # a ValueError that is not one of the two documented refusals of the package
    elif o[0] == "refused" and info["reason"][0] == "count":
        why = Opt(Opt(Raw(f"(RCount {info['reason'][1]} {info['reason'][2]})")))
    elif o[0] == "refused":
        why = Opt(Opt(Raw(f"(RMissing {info['reason'][1]})")))
    else:
        why = Opt(Opt(some=False))
    if history:
        # the Coq case is the plain expansion of the observables the caller built: earlier uses must not show in it
        w.add("expand_history", "chk_expand", (nobs, oq, fq, [coq_pauli(c) for c in cin], exp, why), case,
              nontrivial=(o[0] == "ok" and all(po[0] == "ok" for po in case["pre_impl"])))
        cases.append(case)
        w.count("history.outcome", o[0])
        w.count("history.pre_steps", "+".join(st[0] for st in case["pre"]))
        w.count("history.pre_outcomes", "all ok" if all(po[0] == "ok" for po in case["pre_impl"]) else "some not ok")
        w.count("history.final", mode if not case["via"] else "transform:" + case["via"])
        return
    w.add("expand", "chk_expand", (nobs, oq, fq, [coq_pauli(c) for c in cin], exp, why), case,
          nontrivial=(o[0] == "ok" and len(fq) > len(oq) and k > 0 and nobs > 0))
    cases.append(case)
    w.count("expand.outcome", o[0])
    w.count("expand.mode", mode if not case["via"] else "transform:" + case["via"])
    w.count("expand.n_original", len(oq))
    w.count("expand.n_final", len(fq))
    w.count("expand.k", k)
    if o[0] == "refused":
        w.count("expand.refusal", "undocumented:" + info["raised_in"] if info["reason"] is None else info["reason"][0])
    if nobs != len(oq):
        w.count("expand.mismatch", "nobs=0" if nobs == 0 else "n=0" if len(oq) == 0 else "nobs=1" if nobs == 1
                else "1<nobs<n" if nobs < len(oq) else "nobs>n")
    w.count("expand.clbits", f"orig={'y' if sh['o_clbits'] else 'n'} final={'y' if sh['f_clbits'] else 'n'}")
    w.count("expand.ancillas", f"orig={'y' if sh['o_anc'] else 'n'} final={'y' if sh['f_anc'] else 'n'}")
    w.count("expand.final_qregs", min(sh["f_qregs"], 4))
    overlap = False
    for ops in (case["oc_ops"], case["fc_ops"] or []):
        seen = set()
        for op in ops:
            if op[0] in ("reg", "regbits"):
                if seen & set(op[3]):
                    overlap = True
                seen |= set(op[3])
    w.count("expand.overlapping_register", overlap)
    w.count("expand.fresh", len([q for q in fq if q not in oq]))


# ----------------------------------------------------------------------------------------------
def generate(rng, tier, outdir):
    w = CaseWriter(outdir, IMPORTS, case_types=CASE_TYPES)
    n_restrict = 450 if tier == "quick" else 7000
    n_decomp = 350 if tier == "quick" else 5000
    n_expand = 700 if tier == "quick" else 9000
    cases = []
    for it in range(n_restrict):
        gen_restrict(rng, w, cases, it)
    for it in range(n_decomp):
        gen_decompose(rng, w, cases, it)
    n_before = len(cases)
    for it in range(n_expand):
        gen_expand(rng, w, cases, it)
    # TARGETED stream (after the random ones, so that they are unchanged for a given seed): use-after-use of one PauliList
    for it in range(120 if tier == "quick" else 1500):
        gen_expand(rng, w, cases, it, history=True)

    # ---- monitored contracts ----
    # (a) the property-level oracle accepts every generated case on an unchanged tree (it never sees the Coq model)
    for c in cases:
        try:
            v = judge(c)
            w.contract("judge_accepts_clean_case", v.get("violates") is False)
        except Exception:  # noqa: BLE001
            w.contract("judge_accepts_clean_case", False)
    # (b) rerun() rebuilds the stored layout: same qubit identities, same shape, same recorded outcome
    import json
    step = max(1, len(cases) // 300)
    for c in cases[::step] + cases[n_before::max(1, (len(cases) - n_before) // 150)]:
        c2 = rerun(json.loads(json.dumps(c)))
        keys = ("impl", "oq", "fq", "shape") if c["kind"] == "expand" else ("impl",)
        if c.get("pre"):
            keys += ("pre_impl",)
        w.contract("rerun_reproduces_case", all(json.loads(json.dumps(c[k])) == json.loads(json.dumps(c2[k])) for k in keys))

    return w.finish(
        rule="random Pauli lists (all phases; 0..5 rows incl. the empty list) on 0..8 qubits (0 and 8 over-represented). "
        "restrict: random subsets/orders/full permutations, repeats, out-of-range stream; PauliList and list[Pauli] paths; qubits "
        "given as list/tuple/range/ndarray/numpy ints. decompose: 1..8 distinct labels from a pool of exotic hashables (incl. "
        "hash-equal False/0/0.0, True/1/1.0, numpy scalars equal to Python numbers, tuples/frozensets rebuilt per position), both paths, len(labels) <, ==, > num_qubits. expand: original circuits from registers "
        "owning their bits, ancilla registers, loose (ancilla) bits, overlapping registers, classical bits/registers; final circuits "
        "from cut_wires / _transform_cuts_to_moves / both on random marker patterns, or random interleavings of up to 5 fresh qubits "
        "across loose bits, several registers, re-used registers, overlapping registers, classical bits; the same circuit object; "
        "count-mismatch stream (nobs=1, 1<nobs<n, nobs=0, n=0, nobs>n) and missing-qubit stream, each refusal attributed to the frame "
        "and message that raised it. history (targeted): well-formed expansions (interleave / transform) of a PauliList with a "
        "non-trivial phase AFTER 1..3 restrictions / decompositions of the same PauliList object; the expansion is compared with "
        "the observables as built, each earlier step with its own restriction. distinct = distinct Coq case literal; non-trivial = successful call with non-empty selection / "
        ">1 label / fresh qubits present, at least one observable"
    )


# ----------------------------------------------------------------------------------------------
# property-level oracle: plain list manipulation on the canonical case; never consults the Coq model
# ----------------------------------------------------------------------------------------------
def _norm(plist):
    return [[int(g[0]), [int(x) for x in g[1]]] for g in plist]


MSG_COUNT = "must have the same number of qubits"
MSG_MISSING = "cannot be found in the `final_circuit`"


def judge(case):
    k = case["kind"]
    got = case["impl"]
    if k == "restrict":
        n, qs, ps = case["n"], case["qs"], case["paulis"]
        if any(q >= n or q < 0 for q in qs):
            return dict(violates=False, detail="out-of-range request; property silent")
        if len(set(qs)) != len(qs):
            return dict(violates=False, detail="repeated index: not a subset of the qubits; property silent (still compared with the model)")
        want = [[0, [p[1][q] for q in qs]] for p in ps]
        ok = got[0] == "ok" and _norm(got[1]) == want
        return dict(violates=not ok, detail=f"restriction of {ps} to qubits {qs}: want {want} got {got}")
    if k == "decompose":
        labels = [untag17(t) for t in case["labels"]]
        n, ps = case["n"], case["paulis"]
        if len(labels) != n:
            return dict(violates=False, detail="labels do not label exactly the qubits (not a partition of them); property silent")
        groups = {}
        for i, l in enumerate(labels):
            groups.setdefault(l, []).append(i)
        if got[0] != "ok":
            return dict(violates=True, detail=f"partition {groups}: call did not succeed: {got}")
        gd = {}
        for t, v in got[1]:
            gd[untag17(t)] = _norm(v)
        ok = set(gd.keys()) == set(groups.keys()) and len(gd) == len(got[1])
        if ok:
            for l, qs in groups.items():
                if gd[l] != [[0, [p[1][q] for q in qs]] for p in ps]:
                    ok = False
        if ok:
            # the restrictions recombine to the original strings
            for r, p in enumerate(ps):
                back = [None] * n
                for l, qs in groups.items():
                    for pos, q in enumerate(qs):
                        back[q] = gd[l][r][1][pos]
                if back != list(p[1]):
                    ok = False
        return dict(violates=not ok, detail=f"groups {groups} paulis {ps} got {got}")
    if k == "expand":
        if got is None:
            return dict(violates=False, detail="the circuit transform itself failed; not a C17 case")
        nobs, oq, fq, ps, info = case["nobs"], case["oq"], case["fq"], case["paulis"], case.get("refusal") or {}
        for st, po in zip(case.get("pre") or [], case.get("pre_impl") or []):
            # earlier uses of the same PauliList object (history stream): each is a well-formed restriction / partition
            # of the observables AS BUILT and is judged like a stand-alone one
            if st[0] == "restrict":
                sub = dict(kind="restrict", n=nobs, qs=st[1], paulis=ps, impl=po)
            else:
                sub = dict(kind="decompose", n=nobs, labels=st[1], paulis=ps, impl=po)
            v = judge(sub)
            if v["violates"]:
                return dict(violates=True, detail=f"earlier step {st} on the same PauliList: " + v["detail"])
        missing = [i for i, q in enumerate(oq) if q not in fq]
        if nobs != len(oq) or missing:
            doc = MSG_COUNT if nobs != len(oq) else MSG_MISSING
            ok = got[0] == "refused" and bool(info.get("own_guard")) and doc in str(got[1])
            what = f"{nobs}-qubit observables for a {len(oq)}-qubit original" if nobs != len(oq) else f"original qubit(s) {missing} absent from the final circuit"
            return dict(violates=not ok, detail=f"{what}: the documented ValueError ('...{doc}...') raised by the package's own "
                        f"guard is demanded; got {got} raised at {info.get('raised_in')}: {info.get('raised_at')!r} ({info.get('exc')})")
        want = []
        for ph, lets in ps:
            out = [0] * len(fq)
            for i, q in enumerate(oq):
                out[fq.index(q)] = lets[i]
            want.append([ph, out])
        ok = got[0] == "ok" and _norm(got[1]) == want
        hist = f" (after {case['pre']} on the same PauliList object)" if case.get("pre") else ""
        return dict(violates=not ok, detail=f"oq {oq} fq {fq}{hist}: want {want} got {got}")
    raise ValueError(k)


def rerun(case):
    """Re-execute the implementation on a stored canonical input (for --replay)."""
    k = case["kind"]
    if k == "restrict":
        return call_restrict(case)
    if k == "decompose":
        return call_decompose(case)
    if k == "expand":
        return run_expand(case)
    raise ValueError(k)

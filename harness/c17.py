"""C17 correspondence: observables_restricted_to_subsystem, decompose_observables,
expand_observables  vs  Model/Observables.v."""
from __future__ import annotations

import numpy as np
from qiskit.circuit import QuantumCircuit, QuantumRegister, Qubit, ClassicalRegister
from qiskit.quantum_info import Pauli, PauliList

from qiskit_addon_cutting.utils.observable_grouping import observables_restricted_to_subsystem
from qiskit_addon_cutting.cutting_decomposition import decompose_observables
from qiskit_addon_cutting.wire_cutting_transforms import expand_observables, cut_wires
from qiskit_addon_cutting.instructions import CutWire

from common import CaseWriter, Res, Raw, Interner, call_canon, tagged, untag

IMPORTS = "From CKT Require Import Common.Base Model.Observables Corr.C17Corr."
LET = {(False, False): 0, (True, False): 1, (True, True): 2, (False, True): 3}
LETTERS = "IXYZ"  # model code -> letter


def canon_pauli(p: Pauli):
    x = [bool(b) for b in p.x]
    z = [bool(b) for b in p.z]
    return (int(p.phase), [LET[(a, b)] for a, b in zip(x, z)])


def canon_plist(pl):
    return [canon_pauli(p) for p in pl]


def coq_pauli(c):
    return Raw(f"(P {c[0]} [{'; '.join(str(l) for l in c[1])}])")


def mk_pauli(phase, lets):
    # lets indexed by qubit; qiskit labels are big-endian
    label = "".join(LETTERS[l] for l in reversed(lets))
    p = Pauli(label)
    p.phase = phase
    return p


def rand_plist(rng, n, k, phases=True):
    ps = []
    for _ in range(k):
        lets = [int(rng.integers(0, 4)) for _ in range(n)]
        ph = int(rng.integers(0, 4)) if phases else 0
        ps.append(mk_pauli(ph, lets))
    return PauliList(ps)


LABEL_POOL = [0, 1, 2, "A", "B", "foo", (1, 2), ("a", 0), None, 3.5, True, frozenset([1]), -7, ""]


def res_of(r, conv):
    if r[0] == "ok":
        return Res("ok", conv(r[1]))
    return Res(r[0])


def generate(rng, tier, outdir):
    w = CaseWriter(outdir, IMPORTS)
    n_restrict = 400 if tier == "quick" else 6000
    n_decomp = 300 if tier == "quick" else 5000
    n_expand = 400 if tier == "quick" else 6000

    # ---- restrict ----
    for it in range(n_restrict):
        n = int(rng.integers(1, 9))
        k = int(rng.integers(1, 5))
        pl = rand_plist(rng, n, k)
        mode = rng.integers(0, 10)
        if mode < 6:  # subset in random order
            m = int(rng.integers(0, n + 1))
            qs = [int(q) for q in rng.permutation(n)[:m]]
        elif mode < 8:  # with repeats
            qs = [int(q) for q in rng.integers(0, n, size=int(rng.integers(1, n + 3)))]
        elif mode < 9:  # all, reversed
            qs = list(range(n))[::-1]
        else:  # out of range (malformed stream)
            qs = [int(q) for q in rng.integers(0, n + 2, size=int(rng.integers(1, 4)))] + [n + int(rng.integers(0, 3))]
        aslist = bool(rng.integers(0, 4) == 0)
        arg = list(pl) if aslist else pl
        r = call_canon(observables_restricted_to_subsystem, qs, arg)
        exp = res_of(r, lambda v: [coq_pauli(c) for c in canon_plist(v)])
        cin = canon_plist(pl)
        w.add(
            "restrict",
            "chk_restrict",
            (n, qs, [coq_pauli(c) for c in cin], exp),
            dict(kind="restrict", n=n, qs=qs, paulis=cin, aslist=aslist, impl=[r[0], canon_plist(r[1]) if r[0] == "ok" else r[1]]),
            nontrivial=(len(qs) > 0 and r[0] == "ok"),
        )
        w.count("restrict.n", n)
        w.count("restrict.outcome", r[0])
        w.count("restrict.path", "list" if aslist else "PauliList")

    # ---- decompose_observables ----
    for it in range(n_decomp):
        n = int(rng.integers(1, 9))
        nl = int(rng.integers(1, 5))
        pool = [LABEL_POOL[i] for i in rng.permutation(len(LABEL_POOL))[:nl]]
        labels = [pool[int(rng.integers(0, nl))] for _ in range(n)]
        k = int(rng.integers(1, 4))
        pl = rand_plist(rng, n, k)
        intern = Interner()
        lab_ids = [intern(l) for l in labels]
        r = call_canon(decompose_observables, pl, labels)
        assert r[0] == "ok", r
        exp = [(intern(l), [coq_pauli(c) for c in canon_plist(v)]) for l, v in r[1].items()]
        cin = canon_plist(pl)
        w.add(
            "decompose",
            "chk_decompose",
            (lab_ids, [coq_pauli(c) for c in cin], exp),
            dict(kind="decompose", labels=[tagged(l) for l in labels], paulis=cin,
                 impl=[[tagged(l), canon_plist(v)] for l, v in r[1].items()]),
            nontrivial=(len(set(lab_ids)) > 1),
        )
        w.count("decompose.nlabels", len(set(lab_ids)))

    # ---- expand ----
    for it in range(n_expand):
        n = int(rng.integers(0, 7)) if rng.integers(0, 10) == 0 else int(rng.integers(1, 7))
        mode = int(rng.integers(0, 10))
        # original circuit: several registers and loose bits
        oc = QuantumCircuit()
        left = n
        ri = 0
        while left > 0:
            s = int(rng.integers(1, left + 1))
            if rng.integers(0, 3) == 0:
                oc.add_bits([Qubit() for _ in range(s)])
            else:
                oc.add_register(QuantumRegister(s, f"r{ri}"))
                ri += 1
            left -= s
        k = int(rng.integers(1, 4))
        nobs = n
        if mode == 8:  # qubit-count mismatch
            nobs = max(0, n + int(rng.choice([-1, 1, 2])))
        if nobs == 0:
            continue
        pl = rand_plist(rng, nobs, k)
        if mode < 4 and n >= 1:
            # realistic: via cut_wires with markers
            qc = oc.copy()
            for _ in range(int(rng.integers(0, 5))):
                q = int(rng.integers(0, n))
                if rng.integers(0, 2):
                    qc.h(q)
                qc.append(CutWire(), [q])
            rcw = call_canon(cut_wires, qc)
            w.count("expand.cut_wires_call", rcw[0])
            if rcw[0] != "ok":
                # cut_wires itself misbehaved on this marker pattern: that is C03's business; skip here
                continue
            fc = rcw[1]
            oc_used = qc
        else:
            nf = int(rng.integers(0, 4))
            bits = list(oc.qubits) + [Qubit() for _ in range(nf)]
            if mode == 9 and n >= 1:  # a missing qubit
                drop = int(rng.integers(0, n))
                bits.pop(drop)
            perm = rng.permutation(len(bits))
            bits = [bits[i] for i in perm]
            fc = QuantumCircuit()
            # spread across loose bits and a register
            cut = int(rng.integers(0, len(bits) + 1))
            fc.add_bits(bits[:cut])
            if bits[cut:]:
                fc.add_register(QuantumRegister(bits=bits[cut:]))
            oc_used = oc
        ids = Interner()
        oq = [ids(q) for q in oc_used.qubits]
        fq = [ids(q) for q in fc.qubits]
        r = call_canon(expand_observables, pl, oc_used, fc)
        exp = res_of(r, lambda v: [coq_pauli(c) for c in canon_plist(v)])
        cin = canon_plist(pl)
        w.add(
            "expand",
            "chk_expand",
            (nobs, oq, fq, [coq_pauli(c) for c in cin], exp),
            dict(kind="expand", nobs=nobs, oq=oq, fq=fq, paulis=cin,
                 impl=[r[0], canon_plist(r[1]) if r[0] == "ok" else r[1]]),
            nontrivial=(r[0] == "ok" and len(fq) > len(oq)),
        )
        w.count("expand.outcome", r[0])
        w.count("expand.mode", "cut_wires" if (mode < 4 and n >= 1) else ("mismatch" if mode == 8 else "missing" if mode == 9 else "interleave"))

    return w.finish(
        rule="random Pauli lists (all phases) on 1..8 qubits; restrict: random subsets/orders/repeats + out-of-range stream, "
        "PauliList and list[Pauli] paths; decompose: 1..4 labels from a pool of exotic hashables; expand: final circuits from "
        "cut_wires or random interleavings of fresh Qubit objects across loose bits/registers + count-mismatch and missing-qubit "
        "streams. distinct = distinct Coq case literal; non-trivial = successful call with non-empty selection / >1 label / fresh qubits present"
    )


# ---- property-level oracle: plain string manipulation ----
def judge(case):
    k = case["kind"]
    if k == "restrict":
        n, qs, ps = case["n"], case["qs"], case["paulis"]
        if any(q >= n for q in qs):
            return dict(violates=False, detail="out-of-range request; property silent")
        want = [(0, [p[1][q] for q in qs]) for p in ps]
        got = case["impl"]
        ok = got[0] == "ok" and [tuple(g) for g in map(tuple, got[1])] == [tuple(x) for x in want] if got[0] == "ok" else False
        ok = got[0] == "ok" and [[g[0], list(g[1])] for g in got[1]] == [[x[0], list(x[1])] for x in want]
        return dict(violates=not ok, detail=f"want {want} got {got}")
    if k == "decompose":
        labels = [untag(t) for t in case["labels"]]
        ps = case["paulis"]
        groups = {}
        for i, l in enumerate(labels):
            groups.setdefault(l, []).append(i)
        got = {untag(t): v for t, v in case["impl"]}
        ok = set(got.keys()) == set(groups.keys())
        if ok:
            for l, qs in groups.items():
                want = [[0, [p[1][q] for q in qs]] for p in ps]
                if [[g[0], list(g[1])] for g in got[l]] != want:
                    ok = False
        return dict(violates=not ok, detail=f"groups {groups} got {case['impl']}")
    if k == "expand":
        nobs, oq, fq, ps, got = case["nobs"], case["oq"], case["fq"], case["paulis"], case["impl"]
        bad = nobs != len(oq) or any(q not in fq for q in oq)
        if bad:
            return dict(violates=got[0] != "refused", detail=f"malformed request answered with {got}")
        want = []
        for ph, lets in ps:
            out = [0] * len(fq)
            for i, q in enumerate(oq):
                out[fq.index(q)] = lets[i]
            want.append([ph, out])
        ok = got[0] == "ok" and [[g[0], list(g[1])] for g in got[1]] == want
        return dict(violates=not ok, detail=f"want {want} got {got}")
    raise ValueError(k)


def rerun(case):
    """Re-execute the implementation on a stored canonical input (for --replay)."""
    k = case["kind"]
    if k == "restrict":
        pl = PauliList([mk_pauli(ph, lets) for ph, lets in case["paulis"]])
        arg = list(pl) if case.get("aslist") else pl
        r = call_canon(observables_restricted_to_subsystem, case["qs"], arg)
        case["impl"] = [r[0], canon_plist(r[1]) if r[0] == "ok" else r[1]]
    elif k == "decompose":
        pl = PauliList([mk_pauli(ph, lets) for ph, lets in case["paulis"]])
        labels = [untag(t) for t in case["labels"]]
        r = call_canon(decompose_observables, pl, labels)
        case["impl"] = [[tagged(l), canon_plist(v)] for l, v in r[1].items()] if r[0] == "ok" else [r[0], r[1]]
    elif k == "expand":
        pl = PauliList([mk_pauli(ph, lets) for ph, lets in case["paulis"]])
        objs = {}
        for q in set(case["oq"]) | set(case["fq"]):
            objs[q] = Qubit()
        oc = QuantumCircuit()
        oc.add_bits([objs[q] for q in case["oq"]])
        fc = QuantumCircuit()
        fc.add_bits([objs[q] for q in case["fq"]])
        r = call_canon(expand_observables, pl, oc, fc)
        case["impl"] = [r[0], canon_plist(r[1]) if r[0] == "ok" else r[1]]
    return case

"""C14 correspondence: decompose_qpd_instructions  vs  Model/Decompose.v.

Case description (JSON, enough for `rerun`):
  desc = {nq, nc, bases: [basis key...], items: [item...], predef: [data indices whose .definition is read before the call]}
  item = ["g", name, [[num,den]...], [qubits]] | ["measure", q, c] | ["reset", q] | ["barrier", [qubits]] | ["qpdm", q]
       | ["qpd2", basis index, bid|null, label|null, [a, b]] | ["qpd1", basis index, half, bid|null, label|null, [q]]
  basis key = ["inst", gate name, [[num,den]...]] | ["hand2", k] | ["hand1", k];  every entry of `bases` is its own object
  optional: desc["layout"] = {q: [sizes], c: [sizes], loose: k, loose_first: bool}  (several registers, loose clbits)
            desc["shared"] = {"j": i}  item j is appended with the SAME gate object as item i (known finding F17)

Known finding F17 (KNOWN_FINDINGS.json, read-only lookup): one gate instance at several positions + inplace=True.  While the
entry is listed with status "known", such cases go to the quiet group "<stream>__known_F17" whose checker compares with the
model of the CURRENT aliasing behaviour; when the entry is absent they are compared with the property-demanding model and alarm.
"""
from __future__ import annotations

import json
import os
from fractions import Fraction

import numpy as np
from qiskit.circuit import QuantumCircuit, QuantumRegister, ClassicalRegister, CircuitInstruction, Reset, Clbit
from qiskit.circuit.library import (CXGate, CZGate, RZZGate, SwapGate, HGate, XGate, ZGate, SGate, SdgGate, SXGate, RZGate,
                                    RXGate)

from qiskit_addon_cutting.instructions import Move
from qiskit_addon_cutting.qpd import QPDBasis, TwoQubitQPDGate, SingleQubitQPDGate
from qiskit_addon_cutting.qpd.instructions import QPDMeasure
from qiskit_addon_cutting.qpd.decompose import decompose_qpd_instructions

from common import CaseWriter, Res, Raw, Zc, Opt, call_canon, coq
from circ import CircCtx, coq_circ, coq_benv, coq_basis

ROOT = os.path.dirname(os.path.dirname(os.path.abspath(__file__)))
IMPORTS = "From CKT Require Import Common.Base Common.Circ Model.Decompose Model.DecomposeEq Corr.C14Corr."


# --------------------------------------------------------------------------------------
# building blocks
# --------------------------------------------------------------------------------------

def fr(x):
    f = Fraction(x)
    return [f.numerator, f.denominator]


def unfr(p):
    return p[0] / p[1]


INST = {"cx": CXGate, "cz": CZGate, "swap": SwapGate, "move": Move, "rzz": RZZGate}
G1 = {"h": HGate, "x": XGate, "z": ZGate, "s": SGate, "sdg": SdgGate, "sx": SXGate, "rz": RZGate, "rx": RXGate}
G2 = {"cx": CXGate, "cz": CZGate, "swap": SwapGate}


def hand2(k):
    if k in (0, 3):
        maps = [([], [XGate()]), ([HGate(), QPDMeasure()], []), ([], []), ([Reset(), XGate()], [QPDMeasure(), ZGate()])]
        coeffs = [0.5, 0.25, -0.25, 0.5] if k == 0 else [0.5, 0.25, 0.25, -0.5]   # 3: same maps, other coefficients
    elif k == 1:
        maps = [([], [])]
        coeffs = [1.0]
    else:
        maps = [([QPDMeasure()], [QPDMeasure()]), ([], [SGate(), SdgGate(), HGate(), XGate()]), ([RZGate(0.5)], [])]
        coeffs = [0.5, 0.5, -1.0]
    return QPDBasis(maps, coeffs)


def hand1(k):
    if k == 0:
        maps = [([],), ([XGate()],), ([QPDMeasure(), HGate()],), ([Reset()],)]
        coeffs = [0.25, 0.25, 0.25, 0.25]
    else:
        maps = [([SGate(), SdgGate(), QPDMeasure()],), ([],)]
        coeffs = [1.0, -1.0]
    return QPDBasis(maps, coeffs)


def make_basis(key):
    if key[0] == "inst":
        return QPDBasis.from_instruction(INST[key[1]](*[unfr(p) for p in key[2]]))
    if key[0] == "hand2":
        return hand2(key[1])
    if key[0] == "hand1":
        return hand1(key[1])
    raise ValueError(key)


BASIS2_KEYS = [["inst", "cx", []], ["inst", "cz", []], ["inst", "swap", []], ["inst", "move", []],
               ["inst", "rzz", [fr(0.5)]], ["inst", "rzz", [fr(0.75)]], ["hand2", 0], ["hand2", 1], ["hand2", 2]]
BASIS1_KEYS = [["hand1", 0], ["hand1", 1]]
LABELS = [None, None, "cut_cx_0", "cut_rzz_12", "foo", "cut_a_b"]


class IdCtx(CircCtx):
    """bases interned by OBJECT identity (for Model/DecomposeEq.v, which models QPDBasis.__eq__ itself)."""

    def basis_id(self, basis):
        for i, b in enumerate(self.bases):
            if b is basis:
                return i
        self.bases.append(basis)
        return len(self.bases) - 1

    def canon_renv(self):
        out = []
        i = 0
        while i < len(self.bases):
            b = self.bases[i]
            out.append(dict(nq=int(b.num_qubits), maps=self.canon_basis(b), coeffs=[fr(float(x)) for x in b.coeffs]))
            i += 1
        return out


def coq_renv(renv):
    return [Raw("(RB %d %s %s)" % (b["nq"], coq(coq_basis(b["maps"])),
                                   coq([Raw("((%d)%%Z, %d%%positive)" % (c[0], c[1])) for c in b["coeffs"]]))) for b in renv]


def f17_known():
    try:
        # C14_KNOWN_FINDINGS: test hook naming another findings file (to check that an unlisted class alarms)
        kf = json.load(open(os.environ.get("C14_KNOWN_FINDINGS") or os.path.join(ROOT, "KNOWN_FINDINGS.json")))
    except Exception:  # noqa: BLE001
        return False
    return any(e.get("property") == "C14" and e.get("id") == "F17" and e.get("status") == "known" for e in kf.get("findings", []))


def alias_classes(desc):
    """lists of data indices holding one gate object."""
    root = {}
    for j, i in desc.get("shared", {}).items():
        root.setdefault(int(i), [int(i)]).append(int(j))
    return [sorted(v) for v in root.values()]


def alias_closed_ids(desc, ids):
    cls = alias_classes(desc)
    out = []
    for g in ids:
        extra = []
        for c in cls:
            if any(p in c for p in g):
                extra += [q for q in c if q not in g and q not in extra]
        out.append(list(g) + extra)
    return out


def build(desc):
    """desc -> (QuantumCircuit, list of basis objects)."""
    bases = [make_basis(k) for k in desc["bases"]]
    qc = QuantumCircuit()
    lay = desc.get("layout")
    if lay:
        for n, sz in enumerate(lay["q"]):
            qc.add_register(QuantumRegister(sz, f"q{n}"))
        if lay.get("loose") and lay.get("loose_first"):
            qc.add_bits([Clbit() for _ in range(lay["loose"])])
        for n, sz in enumerate(lay["c"]):
            qc.add_register(ClassicalRegister(sz, f"c{n}"))
        if lay.get("loose") and not lay.get("loose_first"):
            qc.add_bits([Clbit() for _ in range(lay["loose"])])
        assert qc.num_qubits == desc["nq"] and qc.num_clbits == desc["nc"]
    else:
        if desc["nq"]:
            qc.add_register(QuantumRegister(desc["nq"], "q"))
        if desc["nc"]:
            qc.add_register(ClassicalRegister(desc["nc"], "c"))
    shared = {int(j): int(i) for j, i in desc.get("shared", {}).items()}
    gates = {}
    for idx, it in enumerate(desc["items"]):
        k = it[0]
        if idx in shared:
            qc.append(gates[shared[idx]], it[4] if k == "qpd2" else it[5])
        elif k == "g":
            cls = G1.get(it[1]) or G2[it[1]]
            qc.append(cls(*[unfr(p) for p in it[2]]), it[3])
        elif k == "measure":
            qc.measure(it[1], it[2])
        elif k == "reset":
            qc.reset(it[1])
        elif k == "barrier":
            qc.barrier(*it[1])
        elif k == "qpdm":
            qc.append(QPDMeasure(), [it[1]])
        elif k == "qpd2":
            gates[idx] = TwoQubitQPDGate(bases[it[1]], basis_id=it[2], label=it[3])
            qc.append(gates[idx], it[4])
        elif k == "qpd1":
            gates[idx] = SingleQubitQPDGate(bases[it[1]], it[2], basis_id=it[3], label=it[4])
            qc.append(gates[idx], it[5])
        else:
            raise ValueError(it)
    for i in desc.get("predef", []):
        qc.data[i].operation.definition  # noqa: B018  (fills the Instruction._definition cache)
    return qc, bases


def regs_snapshot(qc):
    return (qc.num_qubits, qc.num_clbits, [(r.name, r.size) for r in qc.qregs], [(r.name, r.size) for r in qc.cregs])


def _form(x, form):
    if form == "tuple" and x is not None:
        return tuple(tuple(y) if isinstance(y, list) else y for y in x)
    return x


def execute(desc, ids, map_ids, inplace, form="list"):
    """Run the implementation; return (canon, impl, contracts)."""
    qc, _ = build(desc)
    ctx = CircCtx()
    cin = ctx.canon_circuit(qc)
    ctx2 = IdCtx()
    cin_r = ctx2.canon_circuit(qc)
    snap = regs_snapshot(qc)
    nc = qc.num_clbits
    a_ids, a_maps = _form(ids, form), _form(map_ids, form)
    if map_ids is None:
        r = call_canon(decompose_qpd_instructions, qc, a_ids, inplace=inplace)
    else:
        r = call_canon(decompose_qpd_instructions, qc, a_ids, a_maps, inplace=inplace)
    contracts = {}
    impl = dict(status=r[0], detail=None if r[0] == "ok" else r[1], out=None, regsize=None, untouched=True, reg_ok=True)
    if r[0] == "ok":
        out = r[1]
        impl["out"] = ctx.canon_circuit(out)
        impl["out_r"] = ctx2.canon_circuit(out)
        reg = out.cregs[-1]
        impl["regsize"] = reg.size
        contracts["new_register_is_named_qpd_measurements"] = (reg.name == "qpd_measurements")
        impl["reg_ok"] = bool(len(out.cregs) == len(snap[3]) + 1 and out.num_clbits == nc + reg.size
                              and [out.find_bit(b).index for b in reg] == list(range(nc, nc + reg.size)))
        contracts["new_register_is_last_and_its_bits_are_the_final_clbits"] = impl["reg_ok"]
        contracts["same_qubits"] = (out.num_qubits == snap[0])
        if inplace:
            contracts["inplace_returns_the_input_object"] = (out is qc)
        else:
            contracts["copy_is_a_distinct_object"] = (out is not qc)
    # state of the ARGUMENT after the call
    if not (inplace and r[0] == "ok"):
        after = ctx.canon_circuit(qc)
        unchanged = (after == cin and regs_snapshot(qc) == snap)
        impl["arg_unchanged"] = unchanged
        impl["input_after"] = None if unchanged else after
        if not inplace:
            impl["untouched"] = unchanged
            contracts["inplace_false_leaves_input_untouched"] = unchanged
        elif r[0] == "refused":
            contracts["refused_call_leaves_argument_unchanged"] = unchanged
    impl["side_ok"] = bool((impl["untouched"] if not inplace else (impl.get("arg_unchanged", True) if r[0] == "refused" else True))
                           and impl["reg_ok"])
    canon = dict(input=cin, nc=nc, benv=ctx.canon_benv(), r=dict(input=cin_r, renv=ctx2.canon_renv()))
    return canon, impl, contracts


def coq_case_r(canon, ids, map_ids, impl):
    if impl["status"] == "ok":
        exp = Res("ok", (coq_circ(impl["out_r"]), impl["regsize"]))
    else:
        exp = Res(impl["status"])
    r = canon["r"]
    return (coq_renv(r["renv"]), coq_circ(r["input"]), canon["nc"], [list(g) for g in ids], coq_maps(map_ids), exp)


def coq_maps(map_ids):
    if map_ids is None:
        return Raw("None")
    return Raw("(Some " + coq([Opt(None) if m is None else Opt(Zc(m)) for m in map_ids]) + ")")


def coq_case(canon, ids, map_ids, impl, aids=None):
    if impl["status"] == "ok":
        exp = Res("ok", (coq_circ(impl["out"]), impl["regsize"]))
    else:
        exp = Res(impl["status"])
    head = (coq_benv(canon["benv"]), coq_circ(canon["input"]), canon["nc"], [list(g) for g in ids])
    if aids is not None:
        head = head + ([list(g) for g in aids],)
    return head + (coq_maps(map_ids), exp, bool(impl["side_ok"]))


# --------------------------------------------------------------------------------------
# generators
# --------------------------------------------------------------------------------------

def rand_ordinary(rng, nq, nc):
    k = int(rng.integers(0, 12))
    q = int(rng.integers(0, nq))
    if k < 5:
        name = ["h", "x", "s", "sx", "z"][k]
        return ["g", name, [], [q]]
    if k < 7:
        ang = [0.5, 0.25, -0.75, 1.5][int(rng.integers(0, 4))]
        return ["g", "rz" if k == 5 else "rx", [fr(ang)], [q]]
    if k < 9 and nq >= 2:
        a, b = (int(x) for x in rng.permutation(nq)[:2])
        return ["g", ["cx", "cz", "swap"][int(rng.integers(0, 3))], [], [a, b]]
    if k == 9 and nc > 0:
        return ["measure", q, int(rng.integers(0, nc))]
    if k == 10:
        return ["reset", q]
    if k == 11:
        if rng.integers(0, 2):
            return ["qpdm", q]
        m = int(rng.integers(1, nq + 1))
        return ["barrier", [int(x) for x in rng.permutation(nq)[:m]]]
    return ["g", "h", [], [q]]


def gen_valid(rng, preset_mode=None, n_units=None):
    """A well-formed request.  Returns (desc, ids, nmaps per group)."""
    nq = int(rng.integers(1, 5))
    nc = int(rng.integers(0, 3))
    if n_units is None:
        n_units = int(rng.integers(0, 5))
    if preset_mode is None:
        preset_mode = ["none", "all", "mixed"][int(rng.integers(0, 3))]
    bases = []
    units = []  # each unit: list of placeholder items
    tokens = []
    for u in range(n_units):
        kind = int(rng.integers(0, 3))
        if kind == 0 and nq < 2:
            kind = 1
        if kind in (0, 1):
            key = BASIS2_KEYS[int(rng.integers(0, len(BASIS2_KEYS)))]
        else:
            if rng.integers(0, 3) == 0:
                key = BASIS2_KEYS[int(rng.integers(0, len(BASIS2_KEYS)))]  # a lone half of a 2-qubit basis
            else:
                key = BASIS1_KEYS[int(rng.integers(0, len(BASIS1_KEYS)))]
        bases.append(key)
        bi = len(bases) - 1
        nmaps = len(make_basis(key).maps)
        label = LABELS[int(rng.integers(0, len(LABELS)))]

        def preset():
            if preset_mode == "all" or (preset_mode == "mixed" and rng.integers(0, 2)):
                return int(rng.integers(0, nmaps))
            return None

        if kind == 0:
            a, b = (int(x) for x in rng.permutation(nq)[:2])
            its = [["qpd2", bi, preset(), label, [a, b]]]
        elif kind == 1:
            p = preset()
            bj = bi
            if rng.integers(0, 4) == 0:  # an equal but distinct QPDBasis object for the second half
                bases.append(key)
                bj = len(bases) - 1
            h0, h1 = (0, 1) if rng.integers(0, 6) else (int(rng.integers(0, 2)), int(rng.integers(0, 2)))
            its = [["qpd1", bi, h0, p, label, [int(rng.integers(0, nq))]],
                   ["qpd1", bj, h1, p if rng.integers(0, 4) else preset(), label, [int(rng.integers(0, nq))]]]
        else:
            half = int(rng.integers(0, 2)) if key[0] != "hand1" else 0
            its = [["qpd1", bi, half, preset(), label, [int(rng.integers(0, nq))]]]
        units.append((its, nmaps))
        for j in range(len(its)):
            tokens.append(("p", u, j))
    n_ord = int(rng.integers(0, 7))
    for _ in range(n_ord):
        tokens.append(("o", rand_ordinary(rng, nq, nc)))
    order = rng.permutation(len(tokens)) if tokens else []
    items = []
    where = {}
    for t in order:
        tok = tokens[int(t)]
        if tok[0] == "o":
            items.append(tok[1])
        else:
            where[(tok[1], tok[2])] = len(items)
            items.append(units[tok[1]][0][tok[2]])
    groups = []
    for u, (its, nmaps) in enumerate(units):
        g = [where[(u, j)] for j in range(len(its))]
        if len(g) == 2 and rng.integers(0, 2):
            g = g[::-1]
        groups.append((g, nmaps))
    gorder = rng.permutation(len(groups)) if groups else []
    groups = [groups[int(i)] for i in gorder]
    desc = dict(nq=nq, nc=nc, bases=bases, items=items, predef=[])
    if rng.integers(0, 3) == 0:   # several registers / loose clbits (bit indices stay 0..n-1 in declaration order)
        def split(n):
            if n <= 1 or rng.integers(0, 2):
                return [n] if n else []
            k = int(rng.integers(1, n))
            return [k, n - k]
        loose = int(rng.integers(0, nc + 1)) if nc else 0
        desc["layout"] = dict(q=split(nq), c=split(nc - loose), loose=loose, loose_first=bool(rng.integers(0, 2)))
    return desc, [g for g, _ in groups], [n for _, n in groups], preset_mode


def is_ph(it):
    return it[0] in ("qpd1", "qpd2")


def ph_bid(it):
    return it[2] if it[0] == "qpd2" else it[3]


_R_COUNT = {}
_R_EVERY = [1]   # quick tier: every second valid/omitted call is also compared with the object-handle model; thorough: all


def emit(w, group, desc, ids, map_ids, inplace, tags, form="list"):
    canon, impl, contracts = execute(desc, ids, map_ids, inplace, form)
    for k, v in contracts.items():
        w.contract(k, v)
    case = dict(kind="decompose", stream=group, desc=desc, ids=ids, map_ids=map_ids, inplace=inplace, form=form, canon=canon, impl=impl)
    nph = sum(1 for it in desc["items"] if is_ph(it))
    nontrivial = (impl["status"] == "ok" and nph > 0) or (group != "valid" and impl["status"] != "ok")
    if desc.get("shared") and inplace and f17_known():
        # known finding F17: quiet group, compared with the model of the CURRENT aliasing behaviour
        case["known_class"] = "F17"
        aids = alias_closed_ids(desc, ids)
        case["aids"] = aids
        w.add(group + "__known_F17", "chk_decompose_f17", coq_case(canon, ids, map_ids, impl, aids), case, nontrivial=nontrivial)
        w.count(group + ".routed", "known_F17")
    else:
        w.add(group, "chk_decompose", coq_case(canon, ids, map_ids, impl), case, nontrivial=nontrivial)
        _R_COUNT[group] = _R_COUNT.get(group, 0) + 1
        if group == "malformed" or (group in ("valid", "omitted") and _R_COUNT[group] % _R_EVERY[0] == 0):
            # the same call against the model with QPDBasis.__eq__ spelled out (object handles)
            w.add(group + "__objects", "chk_decompose_r", coq_case_r(canon, ids, map_ids, impl), case, nontrivial=nontrivial)
    w.count(group + ".outcome", impl["status"])
    for k, v in tags.items():
        w.count(group + "." + k, v)
    return impl


def execute_preset(desc, ids, target, path, value):
    """Put `value` as basis_id on the placeholder at data index `target` (through the setter, or by constructing a
    replacement gate); when that is accepted, go on with decompose_qpd_instructions(map_ids omitted)."""
    qc, bases = build(desc)
    ctx = CircCtx()
    cin = ctx.canon_circuit(qc)
    nc = qc.num_clbits
    it = desc["items"][target]
    inst = qc.data[target]
    gate = inst.operation

    def attempt():
        if path == "setter":
            gate.basis_id = value
            return gate
        if it[0] == "qpd2":
            return TwoQubitQPDGate(bases[it[1]], basis_id=value, label=it[3])
        return SingleQubitQPDGate(bases[it[1]], it[2], basis_id=value, label=it[4])

    r = call_canon(attempt)
    impl = dict(status=r[0], detail=None if r[0] == "ok" else r[1], after=None)
    if r[0] == "ok":
        if path == "ctor":
            qc.data[target] = inst.replace(operation=r[1])
        impl["stored_basis_id"] = qc.data[target].operation.basis_id
        nmaps_t = len(bases[it[1]].maps)
        if isinstance(value, int) and 0 <= value < nmaps_t:
            impl["circ_after_attempt"] = ctx.canon_circuit(qc)
        r2 = call_canon(decompose_qpd_instructions, qc, ids)
        after = dict(status=r2[0], detail=None if r2[0] == "ok" else r2[1], out=None, regsize=None, untouched=True)
        if r2[0] == "ok":
            after["out"] = ctx.canon_circuit(r2[1])
            after["regsize"] = r2[1].cregs[-1].size
        impl["after"] = after
    benv = ctx.canon_benv()
    b = cin[target]["op"][1]
    canon = dict(input=cin, nc=nc, benv=benv, handle=b, nmaps=len(benv[b]))
    return canon, impl


def coq_preset_case(canon, value, impl, ids):
    exp = Res("ok", Raw("tt")) if impl["status"] == "ok" else Res(impl["status"])
    after = Raw("None")
    if impl.get("circ_after_attempt") is not None and impl.get("after"):
        a = impl["after"]
        e2 = Res("ok", (coq_circ(a["out"]), a["regsize"])) if a["status"] == "ok" else Res(a["status"])
        after = Raw("(Some " + coq((coq_circ(impl["circ_after_attempt"]), canon["nc"], [list(g) for g in ids], e2)) + ")")
    return (coq_benv(canon["benv"]), canon["handle"], Zc(value), exp, after)


def generate(rng, tier, outdir):
    w = CaseWriter(outdir, IMPORTS, case_types={"chk_decompose": "c14_case", "chk_decompose_f17": "c14_f17_case", "chk_decompose_r": "c14_r_case",
                                                   "chk_preset": "c14_preset_case"})
    _R_COUNT.clear()
    _R_EVERY[0] = 2 if tier == "quick" else 1
    n_valid = 420 if tier == "quick" else 9000
    n_omit = 160 if tier == "quick" else 3000
    n_bad = 260 if tier == "quick" else 5000
    n_stale = 60 if tier == "quick" else 1000
    n_preset = 150 if tier == "quick" else 3000
    n_shared = 80 if tier == "quick" else 1500

    # ---- valid requests with explicit in-range map choices ----
    for _ in range(n_valid):
        desc, ids, nmaps, pm = gen_valid(rng)
        map_ids = [int(rng.integers(0, n)) for n in nmaps]
        inplace = bool(rng.integers(0, 2))
        nph = sum(1 for it in desc["items"] if is_ph(it))
        form = "tuple" if rng.integers(0, 5) == 0 else "list"
        emit(w, "valid", desc, ids, map_ids, inplace,
             dict(nq=desc["nq"], placeholders=nph, groups=len(ids), preset=pm, inplace=inplace, form=form,
                  layout="registers" if desc.get("layout") else "single",
                  n2q=sum(1 for it in desc["items"] if it[0] == "qpd2"), length=len(desc["items"])), form=form)

    # ---- map_ids omitted ----
    for it_no in range(n_omit):
        pm = ["all", "all", "none", "mixed"][it_no % 4]
        desc, ids, nmaps, pm = gen_valid(rng, preset_mode=pm, n_units=int(rng.integers(1, 5)) if it_no % 8 else 0)
        inplace = bool(rng.integers(0, 2))
        unset = sum(1 for it in desc["items"] if is_ph(it) and ph_bid(it) is None)
        emit(w, "omitted", desc, ids, None, inplace, dict(preset=pm, unset_placeholders=min(unset, 3), inplace=inplace))

    # ---- malformed requests ----
    made = 0
    guard = 0
    while made < n_bad and guard < 50 * n_bad:
        guard += 1
        desc, ids, nmaps, pm = gen_valid(rng, n_units=int(rng.integers(1, 5)))
        map_ids = [int(rng.integers(0, n)) for n in nmaps]
        n = len(desc["items"])
        phs = [i for i, it in enumerate(desc["items"]) if is_ph(it)]
        others = [i for i in range(n) if i not in phs]
        mode = ["len3", "empty_group", "non_placeholder", "diff_bases", "count_less", "count_more", "maps_len",
                "map_range", "map_negative", "map_none", "index_range", "qpd2_in_pair", "repeated_index",
                "repeated_across", "eq_coeffs_diff_maps", "eq_maps_diff_coeffs"][int(rng.integers(0, 16))]
        ids = [list(g) for g in ids]
        if mode == "len3":
            if len(phs) < 3:
                continue
            flat = [p for g in ids for p in g]
            ids = [flat[:3]] + [[p] for p in flat[3:]]
            map_ids = [0] * len(ids)
        elif mode == "empty_group":
            k = int(rng.integers(0, len(ids) + 1))
            ids.insert(k, [])
            map_ids.insert(k, 0)
        elif mode == "non_placeholder":
            if not others:
                continue
            o = others[int(rng.integers(0, len(others)))]
            k = int(rng.integers(0, len(ids)))
            if rng.integers(0, 2):
                ids[k][int(rng.integers(0, len(ids[k])))] = o
            elif len(ids[k]) == 1:
                ids[k] = ids[k] + [o] if rng.integers(0, 2) else [o] + ids[k]
            else:
                ids.append([o])
                map_ids.append(0)
        elif mode == "diff_bases":
            pairs = [k for k, g in enumerate(ids) if len(g) == 2]
            singles = [k for k, g in enumerate(ids) if len(g) == 1 and desc["items"][g[0]][0] == "qpd1"]
            if pairs:
                # give the second half of a pair a basis that differs from its sibling's
                k = pairs[int(rng.integers(0, len(pairs)))]
                it = desc["items"][ids[k][int(rng.integers(0, 2))]]
                old_key = desc["bases"][it[1]]
                others2 = [key for key in BASIS2_KEYS if key != old_key]
                desc["bases"].append(others2[int(rng.integers(0, len(others2)))])
                it[1] = len(desc["bases"]) - 1
                it[3] = None
                map_ids[k] = 0
            elif len(singles) >= 2:
                a, b = singles[0], singles[1]
                if desc["bases"][desc["items"][ids[a][0]][1]] == desc["bases"][desc["items"][ids[b][0]][1]]:
                    continue
                ids[a] = [ids[a][0], ids[b][0]]
                del ids[b]
                del map_ids[b]
                map_ids[a] = 0
            else:
                continue
        elif mode == "count_less":
            k = int(rng.integers(0, len(ids)))
            del ids[k]
            del map_ids[k]
        elif mode == "count_more":
            k = int(rng.integers(0, len(ids)))
            ids.append(list(ids[k]))
            map_ids.append(map_ids[k])
        elif mode == "maps_len":
            if rng.integers(0, 2) and map_ids:
                map_ids = map_ids[:-1]
            else:
                map_ids = map_ids + [0]
        elif mode == "map_range":
            k = int(rng.integers(0, len(ids)))
            map_ids[k] = nmaps[k] + int(rng.integers(0, 3))
        elif mode == "map_negative":
            k = int(rng.integers(0, len(ids)))
            map_ids[k] = -int(rng.integers(1, nmaps[k] + 2))   # -1 .. -(len(maps)+1): Python indexing would accept most of these
        elif mode == "index_range":
            k = int(rng.integers(0, len(ids)))
            ids[k][int(rng.integers(0, len(ids[k])))] = n + int(rng.integers(0, 3))
        elif mode == "qpd2_in_pair":
            twos = [k for k, g in enumerate(ids) if desc["items"][g[0]][0] == "qpd2"]
            if not twos:
                continue
            k = twos[0]
            it = desc["items"][ids[k][0]]
            # add a sibling with the same basis object: either another 2q gate or a 1q half
            if rng.integers(0, 2):
                desc["items"].append(["qpd2", it[1], it[2], it[3], it[4]])
            else:
                desc["items"].append(["qpd1", it[1], int(rng.integers(0, 2)), it[2], it[3], [it[4][0]]])
            ids[k] = ids[k] + [len(desc["items"]) - 1]
        elif mode == "repeated_index":
            if len(ids) < 2:
                continue
            singles = [k for k, g in enumerate(ids) if len(g) == 1]
            if len(singles) < 2:
                continue
            a, b = singles[0], singles[1]
            ids[a] = [ids[a][0], ids[a][0]]   # [[p, p]] and the other placeholder left out: the count still matches
            del ids[b]
            del map_ids[b]
        elif mode in ("eq_coeffs_diff_maps", "eq_maps_diff_coeffs"):
            # halves of two different cuts in one group: bases that agree in the coefficient vector but not in the maps
            # (cx / cz / cy-like), or in the maps but not in the coefficients
            pairs = [k for k, g in enumerate(ids) if len(g) == 2]
            if not pairs:
                continue
            k = pairs[int(rng.integers(0, len(pairs)))]
            ka, kb = ((["inst", "cx", []], ["inst", "cz", []]) if mode == "eq_coeffs_diff_maps" else (["hand2", 0], ["hand2", 3]))
            if rng.integers(0, 2):
                ka, kb = kb, ka
            for it, key in zip((desc["items"][ids[k][0]], desc["items"][ids[k][1]]), (ka, kb)):
                desc["bases"].append(key)
                it[1] = len(desc["bases"]) - 1
                it[3] = None
            map_ids[k] = int(rng.integers(0, 4))
        elif mode == "repeated_across":
            singles = [k for k, g in enumerate(ids) if len(g) == 1]
            if len(singles) < 2:
                continue
            a, b = singles[0], singles[1]
            same_kind = desc["items"][ids[a][0]][0] == desc["items"][ids[b][0]][0]
            ids[b] = [ids[a][0]]              # [[p], [p]]: p twice, the other placeholder never; the count still matches
            map_ids[b] = map_ids[a] if same_kind or rng.integers(0, 2) else 0
        elif mode == "map_none":
            k = int(rng.integers(1, len(ids))) if len(ids) > 1 and rng.integers(0, 4) else int(rng.integers(0, len(ids)))
            map_ids[k] = None
        # refusals must leave the argument unchanged: exercise the in-place path more often for the map-id modes
        inplace = bool(rng.integers(0, 4) > 0) if mode in ("map_range", "map_negative", "map_none") else bool(rng.integers(0, 2))
        use_maps = map_ids if (mode in ("maps_len", "map_range", "map_negative", "map_none") or rng.integers(0, 5)) else None
        emit(w, "malformed", desc, ids, use_maps, inplace, dict(mode=mode, inplace=inplace))
        made += 1

    # ---- placeholders whose `definition` was read before the call (Instruction caches it) ----
    made = 0
    guard = 0
    while made < n_stale and guard < 50 * n_stale:
        guard += 1
        desc, ids, nmaps, pm = gen_valid(rng, preset_mode=["all", "mixed", "none"][made % 3], n_units=int(rng.integers(1, 4)))
        phs = [i for i, it in enumerate(desc["items"]) if is_ph(it)]
        pre = [p for p in phs if rng.integers(0, 3) > 0]
        if not pre:
            continue
        desc["predef"] = pre
        # choose a map id that differs from every pre-set basis_id of the group whenever the basis has a second map
        map_ids = []
        for g, n in zip(ids, nmaps):
            taken = {ph_bid(desc["items"][p]) for p in g}
            free = [m for m in range(n) if m not in taken] or list(range(n))
            map_ids.append(int(free[int(rng.integers(0, len(free)))]))
        inplace = bool(rng.integers(0, 2))
        omit = (pm == "all" and rng.integers(0, 2) == 0)
        emit(w, "definition_read_before", desc, ids, None if omit else map_ids, inplace,
             dict(preset=pm, inplace=inplace, n_read=len(pre), map_ids="omitted" if omit else "given"))
        made += 1

    # ---- the choice is made on the gate itself: basis_id through the setter / the constructors ----
    made = 0
    while made < n_preset:
        desc, ids, nmaps, pm = gen_valid(rng, preset_mode="all", n_units=int(rng.integers(1, 4)))
        phs = [i for i, it in enumerate(desc["items"]) if is_ph(it)]
        target = phs[int(rng.integers(0, len(phs)))]
        k = next(j for j, g in enumerate(ids) if target in g)
        nm = nmaps[k]
        cls = ["in_range", "too_large", "negative", "negative"][int(rng.integers(0, 4))]
        if cls == "in_range":
            value = int(rng.integers(0, nm))
        elif cls == "too_large":
            value = nm + int(rng.integers(0, 3))
        else:
            value = -int(rng.integers(1, nm + 2))       # -1 .. -(len(maps)+1); Python indexing accepts -1 .. -len(maps)
        path = ["setter", "ctor"][int(rng.integers(0, 2))]
        canon, impl = execute_preset(desc, ids, target, path, value)
        case = dict(kind="preset", stream="preset", desc=desc, ids=ids, target=target, path=path, value=value, canon=canon, impl=impl)
        w.add("preset", "chk_preset", coq_preset_case(canon, value, impl, ids), case, nontrivial=True)
        w.count("preset.class", cls)
        w.count("preset.path", path + ":" + desc["items"][target][0])
        w.count("preset.outcome", impl["status"])
        if impl["after"] is not None:
            w.count("preset.then_decompose", impl["after"]["status"])
        made += 1

    # ---- ONE gate object at two positions (QuantumCircuit.append does not copy the instruction) ----
    made = 0
    while made < n_shared:
        desc, ids, nmaps, pm = gen_valid(rng, preset_mode=["none", "all"][made % 2], n_units=int(rng.integers(1, 4)))
        phs = [i for i, it in enumerate(desc["items"]) if is_ph(it)]
        src = phs[int(rng.integers(0, len(phs)))]
        k = next(j for j, g in enumerate(ids) if src in g)
        it = desc["items"][src]
        if rng.integers(0, 2):
            desc["items"].append(rand_ordinary(rng, desc["nq"], desc["nc"]))
        dup = list(it)
        if it[0] == "qpd2":
            dup[4] = [int(x) for x in rng.permutation(desc["nq"])[:2]]
        else:
            dup[5] = [int(rng.integers(0, desc["nq"]))]
        desc["items"].append(dup)
        j = len(desc["items"]) - 1
        desc["shared"] = {str(j): src}
        pos = int(rng.integers(0, len(ids) + 1))
        ids = [list(g) for g in ids]
        ids.insert(pos, [j])
        nmaps = list(nmaps)
        nmaps.insert(pos, nmaps[k])
        map_ids = [int(rng.integers(0, n)) for n in nmaps]
        kk = k + 1 if pos <= k else k
        if nmaps[pos] > 1 and rng.integers(0, 4):      # differing map ids for the two positions of the shared object
            while map_ids[pos] == map_ids[kk]:
                map_ids[pos] = int(rng.integers(0, nmaps[pos]))
        inplace = bool(rng.integers(0, 3) > 0)
        emit(w, "shared_instance", desc, ids, map_ids, inplace,
             dict(inplace=inplace, kind=it[0], differing=(map_ids[pos] != map_ids[kk])))
        made += 1

    # ---- the property-level oracle must accept what the implementation does on the unchanged tree ----
    for gname, g in list(w.groups.items()):
        for _, jc in g["cases"]:
            try:
                v = judge(jc)
                ok = not v["violates"]
            except Exception:  # noqa: BLE001
                ok = False
            w.contract("judge_accepts_clean_case", ok)

    return w.finish(
        rule="random circuits on 1..4 qubits, 0..2 clbits, 0..6 ordinary instructions (1q/2q gates, measure, reset, barrier, "
        "pre-existing qpd_measure) interleaved with 0..4 decompositions (TwoQubitQPDGate / two SingleQubitQPDGate halves sharing "
        "a basis, possibly through equal-but-distinct QPDBasis objects / standalone SingleQubitQPDGate); bases from "
        "QPDBasis.from_instruction(cx, cz, swap, Move, rzz(1/2), rzz(3/4)) and five hand-made bases with empty op lists; group order "
        "and id order inside pairs shuffled; basis_id preset none/all/mixed; inplace False/True. Streams: valid (random in-range "
        "map_ids), omitted (map_ids=None), malformed (16 mutation classes incl. halves of two cuts whose bases agree only in coefficients or only in maps, negative / None map ids, repeated indices, 2q gate in a pair), definition_read_before (Instruction._definition cache "
        "filled before the call), preset (an in-range / too large / negative basis_id put on one placeholder through the setter or a "
        "constructor, then decompose with map_ids omitted), shared_instance (one gate object at two positions; inplace=True cases are "
        "the known finding F17 and go to a quiet group while KNOWN_FINDINGS.json lists it). One third of the circuits use several "
        "quantum/classical registers and loose clbits; one fifth of the valid calls pass tuples. distinct = distinct Coq case literal; non-trivial = successful call with >=1 placeholder, or a "
        "non-Ok outcome in the non-valid streams"
    )


# --------------------------------------------------------------------------------------
# property-level oracle: direct splice of basis.maps on the canonical JSON (independent of the Coq model)
# --------------------------------------------------------------------------------------

def _seq(benv, b, m, half):
    return benv[b][m][half]


def direct_splice(cin, benv, nc, chosen):
    """chosen: data index -> map id.  Returns (instruction list as comparable tuples, register size)."""
    out = []
    k = 0

    def put(bop, q):
        nonlocal k
        if bop[0] == "m":
            out.append((("measure",), (q,), (nc + k,)))
            k += 1
        elif bop[0] == "r":
            out.append((("reset",), (q,), ()))
        else:
            out.append((("gate", bop[1]), (q,), ()))

    for i, d in enumerate(cin):
        op = d["op"]
        if op[0] == "qpd2":
            for half in (0, 1):
                for bop in _seq(benv, op[1], chosen[i], half):
                    put(bop, d["qs"][half])
        elif op[0] == "qpd1":
            for bop in _seq(benv, op[1], chosen[i], op[2]):
                put(bop, d["qs"][0])
        elif op[0] == "qpd_measure":
            out.append((("measure",), tuple(d["qs"]), (nc + k,)))
            k += 1
        else:
            out.append((_opkey(op), tuple(d["qs"]), tuple(d["cs"])))
    return out, max(1, k)


def _opkey(op):
    if op[0] == "gate":
        return ("gate", op[1])
    return tuple(_freeze(x) for x in op)


def _freeze(x):
    return tuple(_freeze(y) for y in x) if isinstance(x, list) else x


def _impl_out(impl):
    return [(_opkey(d["op"]), tuple(d["qs"]), tuple(d["cs"])) for d in impl["out"]]


def judge_preset(case):
    canon, impl, value = case["canon"], case["impl"], case["value"]
    st = impl["status"]
    how = f"basis_id={value} via {case['path']} on data[{case['target']}] ({canon['nmaps']} maps)"
    if not (0 <= value < canon["nmaps"]):
        if st == "refused":
            return dict(violates=False, detail=how + ": out of range and refused")
        then = ""
        if impl.get("after"):
            a = impl["after"]
            then = f"; decompose_qpd_instructions(map_ids omitted) then answered {a['status']}" + (
                f" with {[d['op'][:3] + [d['qs']] for d in a['out']]}" if a["status"] == "ok" else f" ({a['detail']})")
        return dict(violates=True, detail=how + f": an out-of-range choice was not refused (outcome {st}: {impl.get('detail')}; "
                                                f"stored basis_id {impl.get('stored_basis_id')})" + then)
    if st != "ok":
        return dict(violates=True, detail=how + f": an in-range choice was answered with {st}: {impl.get('detail')}")
    # accepted in-range choice: the decomposition that follows must be the direct splice with that choice
    cin = [dict(d, op=list(d["op"])) for d in canon["input"]]
    op = cin[case["target"]]["op"]
    op[2 if op[0] == "qpd2" else 3] = value
    sub = dict(canon=dict(input=cin, benv=canon["benv"], nc=canon["nc"]), ids=case["ids"], map_ids=None, inplace=True, impl=impl["after"])
    v = judge(dict(sub, kind="decompose"))
    return dict(violates=v["violates"], detail=how + ": accepted; then " + v["detail"])


def judge(case):
    if case.get("kind") == "preset":
        return judge_preset(case)
    cin, benv, nc = case["canon"]["input"], case["canon"]["benv"], case["canon"]["nc"]
    ids, maps, impl, inplace = case["ids"], case["map_ids"], case["impl"], case["inplace"]
    robj = case["canon"].get("r")
    if robj:
        # handles = basis OBJECTS; equality of bases is decided here from their content (qubit count, maps, coefficients),
        # not by the implementation's __eq__
        cin, renv = robj["input"], robj["renv"]
        benv = [b["maps"] for b in renv]
        if impl.get("out_r") is not None:
            impl = dict(impl, out=impl["out_r"])

        def same_basis(a, b):
            return renv[a] == renv[b]
    else:
        def same_basis(a, b):
            return a == b
    n = len(cin)
    st = impl["status"]
    ph = [d["op"][0] in ("qpd1", "qpd2") for d in cin]
    if not inplace and not impl.get("untouched", True):
        return dict(violates=True, detail="inplace=False but the input circuit was modified: " + str(impl.get("input_after")))
    if inplace and st == "refused" and not impl.get("arg_unchanged", True):
        return dict(violates=True, detail="the call was refused, but not cleanly: the argument circuit was modified before the "
                                          "ValueError: " + str(impl.get("input_after")))
    if any(not (0 <= p < n) for g in ids for p in g):
        return dict(violates=False, detail="an index is outside the circuit (or negative); outside the property's quantifier (outcome %s)" % st)
    reasons = []
    if any(len(g) not in (1, 2) for g in ids):
        reasons.append("group length not 1 or 2")
    if any(not ph[p] for g in ids for p in g):
        reasons.append("index of a non-placeholder")
    if not reasons and any(not same_basis(cin[p]["op"][1], cin[g[0]]["op"][1]) for g in ids for p in g):
        reasons.append("differing bases in one group")
    if sum(len(g) for g in ids) != sum(ph):
        reasons.append("count mismatch")
    flat = [p for g in ids for p in g]
    if len(set(flat)) != len(flat):
        reasons.append("an instruction index is mentioned twice")
    if any(ph[p] and cin[p]["op"][0] == "qpd2" and len(g) != 1 for g in ids for p in g):
        reasons.append("a two-qubit placeholder shares a group with another index")
    if maps is not None and len(maps) != len(ids):
        reasons.append("len(map_ids) mismatch")
    if maps is not None and any(m is None for m in maps):
        reasons.append("None entry in map_ids")
    if not reasons and maps is not None:
        for k, g in enumerate(ids):
            for p in g:
                if not (0 <= maps[k] < len(benv[cin[p]["op"][1]])):
                    reasons.append("map id out of range")
    if reasons:
        return dict(violates=(st != "refused"), detail=f"request must be refused ({'; '.join(sorted(set(reasons)))}); outcome {st}: {impl.get('detail')}")
    # a proper grouping of all placeholders
    chosen = {}
    known = ""
    assign_ids = ids
    if case.get("known_class") == "F17" and inplace:
        # known finding F17: positions holding ONE gate object all receive the map id assigned last
        assign_ids = alias_closed_ids(case["desc"], ids)
        known = " (known finding F17: current aliasing behaviour of a shared gate object under inplace=True)"
    for p, d in enumerate(cin):
        if ph[p]:
            chosen[p] = d["op"][2] if d["op"][0] == "qpd2" else d["op"][3]
    if maps is not None:
        for k, g in enumerate(assign_ids):
            for p in g:
                chosen[p] = maps[k]
    if any(v is None for v in chosen.values()):
        # map choice omitted and some placeholder has no basis_id: must decompose (randomly) or be refused cleanly
        if st == "crashed":
            return dict(violates=True, detail="map_ids omitted, basis_id unset: expected a decomposition or a ValueError, got " + str(impl.get("detail")))
        if st == "ok" and any(d["op"][0] in ("qpd1", "qpd2", "qpd_measure") for d in impl["out"]):
            return dict(violates=True, detail="result still contains placeholders")
        return dict(violates=False, detail="map_ids omitted with unset basis_id: outcome " + st)
    want, size = direct_splice(cin, benv, nc, chosen)
    if st != "ok":
        return dict(violates=True, detail=f"valid request answered with {st}: {impl.get('detail')}")
    got = _impl_out(impl)
    if got != want or impl["regsize"] != size:
        first = next((i for i, (a, b) in enumerate(zip(got, want)) if a != b), min(len(got), len(want)))
        return dict(violates=True, detail=f"direct splice differs at output position {first}: want {want[first:first + 3]} "
                                          f"got {got[first:first + 3]}; register size want {size} got {impl['regsize']}" + known)
    if not impl.get("reg_ok", True):
        return dict(violates=True, detail="the new register is not the final register of the result / its bits are not the final clbits")
    return dict(violates=False, detail="equals the direct splice" + known)


def rerun(case):
    if case.get("kind") == "preset":
        case["canon"], case["impl"] = execute_preset(case["desc"], case["ids"], case["target"], case["path"], case["value"])
        return case
    canon, impl, _ = execute(case["desc"], case["ids"], case["map_ids"], case["inplace"], case.get("form", "list"))
    case["canon"] = canon
    case["impl"] = impl
    return case


# --------------------------------------------------------------------------------------
# known-finding witnesses (run.py: driver.py witness c14 --name <id>)
# --------------------------------------------------------------------------------------

def _witness_case(desc, ids, map_ids, inplace=False):
    canon, impl, _ = execute(desc, ids, map_ids, inplace)
    case = dict(kind="decompose", stream="witness", desc=desc, ids=ids, map_ids=map_ids, inplace=inplace, canon=canon, impl=impl)
    return case, judge(case)


def witness(name):
    """fails=True iff the implementation still violates the property on the recorded witness input."""
    if name == "F5":
        # decompose_qpd_instructions(qc, [[i]]) on a gate whose basis_id is None -> AttributeError instead of ValueError
        desc = dict(nq=2, nc=0, bases=[["inst", "cx", []]], items=[["g", "h", [], [0]], ["qpd2", 0, None, "cut_cx_0", [0, 1]]], predef=[])
        case, v = _witness_case(desc, [[1]], None)
        return dict(fails=bool(v["violates"]), detail=v["detail"], impl=case["impl"]["status"])
    if name == "F15":
        # Instruction.definition is cached; the basis_id setter does not invalidate it.
        cx = ["inst", "cx", []]
        # (a) basis_id=1 pre-set, definition read, then decomposed with map id 2: must give map 2's operations
        d1 = dict(nq=2, nc=0, bases=[cx], items=[["qpd2", 0, 1, None, [0, 1]]], predef=[0])
        c1, v1 = _witness_case(d1, [[0]], [2])
        # (b) basis_id unset, definition read, then decomposed with explicit map ids: must decompose
        d2 = dict(nq=2, nc=0, bases=[cx], items=[["qpd2", 0, None, None, [0, 1]]], predef=[0])
        c2, v2 = _witness_case(d2, [[0]], [2])
        # (c) a one-qubit half with a pre-set basis_id whose definition was read
        d3 = dict(nq=1, nc=0, bases=[cx], items=[["qpd1", 0, 0, 0, None, [0]]], predef=[0])
        c3, v3 = _witness_case(d3, [[0]], [2])
        fails = bool(v1["violates"] or v2["violates"] or v3["violates"])
        return dict(fails=fails, detail=" | ".join(f"({t}) {c['impl']['status']}: {v['detail']}" for t, c, v in
                                                   (("a", c1, v1), ("b", c2, v2), ("c", c3, v3))))
    if name == "F17":
        # ONE TwoQubitQPDGate object appended twice, inplace=True: both positions are decomposed with the map id assigned last
        desc = dict(nq=2, nc=0, bases=[["inst", "cx", []]],
                    items=[["qpd2", 0, None, None, [0, 1]], ["g", "x", [], [0]], ["qpd2", 0, None, None, [0, 1]]],
                    predef=[], shared={"2": 0})
        case, v = _witness_case(desc, [[0], [2]], [0, 3], inplace=True)   # judged WITHOUT the known-class tag
        return dict(fails=bool(v["violates"]), detail=v["detail"], impl=case["impl"]["status"])
    return dict(fails=None, detail=f"unknown witness {name}")

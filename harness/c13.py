"""C13 correspondence: utils/simulation.py simulate_statevector_outcomes / ExactSampler
vs  Model/Sim.v instantiated with the exact simulator Common/QSim.v (evaluated inside Coq),
and vs an independent numpy density-matrix branch simulator (judge / oracle).

JSON case:
  kind   : "sim" | "tol" | "multi"
  nq, ncl                      number of qubits / clbits (indices in `prog` are global bit indices)
  qregs, cregs                 bit layout: list of ["r", n] (a register of n bits) | ["b", n] (n bare bits); an int n = ["r", n]
  prog   : list of
            ["g", name, [qubits]]            gate of the exactly representable set (x y z h s sdg sx sxdg cx cz swap ccx)
            ["comp", [[name, [local qubits]] ...], [qubits]]   sub-circuit of such gates appended as ONE composite gate (to_gate)
            ["measure", q, c] ["reset", q] ["barrier", [qubits]]
            ["u", [[re, im] ...] row-major, [qubits]]   arbitrary unitary (tol stream)
            ["ry", theta, q]                            (tol stream)
            ["rxp"|"ryp"|"rzp", pname, q]               parametrised rotation (multi stream); value in case["params"][pname]
            ["cif", name, [qubits], c, val]             gate.c_if(clbit c, val)
            ["cifreg", name, [qubits], reg, val]        gate.c_if(classical register, val)
            ["cifmeasure", q, c, c2, val]               measure(q, c).c_if(clbit c2, val)
            ["cifreset", q, c, val]                     reset(q).c_if(clbit c, val)
            ["ifelse", c, val, name, [qubits]]          with qc.if_test((clbit c, val)): gate
            ["ifelse2", c, val, name, [qubits], name2]  if_test with an else branch
            ["ifexpr", c, name, [qubits]]               with qc.if_test(expr.logic_not(clbit c)): gate
            ["while", c, val, q]                        with qc.while_loop((clbit c, val)): x(q); measure(q, c)
            ["switch", c, name, [qubits]]               with qc.switch(clbit c): case(0): gate
            ["clgate", [qubits], [clbits]]              opaque Instruction holding clbits
  impl_fn, impl_sampler : ["ok", [[outcome, float] ...] in dict order] | ["refused", msg] | ["crashed", msg]
  multi  : circuits = [sub-case ...] (each with nq ncl qregs cregs prog params), impl_multi = ["ok", [dist ...]] | ...
"""
from __future__ import annotations

from fractions import Fraction

import numpy as np
from qiskit.circuit import QuantumCircuit, QuantumRegister, ClassicalRegister, Instruction, Parameter, Qubit, Clbit
from qiskit.circuit.library import UnitaryGate

from qiskit_addon_cutting.utils.simulation import simulate_statevector_outcomes, ExactSampler

from common import CaseWriter, Res, Raw, Nc, Qc, Opt, call_canon, coq

IMPORTS = ("From Coq Require Import QArith.\nFrom CKT Require Import Common.Base Common.QSim Model.Sim Corr.C13Corr.\n"
           "Close Scope Q_scope.")
CASE_TYPES = {
    "chk_sim": "sim_case",
    "chk_dist": "res (list (N * Q)) * option (res (list (N * Q))) * list (N * Q)",
    "chk_multi": "res (list (list (N * Q))) * list (list (N * Q))",
    "chk_multiq": "multiq_case",
}

G1 = ["x", "y", "z", "h", "s", "sdg", "sx", "sxdg"]
G2 = ["cx", "cz", "swap"]
G3 = ["ccx"]
COQ_GATE = {g: "G" + g for g in G1 + G2 + G3}
CONDITIONED = ("cif", "cifreg", "cifmeasure", "cifreset", "ifelse", "ifelse2", "ifexpr", "while", "switch")


# ----------------------------------------------------------------------------------------------
# circuit construction from the JSON program
# ----------------------------------------------------------------------------------------------
def _layout(spec, regcls, bitcls, prefix):
    regs, items = [], []
    for i, e in enumerate(spec):
        kind, n = ("r", e) if isinstance(e, int) else e
        if kind == "r":
            r = regcls(n, f"{prefix}{i}")
            regs.append(r)
            items.append(r)
        else:
            items.append([bitcls() for _ in range(n)])
    return regs, items


def _par(qc, name):
    for p in qc.parameters:
        if p.name == name:
            return p
    return Parameter(name)


def _apply_ins(qc, ins):
    k = ins[0]
    if k == "g":
        getattr(qc, ins[1])(*ins[2])
    elif k == "comp":
        sub = QuantumCircuit(len(ins[2]))
        for name, qs in ins[1]:
            getattr(sub, name)(*qs)
        qc.append(sub.to_gate(label="comp"), ins[2])
    elif k == "measure":
        qc.measure(ins[1], ins[2])
    elif k == "reset":
        qc.reset(ins[1])
    elif k == "barrier":
        qc.barrier(*ins[1])
    elif k == "u":
        m = np.array([complex(a, b) for a, b in ins[1]])
        d = int(round(np.sqrt(len(m))))
        qc.append(UnitaryGate(m.reshape(d, d), check_input=False), ins[2])
    elif k == "ry":
        qc.ry(ins[1], ins[2])
    elif k in ("rxp", "ryp", "rzp"):
        getattr(qc, k[:2])(_par(qc, ins[1]), ins[2])
    elif k == "cif":
        getattr(qc, ins[1])(*ins[2]).c_if(qc.clbits[ins[3]], ins[4])
    elif k == "cifreg":
        getattr(qc, ins[1])(*ins[2]).c_if(qc.cregs[ins[3]], ins[4])
    elif k == "cifmeasure":
        qc.measure(ins[1], ins[2]).c_if(qc.clbits[ins[3]], ins[4])
    elif k == "cifreset":
        qc.reset(ins[1]).c_if(qc.clbits[ins[2]], ins[3])
    elif k == "ifelse":
        with qc.if_test((qc.clbits[ins[1]], ins[2])):
            getattr(qc, ins[3])(*ins[4])
    elif k == "ifelse2":
        with qc.if_test((qc.clbits[ins[1]], ins[2])) as else_:
            getattr(qc, ins[3])(*ins[4])
        with else_:
            getattr(qc, ins[5])(*ins[4])
    elif k == "ifexpr":
        from qiskit.circuit.classical import expr

        with qc.if_test(expr.logic_not(qc.clbits[ins[1]])):
            getattr(qc, ins[2])(*ins[3])
    elif k == "while":
        with qc.while_loop((qc.clbits[ins[1]], ins[2])):
            qc.x(ins[3])
            qc.measure(ins[3], ins[1])
    elif k == "switch":
        with qc.switch(qc.clbits[ins[1]]) as case_:
            with case_(0):
                getattr(qc, ins[2])(*ins[3])
    elif k == "clgate":
        qc.append(Instruction("foo", len(ins[1]), len(ins[2]), []), ins[1], ins[2])
    else:
        raise ValueError(k)


def build(case, upto=None) -> QuantumCircuit:
    """the circuit of case['prog'][:upto]"""
    _, qitems = _layout(case["qregs"], QuantumRegister, Qubit, "q")
    _, citems = _layout(case["cregs"], ClassicalRegister, Clbit, "c")
    qc = QuantumCircuit(*qitems, *citems)
    assert qc.num_qubits == case["nq"] and qc.num_clbits == case["ncl"]
    for ins in case["prog"][:upto]:
        _apply_ins(qc, ins)
    return qc


def _dist(r):
    return ["ok", [[int(k), float(v)] for k, v in r[1].items()]] if r[0] == "ok" else [r[0], r[1]]


def run_impl(case, sampler=None):
    if case["kind"] == "multi":
        return run_multi(case, sampler)
    qc = build(case)
    case["impl_fn"] = _dist(call_canon(simulate_statevector_outcomes, qc))
    qc2 = build(case)
    s = sampler if sampler is not None else ExactSampler()
    case["impl_sampler"] = _dist(call_canon(lambda: s.run([qc2]).result().quasi_dists[0]))
    return case


def run_multi(case, sampler=None):
    """One ExactSampler.run over all circuits.  If a sub-case has "appended" = n > 0, the circuits are first built
    WITHOUT their last n instructions and run once on the same sampler (answer discarded), then the same circuit
    OBJECTS are extended in place and run again: the recorded answer must be that of the circuits as they are now."""
    s = sampler if sampler is not None else ExactSampler()
    subs = case["circuits"]
    two_calls = any(sub.get("appended", 0) for sub in subs)
    circs = [build(sub, upto=len(sub["prog"]) - sub.get("appended", 0)) for sub in subs]
    if two_calls:
        call_canon(lambda: s.run(circs, [[sub["params"][p.name] for p in qc.parameters] for sub, qc in zip(subs, circs)]).result())
        for sub, qc in zip(subs, circs):
            for ins in sub["prog"][len(sub["prog"]) - sub.get("appended", 0):]:
                _apply_ins(qc, ins)
    vals = [[sub["params"][p.name] for p in qc.parameters] for sub, qc in zip(subs, circs)]   # circuit.parameters order
    r = call_canon(lambda: s.run(circs, vals).result().quasi_dists)
    if r[0] == "ok":
        case["impl_multi"] = ["ok", [[[int(k), float(v)] for k, v in d.items()] for d in r[1]]]
    else:
        case["impl_multi"] = [r[0], r[1]]
    return case


# ----------------------------------------------------------------------------------------------
# independent oracle: density-matrix branch simulator (dict clbit-outcome -> unnormalised rho)
# ----------------------------------------------------------------------------------------------
_S2 = 1 / np.sqrt(2)
_M1 = {
    "x": np.array([[0, 1], [1, 0]], complex),
    "y": np.array([[0, -1j], [1j, 0]], complex),
    "z": np.array([[1, 0], [0, -1]], complex),
    "h": np.array([[_S2, _S2], [_S2, -_S2]], complex),
    "s": np.array([[1, 0], [0, 1j]], complex),
    "sdg": np.array([[1, 0], [0, -1j]], complex),
    "sx": 0.5 * np.array([[1 + 1j, 1 - 1j], [1 - 1j, 1 + 1j]]),
    "sxdg": 0.5 * np.array([[1 - 1j, 1 + 1j], [1 + 1j, 1 - 1j]]),
}


def _perm_gate(name):
    """matrix of cx / cz / swap / ccx by its action on basis states; bit j of the index = j-th qubit argument"""
    k = 3 if name == "ccx" else 2
    m = np.zeros((1 << k, 1 << k), complex)
    for i in range(1 << k):
        a, b = i & 1, (i >> 1) & 1
        if name == "cx":  # a control, b target
            m[a | ((b ^ a) << 1), i] = 1
        elif name == "cz":
            m[i, i] = -1 if (a and b) else 1
        elif name == "swap":
            m[b | (a << 1), i] = 1
        elif name == "ccx":  # a, b controls, third argument target
            m[i ^ (4 if (a and b) else 0), i] = 1
        else:
            raise ValueError(name)
    return m


def _gate_matrix(name):
    return _M1[name] if name in _M1 else _perm_gate(name)


def _rot(axis, t):
    c, s = np.cos(t / 2), np.sin(t / 2)
    if axis == "x":
        return np.array([[c, -1j * s], [-1j * s, c]], complex)
    if axis == "y":
        return np.array([[c, -s], [s, c]], complex)
    return np.array([[np.exp(-1j * t / 2), 0], [0, np.exp(1j * t / 2)]], complex)


def _full(u, qs, n):
    dim = 1 << n
    f = np.zeros((dim, dim), complex)
    mask = sum(1 << q for q in qs)
    for col in range(dim):
        sub_in = sum(((col >> q) & 1) << j for j, q in enumerate(qs))
        rest = col & ~mask
        for sub_out in range(1 << len(qs)):
            row = rest | sum(((sub_out >> j) & 1) << q for j, q in enumerate(qs))
            f[row, col] = u[sub_out, sub_in]
    return f


def is_conditioned(ins):
    return ins[0] in CONDITIONED


def _unitaries(ins, params):
    """list of (matrix, qubits) for a unitary instruction of the property's domain"""
    k = ins[0]
    if k == "g":
        return [(_gate_matrix(ins[1]), ins[2])]
    if k == "comp":
        return [(_gate_matrix(name), [ins[2][q] for q in qs]) for name, qs in ins[1]]
    if k == "u":
        v = np.array([complex(a, b) for a, b in ins[1]])
        d = int(round(np.sqrt(len(v))))
        return [(v.reshape(d, d), ins[2])]
    if k == "ry":
        return [(_rot("y", ins[1]), [ins[2]])]
    if k in ("rxp", "ryp", "rzp"):
        return [(_rot(k[1], params[ins[1]]), [ins[2]])]
    return None


def true_distribution(case):
    """dict outcome -> probability, by evolving one unnormalised density matrix per classical outcome."""
    n = case["nq"]
    dim = 1 << n
    rho0 = np.zeros((dim, dim), complex)
    rho0[0, 0] = 1
    cur = {0: rho0}
    for ins in case["prog"]:
        k = ins[0]
        if k == "barrier":
            continue
        us = _unitaries(ins, case.get("params", {}))
        if us is not None:
            for u, qs in us:
                f = _full(u, qs, n)
                cur = {o: f @ r @ f.conj().T for o, r in cur.items()}
            continue
        if k in ("measure", "reset"):
            q = ins[1]
            p0 = np.diag([0.0 if (i >> q) & 1 else 1.0 for i in range(dim)]).astype(complex)
            p1 = np.eye(dim) - p0
            nxt = {}
            for o, r in cur.items():
                r0 = p0 @ r @ p0
                r1 = p1 @ r @ p1
                if k == "measure":
                    c = ins[2]
                    o0, o1 = o & ~(1 << c), o | (1 << c)
                else:
                    fx = _full(_M1["x"], [q], n)
                    r1 = fx @ r1 @ fx.conj().T
                    o0 = o1 = o
                nxt[o0] = nxt.get(o0, 0) + r0
                nxt[o1] = nxt.get(o1, 0) + r1
            cur = nxt
            continue
        raise ValueError(f"oracle: instruction {k} outside the property's domain")
    return {o: float(np.real(np.trace(r))) for o, r in cur.items()}


def _judge_answer(ans, truth, who):
    if ans[0] != "ok":
        return f"{who}: valid circuit not answered ({ans[0]}: {ans[1]})"
    return _judge_dist(ans[1], truth, who)


def _judge_dist(pairs, truth, who):
    got = {}
    for o, p in pairs:
        if o in got:
            return f"{who}: duplicate outcome {o}"
        got[o] = p
    for o in set(got) | set(truth):
        if abs(got.get(o, 0.0) - truth.get(o, 0.0)) > 1e-9:
            return f"{who}: outcome {o}: returned {got.get(o, 0.0)!r}, true {truth.get(o, 0.0)!r}"
    s = sum(got.values())
    if abs(s - 1) > 1e-9:
        return f"{who}: probabilities sum to {s!r}"
    return None


def judge(case):
    """Property-level oracle.  Domain = the property's quantifier: circuits of unitary gates (incl. composites of
    unitaries), barriers, measurements, resets -> every outcome's true probability, sum one; circuits with a
    classically conditioned operation -> must be REFUSED (ValueError), anything else (an answer or another
    exception) violates.  Opaque operations holding clbits are outside the property (never flagged)."""
    if case["kind"] == "multi":
        ans = case["impl_multi"]
        if any(is_conditioned(i) for sub in case["circuits"] for i in sub["prog"]):
            return dict(violates=ans[0] != "refused", detail=f"call containing a conditioned circuit: {ans[0]}")
        if any(i[0] == "clgate" for sub in case["circuits"] for i in sub["prog"]):
            return dict(violates=False, detail="operation with a classical bit: outside the property's domain")
        if ans[0] == "refused" and any(sampler_prevalidation_refuses(sub) for sub in case["circuits"]):
            return dict(violates=False, detail="BaseSamplerV1.run (Qiskit) refuses a call containing a circuit without clbits / Measure")
        if ans[0] != "ok":
            return dict(violates=True, detail=f"ExactSampler.run over {len(case['circuits'])} valid circuits not answered ({ans[0]}: {ans[1]})")
        if len(ans[1]) != len(case["circuits"]):
            return dict(violates=True, detail=f"{len(ans[1])} distributions for {len(case['circuits'])} circuits")
        for i, (sub, pairs) in enumerate(zip(case["circuits"], ans[1])):
            d = _judge_dist(pairs, true_distribution(sub), f"ExactSampler quasi_dists[{i}]")
            if d:
                return dict(violates=True, detail=d)
        return dict(violates=False, detail="every quasi_dists[i] matches the density-matrix oracle of the i-th bound circuit")
    prog = case["prog"]
    fn, sam = case["impl_fn"], case["impl_sampler"]
    if any(is_conditioned(i) for i in prog):
        bad = [f"{w} ({a[0]})" for w, a in (("simulate_statevector_outcomes", fn), ("ExactSampler", sam)) if a[0] != "refused"]
        return dict(violates=bool(bad), detail=("conditioned circuit not refused with ValueError by " + ", ".join(bad) + f": {fn[1]!r:.200}") if bad
                    else "conditioned circuit refused")
    if any(i[0] == "clgate" for i in prog):
        return dict(violates=False, detail=f"operation with a classical bit: outside the property's domain (got {fn[0]}/{sam[0]})")
    truth = true_distribution(case)
    d = _judge_answer(fn, truth, "simulate_statevector_outcomes")
    if d is None:
        if sam[0] == "refused" and sampler_prevalidation_refuses(case):
            # BaseSamplerV1.run (Qiskit) rejects circuits without classical bits / without a Measure before
            # ExactSampler._call is reached; the repository code is not involved.
            d = None
        else:
            d = _judge_answer(sam, truth, "ExactSampler")
    return dict(violates=d is not None, detail=d or "matches the density-matrix oracle")


def sampler_prevalidation_refuses(case):
    return case["ncl"] == 0 or not any(i[0] == "measure" for i in case["prog"])


def rerun(case):
    return run_impl(case)


# ----------------------------------------------------------------------------------------------
# Coq literals
# ----------------------------------------------------------------------------------------------
def nat_list(l):
    return "[" + "; ".join(str(int(x)) for x in l) + "]"


def coq_prog(prog):
    out = []
    for ins in prog:
        k = ins[0]
        if k == "g":
            out.append(f"G {COQ_GATE[ins[1]]} {nat_list(ins[2])}")
        elif k == "comp":   # the model has no composite constructor: a composite of unitaries is its definition, inlined
            for name, qs in ins[1]:
                out.append(f"G {COQ_GATE[name]} {nat_list([ins[2][q] for q in qs])}")
        elif k == "measure":
            out.append(f"M {ins[1]} {ins[2]}")
        elif k == "reset":
            out.append(f"R {ins[1]}")
        elif k == "barrier":
            out.append(f"B {nat_list(ins[1])}")
        elif is_conditioned(ins):
            out.append("C")
        elif k == "clgate":
            out.append("K")
        else:
            raise ValueError(k)
    return Raw("[" + "; ".join(out) + "]")


def coq_pairs(pairs):
    return [(Nc(o), Qc(Fraction(p))) for o, p in pairs]


def coq_answer(ans):
    if ans[0] == "ok":
        return Res("ok", coq_pairs(ans[1]))
    return Res(ans[0])


# ----------------------------------------------------------------------------------------------
# generators
# ----------------------------------------------------------------------------------------------
def split_regs(rng, n):
    """bit layout: registers and bare bits, 1..3 groups"""
    if n == 0:
        return []
    r = rng.random()
    groups = 1 if (n == 1 or r < 0.55) else (2 if (n == 2 or r < 0.85) else 3)
    cuts = sorted(int(c) for c in rng.choice(np.arange(1, n), size=groups - 1, replace=False)) if groups > 1 else []
    sizes = [b - a for a, b in zip([0] + cuts, cuts + [n])]
    return [["b" if rng.random() < 0.2 else "r", s] for s in sizes]


def rand_gate(rng, nq, mode):
    r = rng.random()
    if mode == "toffoli" and nq >= 3 and r < 0.6:
        if r < 0.3:
            return ["g", "ccx", [int(q) for q in rng.permutation(nq)[:3]]]
        return ["g", ["h", "sx", "s"][int(rng.integers(0, 3))], [int(rng.integers(0, nq))]]
    if nq >= 3 and mode != "clifford" and r < 0.08:
        return ["g", "ccx", [int(q) for q in rng.permutation(nq)[:3]]]
    if nq >= 2 and r < 0.4:
        names = ["cx", "swap"] if mode == "basis" else G2
        return ["g", names[int(rng.integers(0, len(names)))], [int(q) for q in rng.permutation(nq)[:2]]]
    if mode == "basis":
        names = ["x", "z", "y"]
    elif rng.random() < 0.5:
        names = ["h", "h", "sx", "sxdg"]      # superposition-creating gates, so that measurements branch
    else:
        names = G1
    return ["g", names[int(rng.integers(0, len(names)))], [int(rng.integers(0, nq))]]


def rand_comp(rng, nq, mode):
    """a composite gate: 2-4 gates of the set on 1..min(nq,4) local qubits, appended on a random qubit tuple"""
    w = int(rng.integers(1, min(nq, 4) + 1))
    body = []
    for _ in range(int(rng.integers(2, 5))):
        g = rand_gate(rng, w, mode)
        body.append([g[1], g[2]])
    return ["comp", body, [int(q) for q in rng.permutation(nq)[:w]]]


def rand_prog(rng, nq, ncl, length, mode, max_nonunitary):
    """mode: 'uniform' | 'onebit' (all measurements into one clbit) | 'basis' (computational-basis gates only:
    every branch deterministic) | 'entangle' (GHZ-like prefix) | 'heavy' (mostly measure/reset) |
    'plus' (h/sx layer first: every first measurement of a qubit branches) |
    'toffoli' (h layer, then many ccx / h / sx / s: conditional probabilities other than 0, 1/2, 1) |
    'deep' (<= 3 qubits, a superposing gate before most measurements: many branches of small probability)"""
    prog = []
    nonu = 0
    onebit = int(rng.integers(0, ncl)) if ncl else 0
    if mode == "entangle" and nq >= 2:
        prog.append(["g", "h", [0]])
        for q in range(1, nq):
            if len(prog) < length:
                prog.append(["g", "cx", [int(rng.integers(0, q)), q]])
    if mode in ("plus", "toffoli"):
        for q in range(nq):
            if len(prog) < length:
                prog.append(["g", ["h", "sx", "sxdg"][int(rng.integers(0, 3))], [q]])
    while len(prog) < length:
        r = rng.random()
        w_meas = 0.7 if mode == "deep" else 0.45 if mode == "heavy" else 0.27
        w_reset = 0.2 if mode == "heavy" else 0.1
        if nonu >= max_nonunitary:
            w_meas = w_reset = 0.0
        if ncl == 0:
            w_meas = 0.0
        if r < w_meas:
            q = int(rng.integers(0, nq))
            if mode == "deep" and len(prog) + 1 < length:
                prog.append(["g", ["h", "sx", "sxdg"][int(rng.integers(0, 3))], [q]])
            c = onebit if mode == "onebit" else int(rng.integers(0, ncl))
            prog.append(["measure", q, c])
            nonu += 1
        elif r < w_meas + w_reset:
            prog.append(["reset", int(rng.integers(0, nq))])
            nonu += 1
        elif r < w_meas + w_reset + 0.08:
            m = int(rng.integers(1, nq + 1))
            prog.append(["barrier", [int(q) for q in rng.permutation(nq)[:m]]])
        elif mode != "deep" and rng.random() < 0.08:
            prog.append(rand_comp(rng, nq, mode))
        else:
            prog.append(rand_gate(rng, nq, mode))
    return prog


def rand_unitary(rng, d):
    z = rng.normal(size=(d, d)) + 1j * rng.normal(size=(d, d))
    q, r = np.linalg.qr(z)
    ph = np.diag(r) / np.abs(np.diag(r))
    return q * ph


def rand_tol_prog(rng, nq, ncl, length, params=None):
    prog = []
    nonu = 0
    while len(prog) < length:
        r = rng.random()
        if r < 0.25 and nonu < 6:
            prog.append(["measure", int(rng.integers(0, nq)), int(rng.integers(0, ncl))])
            nonu += 1
        elif r < 0.35 and nonu < 6:
            prog.append(["reset", int(rng.integers(0, nq))])
            nonu += 1
        elif r < 0.45 and nonu < 5 and params is None:
            # measure; tiny rotation; measure again: a child of conditional probability ~ e^2/4 (1e-20 .. 2e-6)
            q = int(rng.integers(0, nq))
            e = float(rng.choice([1e-10, 1e-8, 1.9e-8, 2.1e-8, 1e-7, 1e-6, 1e-5, 1e-4, 1e-3, 3e-3]))
            prog.append(["measure", q, int(rng.integers(0, ncl))])
            prog.append(["ry", e * float(rng.choice([-1, 1])), q])
            prog.append(["measure", q, int(rng.integers(0, ncl))])
            nonu += 2
        elif params is not None and r < 0.6:
            name = f"p{len(params)}_{['b', 'a', 'c'][len(params) % 3]}"   # names not in creation order
            params[name] = float(rng.uniform(-3.1, 3.1))
            prog.append([["rxp", "ryp", "rzp"][int(rng.integers(0, 3))], name, int(rng.integers(0, nq))])
        elif r < 0.55:
            # rotation by a tiny angle: the 1-child has probability ~ theta^2/4 around the cut-off 1e-16
            e = float(rng.choice([1e-10, 1e-9, 3e-9, 1e-8, 1.9e-8, 2.1e-8, 3e-8, 1e-7, 1e-6, 1e-5, 1e-4, 1e-3]))
            prog.append(["ry", e * float(rng.choice([-1, 1])), int(rng.integers(0, nq))])
        elif r < 0.8 or nq < 2:
            u = rand_unitary(rng, 2)
            prog.append(["u", [[float(z.real), float(z.imag)] for z in u.reshape(-1)], [int(rng.integers(0, nq))]])
        else:
            u = rand_unitary(rng, 4)
            prog.append(["u", [[float(z.real), float(z.imag)] for z in u.reshape(-1)],
                         [int(q) for q in rng.permutation(nq)[:2]]])
    return prog, nonu


def _umat(u):
    return [[float(z.real), float(z.imag)] for z in np.asarray(u, complex).reshape(-1)]


def rand_near_prog(rng, nq, ncl):
    """TARGETED: two (or three) branches that end under ONE classical key while carrying quantum states that are close but not
    equal.  Shape: qubit a in superposition controls a rotation of qubit b by a small angle eps about a random axis (one 4x4
    unitary); a is then disentangled WITHOUT leaving a distinguishing bit -- reset a | measure a->c, reset a, measure a->c
    (the bit is overwritten with the same value) | measure a->c, reset a, measure b'->c of a fresh qubit -- optionally twice
    (a re-superposed in between); finally b is rotated by a random unitary and measured.  The true probability of b's outcome
    depends on eps at first order, so an implementation that identifies / merges / caches branch states "up to a tolerance"
    returns a distribution that is off by ~eps/4 (eps from 1e-7 .. 3e-5 and, as controls, 0 and 0.3)."""
    qs = [int(q) for q in rng.permutation(nq)]
    a, b = qs[0], qs[1]
    spare = qs[2:]
    prog = []
    # spectators: a measured superposition on another qubit gives several keys, each with its own pair of near branches
    for q in spare:
        if rng.random() < 0.5:
            prog.append(["u", _umat(rand_unitary(rng, 2)), [q]])
            if rng.random() < 0.6:
                prog.append(["measure", q, int(rng.integers(0, ncl))])
    # b: generic state with both amplitudes of comparable size (ry(pi/2) up to a modest random tilt and a phase)
    prog.append(["ry", float(np.pi / 2 + rng.uniform(-0.5, 0.5)), b])
    if rng.random() < 0.5:
        prog.append(["g", ["s", "sx", "h", "z"][int(rng.integers(0, 4))], [b]])
    rounds = 1 if rng.random() < 0.7 else 2
    eps_used = []
    for _ in range(rounds):
        prog.append(["g", "h", [a]] if rng.random() < 0.6 else ["ry", float(rng.uniform(0.6, 2.5)), a])
        eps = float(rng.choice([1e-7, 1e-6, 3e-6, 8e-6, 1e-5, 3e-5, 0.0, 0.3])) * float(rng.choice([-1, 1]))
        eps_used.append(abs(eps))
        axis = "xyz"[int(rng.integers(0, 3))]
        p0 = np.diag([1.0, 0.0])
        p1 = np.diag([0.0, 1.0])
        cu = np.kron(np.eye(2), p0) + np.kron(_rot(axis, eps), p1)      # operand order [a, b]: a = low bit = control
        prog.append(["u", _umat(cu), [a, b]])
        how = int(rng.integers(0, 3))
        if how == 0:
            prog.append(["reset", a])
        else:
            c = int(rng.integers(0, ncl))
            prog.append(["measure", a, c])
            prog.append(["reset", a])
            touched = {q for i in prog for q in (i[2] if i[0] in ("u", "g") else [i[2]] if i[0] == "ry" else [i[1]])}
            fresh = [q for q in spare if q not in touched]
            prog.append(["measure", fresh[0] if (how == 2 and fresh) else a, c])
    if rng.random() < 0.6:
        prog.append(["u", _umat(rand_unitary(rng, 2)), [b]])
    prog.append(["measure", b, int(rng.integers(0, ncl))])
    return prog, eps_used


def features(case):
    prog = case["prog"]
    writes = [i[2] for i in prog if i[0] == "measure"]
    f = []
    if len(writes) != len(set(writes)):
        f.append("bit_overwritten")
    if case["ncl"] > len(set(writes)):
        f.append("unused_clbits")
    for name in ("reset", "barrier", "comp"):
        if any(i[0] == name for i in prog):
            f.append(name)
    if any(i[0] == "g" and i[1] == "ccx" for i in prog) or any(i[0] == "comp" and any(g[0] == "ccx" for g in i[1]) for i in prog):
        f.append("ccx")
    if any(i[0] == "comp" and len(i[2]) >= 3 for i in prog):
        f.append("composite_arity>=3")
    if any(e[0] == "b" for e in case["qregs"] + case["cregs"] if not isinstance(e, int)):
        f.append("bare_bits")
    if len(case["qregs"]) >= 3 or len(case["cregs"]) >= 3:
        f.append(">=3_bit_groups")
    seen2 = False
    for i in prog:
        if i[0] in ("g", "comp") and len(i[2]) >= 2:
            seen2 = True
        if i[0] in ("measure", "reset") and seen2:
            f.append("measure_after_multiqubit_gate")
            break
    return f


def _try_run(w, case, sampler):
    """build + run; a circuit that this Qiskit cannot even build (e.g. c_if removed) is skipped, not a crash"""
    try:
        build(case)
    except Exception as e:  # noqa: BLE001
        w.count("skipped.unbuildable", type(e).__name__)
        return False
    run_impl(case, sampler)
    return True


def generate(rng, tier, outdir):
    w = CaseWriter(outdir, IMPORTS, CASE_TYPES)
    w.SHARD = 160
    quick = tier == "quick"
    n_main = 500 if quick else 6000
    n_deep = 16 if quick else 240
    n_bad = 200 if quick else 1500
    n_tol = 160 if quick else 1500
    n_near = 48 if quick else 600
    n_multi = 60 if quick else 600
    n_multiq = 60 if quick else 800
    max_nonu = 8 if quick else 10
    modes = ["uniform", "uniform", "onebit", "basis", "entangle", "heavy", "heavy", "plus", "plus", "plus", "toffoli"]
    sampler = ExactSampler()        # ONE instance reused by every call of this run

    def clean(v):
        w.contract("judge_accepts_clean_case", not v["violates"])

    # ---------------- main stream: exactly representable circuits ----------------
    fixed = [
        dict(nq=2, ncl=1, prog=[["g", "h", [0]], ["g", "cx", [0, 1]], ["measure", 0, 0], ["measure", 1, 0]]),
        dict(nq=2, ncl=1, prog=[["g", "x", [0]], ["g", "h", [1]], ["measure", 0, 0], ["measure", 1, 0]]),
        dict(nq=1, ncl=0, prog=[]),
        dict(nq=1, ncl=3, prog=[["g", "x", [0]], ["measure", 0, 2], ["reset", 0], ["measure", 0, 0]]),
        dict(nq=1, ncl=1, prog=[["g", "h", [0]], ["measure", 0, 0]] * 5),
        dict(nq=3, ncl=5, prog=[["g", "h", [0]], ["g", "cx", [0, 1]], ["g", "cx", [1, 2]], ["measure", 2, 4], ["reset", 2],
                                ["barrier", [0, 1, 2]], ["g", "sx", [0]], ["measure", 0, 4], ["measure", 1, 1]]),
        # branches of probability 2^-10: ten h;measure rounds into five bits
        dict(nq=1, ncl=5, prog=[x for i in range(10) for x in (["g", "h", [0]], ["measure", 0, i % 5])]),
        # x; measure->c0 twice; then into c1 (same value written twice, qubit observed afterwards)
        dict(nq=1, ncl=2, prog=[["g", "x", [0]], ["measure", 0, 0], ["measure", 0, 0], ["measure", 0, 1]]),
        dict(nq=3, ncl=2, prog=[["g", "h", [0]], ["g", "h", [1]], ["g", "ccx", [1, 0, 2]], ["g", "h", [0]], ["measure", 2, 0], ["measure", 0, 1]]),
        dict(nq=4, ncl=4, prog=[["comp", [["h", [0]], ["cx", [0, 2]], ["s", [1]]], [3, 1, 0]],
                                ["measure", 0, 0], ["measure", 1, 1], ["measure", 2, 2], ["measure", 3, 3]]),
    ]
    for it in range(n_main + n_deep):
        if it < len(fixed):
            case = dict(fixed[it])
            mode = "fixed"
            case["qregs"], case["cregs"] = [["r", case["nq"]]], ([["r", case["ncl"]]] if case["ncl"] else [])
        elif it < n_main:
            nq = int(rng.integers(1, 6))
            ncl = 0 if rng.random() < 0.07 else int(rng.integers(1, 6))
            length = int(rng.integers(0, 21))
            mode = modes[int(rng.integers(0, len(modes)))]
            if mode == "toffoli":
                nq, ncl, length = int(rng.integers(3, 6)), max(ncl, 2), int(rng.integers(10, 21))
            case = dict(nq=nq, ncl=ncl, qregs=split_regs(rng, nq), cregs=split_regs(rng, ncl),
                        prog=rand_prog(rng, nq, ncl, length, mode, max_nonu))
        else:
            nq = int(rng.integers(1, 4))
            ncl = int(rng.integers(1, 6))
            mode = "deep"
            case = dict(nq=nq, ncl=ncl, qregs=split_regs(rng, nq), cregs=split_regs(rng, ncl),
                        prog=rand_prog(rng, nq, ncl, 20, mode, 10 if quick else 11))
        case["kind"] = "sim"
        if not _try_run(w, case, sampler):
            continue
        v = judge(case)
        clean(v)
        fn, sam = case["impl_fn"], case["impl_sampler"]
        lit = (case["nq"], case["ncl"], coq_prog(case["prog"]), coq_answer(fn), coq_answer(sam), not v["violates"])
        nout = len(fn[1]) if fn[0] == "ok" else 0
        nonu = sum(1 for i in case["prog"] if i[0] in ("measure", "reset"))
        w.add("sim", "chk_sim", lit, case, nontrivial=(fn[0] == "ok" and nonu > 0))
        w.count("sim.mode", mode)
        w.count("sim.nq", case["nq"])
        w.count("sim.ncl", case["ncl"])
        w.count("sim.len", len(case["prog"]))
        w.count("sim.nonunitary", nonu)
        w.count("sim.outcomes", nout if nout < 8 else (">=8" if nout < 32 else ">=32"))
        w.count("sim.fn", fn[0])
        w.count("sim.sampler", sam[0])
        w.count("sim.oracle", "violates" if v["violates"] else "agrees")
        for f in features(case):
            w.count("sim.feature", f)
        if fn[0] == "ok":
            w.count("sim.deterministic", len(fn[1]) == 1)
            keys = [o for o, _ in fn[1]]
            w.count("sim.dict_order_sorted", keys == sorted(keys))
            pmin = min(p for _, p in fn[1])
            w.count("sim.min_outcome_prob", ">=1/4" if pmin >= 0.25 else ">=2^-6" if pmin >= 2 ** -6 else ">=2^-10" if pmin >= 2 ** -10 else "<2^-10")
            w.count("sim.all_probs_in{0,1/2^k}", all(abs(np.log2(p) - round(np.log2(p))) < 1e-9 for _, p in fn[1]))
        # Qiskit base-class contract assumed by Model.sampler: refusal exactly when no clbits / no Measure
        w.contract("BaseSamplerV1.run refuses iff no clbits or no Measure (valid circuits)",
                   (sam[0] == "refused") == sampler_prevalidation_refuses(case))

    # ---------------- malformed stream: conditioned operations, clbits on gates ----------------
    bad_kinds = ["cif", "cifreg", "cifmeasure", "cifreset", "ifelse", "ifelse2", "ifexpr", "while", "switch", "clgate"]
    for it in range(n_bad):
        nq = int(rng.integers(1, 6))
        ncl = int(rng.integers(1, 6))
        length = int(rng.integers(0, 16))
        case = dict(kind="sim", nq=nq, ncl=ncl, qregs=split_regs(rng, nq), cregs=split_regs(rng, ncl),
                    prog=rand_prog(rng, nq, ncl, length, "uniform", 5))
        creg_ids = [i for i, e in enumerate(case["cregs"]) if e[0] == "r"]
        nbad = int(rng.integers(1, 3))
        kinds = []
        for _ in range(nbad):
            kind = bad_kinds[int(rng.integers(0, len(bad_kinds)))]
            if kind == "cifreg" and not creg_ids:
                kind = "cif"
            g = G1[int(rng.integers(0, len(G1)))]
            q = int(rng.integers(0, nq))
            c = int(rng.integers(0, ncl))
            val = int(rng.integers(0, 2))
            if kind == "cif":
                ins = ["cif", g, [q], c, val]
            elif kind == "cifreg":
                reg = int(rng.integers(0, len(creg_ids)))
                ins = ["cifreg", g, [q], reg, int(rng.integers(0, 1 << case["cregs"][creg_ids[reg]][1]))]
            elif kind == "cifmeasure":
                ins = ["cifmeasure", q, c, int(rng.integers(0, ncl)), val]
            elif kind == "cifreset":
                ins = ["cifreset", q, c, val]
            elif kind == "ifelse":
                ins = ["ifelse", c, val, g, [q]]
            elif kind == "ifelse2":
                ins = ["ifelse2", c, val, g, [q], G1[int(rng.integers(0, len(G1)))]]
            elif kind == "ifexpr":
                ins = ["ifexpr", c, g, [q]]
            elif kind == "while":
                ins = ["while", c, val, q]
            elif kind == "switch":
                ins = ["switch", c, g, [q]]
            else:
                k = int(rng.integers(0, min(nq, 2) + 1))
                ins = ["clgate", [int(x) for x in rng.permutation(nq)[:k]],
                       [int(x) for x in rng.permutation(ncl)[: int(rng.integers(1, min(ncl, 2) + 1))]]]
            pos = int(rng.integers(0, len(case["prog"]) + 1))
            case["prog"].insert(pos, ins)
            kinds.append(kind)
        if not _try_run(w, case, sampler):
            continue
        v = judge(case)
        clean(v)
        fn, sam = case["impl_fn"], case["impl_sampler"]
        lit = (nq, ncl, coq_prog(case["prog"]), coq_answer(fn), coq_answer(sam), not v["violates"])
        w.add("malformed", "chk_sim", lit, case, nontrivial=True)
        for k in kinds:
            w.count("malformed.kind", k)
        w.count("malformed.fn", fn[0])
        w.count("malformed.sampler", sam[0])
        first_bad = min(i for i, x in enumerate(case["prog"]) if is_conditioned(x) or x[0] == "clgate")
        w.count("malformed.nonunitary_before_bad", sum(1 for x in case["prog"][:first_bad] if x[0] in ("measure", "reset")))

    # ---------------- tolerance stream: arbitrary unitaries, tiny branches; judged by the oracle only ----------------
    for it in range(n_tol):
        nq = int(rng.integers(1, 5))
        ncl = int(rng.integers(1, 6))
        prog, nonu = rand_tol_prog(rng, nq, ncl, int(rng.integers(1, 15)))
        case = dict(kind="tol", nq=nq, ncl=ncl, qregs=split_regs(rng, nq), cregs=split_regs(rng, ncl), prog=prog)
        if not _try_run(w, case, sampler):
            continue
        v = judge(case)
        clean(v)
        truth = true_distribution(case)
        fn, sam = case["impl_fn"], case["impl_sampler"]
        legit = sam[0] == "refused" and sampler_prevalidation_refuses(case)
        lit = (coq_answer(fn), Opt(coq_answer(sam), some=not legit), coq_pairs(sorted(truth.items())))
        w.add("tolerance", "chk_dist", lit, case, nontrivial=nonu > 0)
        w.count("tol.nonunitary", nonu)
        w.count("tol.fn", fn[0])
        w.count("tol.sampler", sam[0])
        if fn[0] == "ok":
            s = sum(p for _, p in fn[1])
            w.count("tol.mass_deficit", "0" if s == 1 else ("<=1e-15" if abs(s - 1) <= 1e-15 else "<=1e-12" if abs(s - 1) <= 1e-12 else ">1e-12"))
            w.count("tol.keys_dropped_vs_oracle", len([o for o in truth if o not in dict(map(tuple, fn[1]))]))
            small = [p for p in truth.values() if 1e-16 < p < 1e-6]
            w.count("tol.has_outcome_prob_in(1e-16,1e-6)", bool(small))

    # ---------------- near-coincident branches (TARGETED): branches sharing one key with close, unequal states ----------------
    for it in range(n_near):
        nq = int(rng.integers(2, 6))
        ncl = int(rng.integers(1, 4))
        prog, eps_used = rand_near_prog(rng, nq, ncl)
        case = dict(kind="tol", nq=nq, ncl=ncl, qregs=split_regs(rng, nq), cregs=split_regs(rng, ncl), prog=prog)
        assert len(prog) <= 20
        if not _try_run(w, case, sampler):
            continue
        v = judge(case)
        clean(v)
        truth = true_distribution(case)
        fn, sam = case["impl_fn"], case["impl_sampler"]
        lit = (coq_answer(fn), Opt(coq_answer(sam), some=True), coq_pairs(sorted(truth.items())))
        w.add("nearbranch", "chk_dist", lit, case, nontrivial=True)
        w.count("near.fn", fn[0])
        w.count("near.sampler", sam[0])
        w.count("near.oracle", "violates" if v["violates"] else "agrees")
        w.count("near.rounds", len(eps_used))
        w.count("near.has_eps_in[1e-7,3e-5]", any(1e-7 <= e <= 3e-5 for e in eps_used))
        w.count("near.merge", "reset_only" if not any(i[0] == "measure" and j + 1 < len(prog) and prog[j + 1][0] == "reset"
                                                     for j, i in enumerate(prog)) else "measure_reset_overwrite")

    # ---------------- sampler stream: several circuits / parameter_values / the reused instance ----------------
    for it in range(n_multi):
        ncirc = int(rng.integers(2, 4))
        subs = []
        for j in range(ncirc):
            nq = int(rng.integers(1, 4))
            ncl = int(rng.integers(1, 4))
            params = {} if rng.random() < 0.75 else None
            prog, _ = rand_tol_prog(rng, nq, ncl, int(rng.integers(1, 9)), params)
            prog.append(["measure", int(rng.integers(0, nq)), int(rng.integers(0, ncl))])   # V1 validation needs a Measure
            if params is not None and len(params) < 2:
                # at least two parameters on measured qubits, so that permuted parameter_values show
                for extra in range(2 - len(params)):
                    name = f"z{extra}_{'ba'[extra]}"
                    params[name] = float(rng.uniform(0.3, 2.8))
                    q = int(rng.integers(0, nq))
                    prog[0:0] = [["rxp", name, q]]
                    prog.append(["measure", q, int(rng.integers(0, ncl))])
            subs.append(dict(kind="tol", nq=nq, ncl=ncl, qregs=split_regs(rng, nq), cregs=split_regs(rng, ncl),
                             prog=prog, params=params or {}))
        case = dict(kind="multi", circuits=subs)
        try:
            for sub in subs:
                build(sub)
        except Exception as e:  # noqa: BLE001
            w.count("skipped.unbuildable", type(e).__name__)
            continue
        run_impl(case, sampler)
        v = judge(case)
        clean(v)
        ans = case["impl_multi"]
        lit = (Res("ok", [coq_pairs(d) for d in ans[1]]) if ans[0] == "ok" else Res(ans[0]),
               [coq_pairs(sorted(true_distribution(sub).items())) for sub in subs])
        w.add("sampler", "chk_multi", lit, case, nontrivial=True)
        w.count("multi.circuits", ncirc)
        w.count("multi.parametrised_circuits", sum(1 for s in subs if s["params"]))
        w.count("multi.answer", ans[0])

    # ---------------- sampler stream, exact gate set: the model's sampler_run evaluated in Coq; second call after
    #                  extending the same circuit objects in place on the same sampler instance ----------------
    for it in range(n_multiq):
        ncirc = int(rng.integers(1, 4))
        subs = []
        flavour = int(rng.integers(0, 10))     # 0-1: one circuit without Measure; 2-3: one circuit with a c_if; else all valid
        for j in range(ncirc):
            nq = int(rng.integers(1, 5))
            ncl = int(rng.integers(1, 5))
            mode = modes[int(rng.integers(0, len(modes)))]
            if mode == "toffoli":
                mode = "plus"
            prog = rand_prog(rng, nq, ncl, int(rng.integers(0, 12)), mode, 5)
            appended = 0
            if flavour <= 1 and j == ncirc - 1:               # the last circuit has no Measure -> the whole call is refused
                prog = [i for i in prog if i[0] != "measure"]
            else:
                tail = [["g", G1[int(rng.integers(0, len(G1)))], [int(rng.integers(0, nq))]],
                        ["measure", int(rng.integers(0, nq)), int(rng.integers(0, ncl))]]
                prog += tail
                if rng.random() < 0.5 and any(i[0] == "measure" for i in prog[:-2]):
                    appended = 2                              # these two arrive only after the first run
            if 2 <= flavour <= 3 and j == 0:
                prog.insert(int(rng.integers(0, len(prog) + 1)), ["cif", "x", [0], 0, 1])
            subs.append(dict(kind="sim", nq=nq, ncl=ncl, qregs=split_regs(rng, nq), cregs=split_regs(rng, ncl),
                             prog=prog, params={}, appended=appended))
        case = dict(kind="multi", circuits=subs)
        try:
            for sub in subs:
                build(sub)
        except Exception as e:  # noqa: BLE001
            w.count("skipped.unbuildable", type(e).__name__)
            continue
        run_impl(case, sampler)
        v = judge(case)
        clean(v)
        ans = case["impl_multi"]
        lit = ([(sub["nq"], sub["ncl"], coq_prog(sub["prog"])) for sub in subs],
               Res("ok", [coq_pairs(d) for d in ans[1]]) if ans[0] == "ok" else Res(ans[0]), not v["violates"])
        w.add("samplerq", "chk_multiq", lit, case, nontrivial=True)
        w.count("multiq.circuits", ncirc)
        w.count("multiq.answer", ans[0])
        w.count("multiq.second_call_after_inplace_extension", any(sub["appended"] for sub in subs))

    return w.finish(
        rule="sim: random circuits on 1..5 qubits, 0..5 clbits (1-3 registers / bare bits each), 0..20 instructions over "
        "{x,y,z,h,s,sdg,sx,sxdg,cx,cz,swap,ccx, composite gates (to_gate) of these, measure,reset,barrier} in modes uniform / all "
        "measurements into one bit / computational-basis only (deterministic branches) / GHZ prefix (entangled measurements) / "
        "measure-reset heavy / h-sx layer first / toffoli-rich / deep (<=3 qubits, up to 10-12 branching measurements), plus fixed seeds; both "
        "simulate_statevector_outcomes and ExactSampler (one reused instance) are recorded; the Coq checker evaluates the model "
        "instantiated with QSim (exact Q(sqrt2)(i) amplitudes), compares as finite maps (key sets exactly, no duplicate keys, "
        "probabilities within 1e-12), audits that every measured QSim probability is an exact rational, and requires the harness's "
        "density-matrix oracle to agree. malformed: the same with 1-2 conditioned operations (c_if on bit/register, conditioned "
        "measure/reset, if_test with/without else, expr condition, while_loop, switch) or opaque instructions holding clbits inserted "
        "anywhere; expected Refused. tolerance: arbitrary 1-2 qubit unitaries and tiny rotations around the 1e-16 cut-off; function "
        "and sampler compared (in Coq, as maps, 1e-9) with the density-matrix oracle only. nearbranch (targeted): a superposed qubit "
        "controls a rotation of another qubit by eps in {0, 1e-7 .. 3e-5, 0.3} about a random axis and is then disentangled without a "
        "distinguishing bit (reset | measure, reset, re-measure into the same bit), once or twice, so that branches under ONE key carry "
        "close but unequal states; the rotated qubit is then measured (true law depends on eps at first order); same comparison as "
        "tolerance. sampler: one run over 2-3 circuits with "
        "parametrised rotations and parameter_values; quasi_dists[i] vs the oracle of the i-th bound circuit. samplerq: one run over "
        "1-3 exact-gate-set circuits (sometimes one without Measure / with a c_if: whole call refused), in half of the cases as a SECOND "
        "run after the same circuit objects were extended in place on the same sampler; compared in Coq with Model.sampler_run on QSim. "
        "distinct = distinct Coq case literal; non-trivial = at least one measure/reset and an answer"
    )

"""C13 correspondence: utils/simulation.py simulate_statevector_outcomes / ExactSampler
vs  Model/Sim.v instantiated with the exact simulator Common/QSim.v (evaluated inside Coq),
and vs an independent numpy density-matrix branch simulator (judge / oracle).

JSON case:
  kind   : "sim" | "tol"
  nq, ncl, qregs, cregs        circuit shape (register sizes; indices in `prog` are global bit indices)
  prog   : list of
            ["g", name, [qubits]]            gate of the exactly representable set
            ["measure", q, c] ["reset", q] ["barrier", [qubits]]
            ["u", [[re, im] ...] row-major, [qubits]]   arbitrary unitary (tol stream)
            ["ry", theta, q]                            (tol stream)
            ["cif", name, [qubits], c, val]             gate.c_if(clbit c, val)
            ["cifreg", name, [qubits], reg, val]        gate.c_if(classical register, val)
            ["cifmeasure", q, c, c2, val]               measure(q, c).c_if(clbit c2, val)
            ["ifelse", c, val, name, [qubits]]          with qc.if_test((clbit c, val)): gate
            ["clgate", [qubits], [clbits]]              opaque Instruction holding clbits
  impl_fn, impl_sampler : ["ok", [[outcome, float] ...] in dict order] | ["refused", msg] | ["crashed", msg]
"""
from __future__ import annotations

from fractions import Fraction

import numpy as np
from qiskit.circuit import QuantumCircuit, QuantumRegister, ClassicalRegister, Instruction
from qiskit.circuit.library import UnitaryGate

from qiskit_addon_cutting.utils.simulation import simulate_statevector_outcomes, ExactSampler

from common import CaseWriter, Res, Raw, Nc, Qc, call_canon, coq

IMPORTS = ("From Coq Require Import QArith.\nFrom CKT Require Import Common.Base Common.QSim Model.Sim Corr.C13Corr.\n"
           "Close Scope Q_scope.")
CASE_TYPES = {"chk_sim": "sim_case", "chk_dist": "res (list (N * Q)) * list (N * Q)"}

G1 = ["x", "y", "z", "h", "s", "sdg", "sx", "sxdg"]
G2 = ["cx", "cz", "swap"]
COQ_GATE = {g: "G" + g for g in G1 + G2}


# ----------------------------------------------------------------------------------------------
# circuit construction from the JSON program
# ----------------------------------------------------------------------------------------------
def build(case) -> QuantumCircuit:
    regs = [QuantumRegister(s, f"q{i}") for i, s in enumerate(case["qregs"])]
    cregs = [ClassicalRegister(s, f"c{i}") for i, s in enumerate(case["cregs"])]
    qc = QuantumCircuit(*regs, *cregs)
    assert qc.num_qubits == case["nq"] and qc.num_clbits == case["ncl"]
    for ins in case["prog"]:
        k = ins[0]
        if k == "g":
            getattr(qc, ins[1])(*ins[2])
        elif k == "measure":
            qc.measure(ins[1], ins[2])
        elif k == "reset":
            qc.reset(ins[1])
        elif k == "barrier":
            qc.barrier(*ins[1])
        elif k == "u":
            m = np.array([complex(a, b) for a, b in ins[1]])
            d = int(round(np.sqrt(len(m))))
            qc.append(UnitaryGate(m.reshape(d, d), check_input=False), ins[2])
        elif k == "ry":
            qc.ry(ins[1], ins[2])
        elif k == "cif":
            getattr(qc, ins[1])(*ins[2]).c_if(qc.clbits[ins[3]], ins[4])
        elif k == "cifreg":
            getattr(qc, ins[1])(*ins[2]).c_if(cregs[ins[3]], ins[4])
        elif k == "cifmeasure":
            qc.measure(ins[1], ins[2]).c_if(qc.clbits[ins[3]], ins[4])
        elif k == "ifelse":
            with qc.if_test((qc.clbits[ins[1]], ins[2])):
                getattr(qc, ins[3])(*ins[4])
        elif k == "clgate":
            qc.append(Instruction("foo", len(ins[1]), len(ins[2]), []), ins[1], ins[2])
        else:
            raise ValueError(k)
    return qc


def run_impl(case):
    qc = build(case)
    r = call_canon(simulate_statevector_outcomes, qc)
    fn = ["ok", [[int(k), float(v)] for k, v in r[1].items()]] if r[0] == "ok" else [r[0], r[1]]
    qc2 = build(case)
    r2 = call_canon(lambda: ExactSampler().run([qc2]).result().quasi_dists[0])
    sam = ["ok", [[int(k), float(v)] for k, v in r2[1].items()]] if r2[0] == "ok" else [r2[0], r2[1]]
    case["impl_fn"] = fn
    case["impl_sampler"] = sam
    return case


# ----------------------------------------------------------------------------------------------
# independent oracle: density-matrix branch simulator (dict clbit-outcome -> unnormalised rho)
# ----------------------------------------------------------------------------------------------
_S2 = 1 / np.sqrt(2)
_M1 = {
    "x": np.array([[0, 1], [1, 0]], complex),
    "y": np.array([[0, -1j], [1j, 0]], complex),
    "z": np.array([[1, 0], [0, -1]], complex),
    "h": np.array([[_S2, _S2], [_S2, -_S2]], complex),
    "s": np.array([[1, 0], [0, 1j]], complex),
    "sdg": np.array([[1, 0], [0, -1j]], complex),
    "sx": 0.5 * np.array([[1 + 1j, 1 - 1j], [1 - 1j, 1 + 1j]]),
    "sxdg": 0.5 * np.array([[1 - 1j, 1 + 1j], [1 + 1j, 1 - 1j]]),
}


def _m2(name):
    m = np.zeros((4, 4), complex)
    for i in range(4):
        a, b = i & 1, (i >> 1) & 1  # a = first qubit argument, b = second
        if name == "cx":  # a control, b target
            m[a | ((b ^ a) << 1), i] = 1
        elif name == "cz":
            m[i, i] = -1 if (a and b) else 1
        elif name == "swap":
            m[b | (a << 1), i] = 1
    return m


def _full(u, qs, n):
    dim = 1 << n
    f = np.zeros((dim, dim), complex)
    mask = sum(1 << q for q in qs)
    for col in range(dim):
        sub_in = sum(((col >> q) & 1) << j for j, q in enumerate(qs))
        rest = col & ~mask
        for sub_out in range(1 << len(qs)):
            row = rest | sum(((sub_out >> j) & 1) << q for j, q in enumerate(qs))
            f[row, col] = u[sub_out, sub_in]
    return f


def is_conditioned(ins):
    return ins[0] in ("cif", "cifreg", "cifmeasure", "ifelse")


def true_distribution(case):
    """dict outcome -> probability, by evolving one unnormalised density matrix per classical outcome."""
    n = case["nq"]
    dim = 1 << n
    rho0 = np.zeros((dim, dim), complex)
    rho0[0, 0] = 1
    cur = {0: rho0}
    for ins in case["prog"]:
        k = ins[0]
        if k == "barrier":
            continue
        if k in ("g", "u", "ry"):
            if k == "g":
                u = _M1[ins[1]] if ins[1] in _M1 else _m2(ins[1])
                qs = ins[2]
            elif k == "u":
                v = np.array([complex(a, b) for a, b in ins[1]])
                d = int(round(np.sqrt(len(v))))
                u, qs = v.reshape(d, d), ins[2]
            else:
                t = ins[1] / 2
                u, qs = np.array([[np.cos(t), -np.sin(t)], [np.sin(t), np.cos(t)]], complex), [ins[2]]
            f = _full(u, qs, n)
            cur = {o: f @ r @ f.conj().T for o, r in cur.items()}
            continue
        if k in ("measure", "reset"):
            q = ins[1]
            p0 = np.diag([0.0 if (i >> q) & 1 else 1.0 for i in range(dim)]).astype(complex)
            p1 = np.eye(dim) - p0
            nxt = {}
            for o, r in cur.items():
                r0 = p0 @ r @ p0
                r1 = p1 @ r @ p1
                if k == "measure":
                    c = ins[2]
                    o0, o1 = o & ~(1 << c), o | (1 << c)
                else:
                    fx = _full(_M1["x"], [q], n)
                    r1 = fx @ r1 @ fx.conj().T
                    o0 = o1 = o
                nxt[o0] = nxt.get(o0, 0) + r0
                nxt[o1] = nxt.get(o1, 0) + r1
            cur = nxt
            continue
        raise ValueError(f"oracle: instruction {k} outside the property's domain")
    return {o: float(np.real(np.trace(r))) for o, r in cur.items()}


def _judge_answer(ans, truth, who):
    if ans[0] != "ok":
        return f"{who}: valid circuit not answered ({ans[0]}: {ans[1]})"
    got = {}
    for o, p in ans[1]:
        if o in got:
            return f"{who}: duplicate outcome {o}"
        got[o] = p
    for o in set(got) | set(truth):
        if abs(got.get(o, 0.0) - truth.get(o, 0.0)) > 1e-9:
            return f"{who}: outcome {o}: returned {got.get(o, 0.0)!r}, true {truth.get(o, 0.0)!r}"
    s = sum(got.values())
    if abs(s - 1) > 1e-9:
        return f"{who}: probabilities sum to {s!r}"
    return None


def judge(case):
    prog = case["prog"]
    fn, sam = case["impl_fn"], case["impl_sampler"]
    if any(is_conditioned(i) for i in prog):
        bad = [w for w, a in (("simulate_statevector_outcomes", fn), ("ExactSampler", sam)) if a[0] == "ok"]
        return dict(violates=bool(bad), detail=("conditioned circuit answered by " + ", ".join(bad)) if bad
                    else f"conditioned circuit not answered ({fn[0]}/{sam[0]})")
    if any(i[0] == "clgate" for i in prog):
        return dict(violates=False, detail=f"operation with a classical bit: outside the property's domain (got {fn[0]}/{sam[0]})")
    truth = true_distribution(case)
    d = _judge_answer(fn, truth, "simulate_statevector_outcomes")
    if d is None:
        has_measure = any(i[0] == "measure" for i in prog)
        if sam[0] == "refused" and (case["ncl"] == 0 or not has_measure):
            # BaseSamplerV1.run (Qiskit) rejects circuits without classical bits / without a Measure before
            # ExactSampler._call is reached; the repository code is not involved.
            d = None
        else:
            d = _judge_answer(sam, truth, "ExactSampler")
    return dict(violates=d is not None, detail=d or "matches the density-matrix oracle")


def rerun(case):
    return run_impl(case)


# ----------------------------------------------------------------------------------------------
# Coq literals
# ----------------------------------------------------------------------------------------------
def nat_list(l):
    return "[" + "; ".join(str(int(x)) for x in l) + "]"


def coq_prog(prog):
    out = []
    for ins in prog:
        k = ins[0]
        if k == "g":
            out.append(f"G {COQ_GATE[ins[1]]} {nat_list(ins[2])}")
        elif k == "measure":
            out.append(f"M {ins[1]} {ins[2]}")
        elif k == "reset":
            out.append(f"R {ins[1]}")
        elif k == "barrier":
            out.append(f"B {nat_list(ins[1])}")
        elif is_conditioned(ins):
            out.append("C")
        elif k == "clgate":
            out.append("K")
        else:
            raise ValueError(k)
    return Raw("[" + "; ".join(out) + "]")


def coq_answer(ans):
    if ans[0] == "ok":
        return Res("ok", [(Nc(o), Qc(Fraction(p))) for o, p in ans[1]])
    return Res(ans[0])


# ----------------------------------------------------------------------------------------------
# generators
# ----------------------------------------------------------------------------------------------
def split_regs(rng, n):
    if n >= 2 and rng.integers(0, 3) == 0:
        a = int(rng.integers(1, n))
        return [a, n - a]
    return [n] if n > 0 else []


def rand_prog(rng, nq, ncl, length, mode, max_nonunitary):
    """mode: 'uniform' | 'onebit' (all measurements into one clbit) | 'basis' (computational-basis gates only:
    every branch deterministic) | 'entangle' (GHZ-like prefix) | 'heavy' (mostly measure/reset) |
    'plus' (h/sx layer first: every first measurement of a qubit branches)"""
    prog = []
    nonu = 0
    onebit = int(rng.integers(0, ncl)) if ncl else 0
    if mode == "entangle" and nq >= 2:
        prog.append(["g", "h", [0]])
        for q in range(1, nq):
            if len(prog) < length:
                prog.append(["g", "cx", [int(rng.integers(0, q)), q]])
    if mode == "plus":
        for q in range(nq):
            if len(prog) < length:
                prog.append(["g", ["h", "sx", "sxdg"][int(rng.integers(0, 3))], [q]])
    while len(prog) < length:
        r = rng.random()
        w_meas = 0.45 if mode == "heavy" else 0.27
        w_reset = 0.2 if mode == "heavy" else 0.1
        if nonu >= max_nonunitary:
            w_meas = w_reset = 0.0
        if ncl == 0:
            w_meas = 0.0
        if r < w_meas:
            c = onebit if mode == "onebit" else int(rng.integers(0, ncl))
            prog.append(["measure", int(rng.integers(0, nq)), c])
            nonu += 1
        elif r < w_meas + w_reset:
            prog.append(["reset", int(rng.integers(0, nq))])
            nonu += 1
        elif r < w_meas + w_reset + 0.08:
            m = int(rng.integers(1, nq + 1))
            prog.append(["barrier", [int(q) for q in rng.permutation(nq)[:m]]])
        elif nq >= 2 and rng.random() < 0.35:
            names = ["cx", "swap"] if mode == "basis" else G2
            a, b = (int(q) for q in rng.permutation(nq)[:2])
            prog.append(["g", names[int(rng.integers(0, len(names)))], [a, b]])
        else:
            if mode == "basis":
                names = ["x", "z", "y"]
            elif rng.random() < 0.5:
                names = ["h", "h", "sx", "sxdg"]      # superposition-creating gates, so that measurements branch
            else:
                names = G1
            prog.append(["g", names[int(rng.integers(0, len(names)))], [int(rng.integers(0, nq))]])
    return prog


def rand_unitary(rng, d):
    z = rng.normal(size=(d, d)) + 1j * rng.normal(size=(d, d))
    q, r = np.linalg.qr(z)
    ph = np.diag(r) / np.abs(np.diag(r))
    return q * ph


def features(case):
    prog = case["prog"]
    writes = [i[2] for i in prog if i[0] == "measure"]
    f = []
    if len(writes) != len(set(writes)):
        f.append("bit_overwritten")
    if case["ncl"] > len(set(writes)):
        f.append("unused_clbits")
    if any(i[0] == "reset" for i in prog):
        f.append("reset")
    if any(i[0] == "barrier" for i in prog):
        f.append("barrier")
    seen2 = False
    for i in prog:
        if i[0] == "g" and len(i[2]) == 2:
            seen2 = True
        if i[0] in ("measure", "reset") and seen2:
            f.append("measure_after_2q_gate")
            break
    return f


def generate(rng, tier, outdir):
    w = CaseWriter(outdir, IMPORTS, CASE_TYPES)
    w.SHARD = 200
    quick = tier == "quick"
    n_main = 560 if quick else 6000
    n_bad = 160 if quick else 1500
    n_tol = 160 if quick else 1500
    max_nonu = 7 if quick else 10
    modes = ["uniform", "uniform", "onebit", "basis", "entangle", "heavy", "plus", "plus"]

    # ---------------- main stream: exactly representable circuits ----------------
    fixed = [
        dict(nq=2, ncl=1, prog=[["g", "h", [0]], ["g", "cx", [0, 1]], ["measure", 0, 0], ["measure", 1, 0]]),
        dict(nq=2, ncl=1, prog=[["g", "x", [0]], ["g", "h", [1]], ["measure", 0, 0], ["measure", 1, 0]]),
        dict(nq=1, ncl=0, prog=[]),
        dict(nq=1, ncl=3, prog=[["g", "x", [0]], ["measure", 0, 2], ["reset", 0], ["measure", 0, 0]]),
        dict(nq=1, ncl=1, prog=[["g", "h", [0]], ["measure", 0, 0]] * 5),
        dict(nq=3, ncl=5, prog=[["g", "h", [0]], ["g", "cx", [0, 1]], ["g", "cx", [1, 2]], ["measure", 2, 4], ["reset", 2],
                                ["barrier", [0, 1, 2]], ["g", "sx", [0]], ["measure", 0, 4], ["measure", 1, 1]]),
    ]
    for it in range(n_main):
        if it < len(fixed):
            case = dict(fixed[it])
            mode = "fixed"
            case["qregs"], case["cregs"] = [case["nq"]], ([case["ncl"]] if case["ncl"] else [])
        else:
            nq = int(rng.integers(1, 6))
            ncl = 0 if rng.random() < 0.07 else int(rng.integers(1, 6))
            length = int(rng.integers(0, 21))
            mode = modes[int(rng.integers(0, len(modes)))]
            case = dict(nq=nq, ncl=ncl, qregs=split_regs(rng, nq), cregs=split_regs(rng, ncl),
                        prog=rand_prog(rng, nq, ncl, length, mode, max_nonu))
        case["kind"] = "sim"
        run_impl(case)
        v = judge(case)
        fn, sam = case["impl_fn"], case["impl_sampler"]
        lit = (case["nq"], case["ncl"], coq_prog(case["prog"]), coq_answer(fn), coq_answer(sam), not v["violates"])
        nout = len(fn[1]) if fn[0] == "ok" else 0
        nonu = sum(1 for i in case["prog"] if i[0] in ("measure", "reset"))
        w.add("sim", "chk_sim", lit, case, nontrivial=(fn[0] == "ok" and nonu > 0))
        w.count("sim.mode", mode)
        w.count("sim.nq", case["nq"])
        w.count("sim.ncl", case["ncl"])
        w.count("sim.len", len(case["prog"]))
        w.count("sim.nonunitary", nonu)
        w.count("sim.outcomes", nout)
        w.count("sim.fn", fn[0])
        w.count("sim.sampler", sam[0])
        w.count("sim.oracle", "violates" if v["violates"] else "agrees")
        for f in features(case):
            w.count("sim.feature", f)
        if fn[0] == "ok":
            w.count("sim.deterministic", len(fn[1]) == 1)
            keys = [o for o, _ in fn[1]]
            w.count("sim.dict_order_sorted", keys == sorted(keys))
        # Qiskit base-class contract assumed by Model.sampler: refusal exactly when no clbits / no Measure
        has_measure = any(i[0] == "measure" for i in case["prog"])
        w.contract("BaseSamplerV1.run refuses iff no clbits or no Measure (valid circuits)",
                   (sam[0] == "refused") == (case["ncl"] == 0 or not has_measure))

    # ---------------- malformed stream: conditioned operations, clbits on gates ----------------
    for it in range(n_bad):
        nq = int(rng.integers(1, 6))
        ncl = int(rng.integers(1, 6))
        length = int(rng.integers(0, 16))
        case = dict(kind="sim", nq=nq, ncl=ncl, qregs=split_regs(rng, nq), cregs=split_regs(rng, ncl),
                    prog=rand_prog(rng, nq, ncl, length, "uniform", 5))
        nbad = int(rng.integers(1, 3))
        kinds = []
        for _ in range(nbad):
            kind = ["cif", "cifreg", "cifmeasure", "ifelse", "clgate"][int(rng.integers(0, 5))]
            g = G1[int(rng.integers(0, len(G1)))]
            q = int(rng.integers(0, nq))
            c = int(rng.integers(0, ncl))
            if kind == "cif":
                ins = ["cif", g, [q], c, int(rng.integers(0, 2))]
            elif kind == "cifreg":
                reg = int(rng.integers(0, len(case["cregs"])))
                ins = ["cifreg", g, [q], reg, int(rng.integers(0, 1 << case["cregs"][reg]))]
            elif kind == "cifmeasure":
                ins = ["cifmeasure", q, c, int(rng.integers(0, ncl)), int(rng.integers(0, 2))]
            elif kind == "ifelse":
                ins = ["ifelse", c, int(rng.integers(0, 2)), g, [q]]
            else:
                k = int(rng.integers(0, min(nq, 2) + 1))
                ins = ["clgate", [int(x) for x in rng.permutation(nq)[:k]],
                       [int(x) for x in rng.permutation(ncl)[: int(rng.integers(1, min(ncl, 2) + 1))]]]
            pos = int(rng.integers(0, len(case["prog"]) + 1))
            case["prog"].insert(pos, ins)
            kinds.append(kind)
        run_impl(case)
        v = judge(case)
        fn, sam = case["impl_fn"], case["impl_sampler"]
        lit = (nq, ncl, coq_prog(case["prog"]), coq_answer(fn), coq_answer(sam), not v["violates"])
        w.add("malformed", "chk_sim", lit, case, nontrivial=True)
        for k in kinds:
            w.count("malformed.kind", k)
        w.count("malformed.fn", fn[0])
        w.count("malformed.sampler", sam[0])
        first_bad = min(i for i, x in enumerate(case["prog"]) if is_conditioned(x) or x[0] == "clgate")
        w.count("malformed.nonunitary_before_bad", sum(1 for x in case["prog"][:first_bad] if x[0] in ("measure", "reset")))

    # ---------------- tolerance stream: arbitrary unitaries, tiny branches; judged by the oracle only ----------------
    for it in range(n_tol):
        nq = int(rng.integers(1, 5))
        ncl = int(rng.integers(1, 6))
        length = int(rng.integers(1, 15))
        prog = []
        nonu = 0
        while len(prog) < length:
            r = rng.random()
            if r < 0.25 and nonu < 6:
                prog.append(["measure", int(rng.integers(0, nq)), int(rng.integers(0, ncl))])
                nonu += 1
            elif r < 0.35 and nonu < 6:
                prog.append(["reset", int(rng.integers(0, nq))])
                nonu += 1
            elif r < 0.55:
                # rotation by a tiny angle: the 1-child has probability ~ theta^2/4 around the cut-off 1e-16
                e = float(rng.choice([1e-10, 1e-9, 3e-9, 1e-8, 1.9e-8, 2.1e-8, 3e-8, 1e-7, 1e-6, 1e-4]))
                prog.append(["ry", e * float(rng.choice([-1, 1])), int(rng.integers(0, nq))])
            elif r < 0.8 or nq < 2:
                u = rand_unitary(rng, 2)
                prog.append(["u", [[float(z.real), float(z.imag)] for z in u.reshape(-1)], [int(rng.integers(0, nq))]])
            else:
                u = rand_unitary(rng, 4)
                prog.append(["u", [[float(z.real), float(z.imag)] for z in u.reshape(-1)],
                             [int(q) for q in rng.permutation(nq)[:2]]])
        case = dict(kind="tol", nq=nq, ncl=ncl, qregs=[nq], cregs=[ncl], prog=prog)
        run_impl(case)
        truth = true_distribution(case)
        fn = case["impl_fn"]
        lit = (coq_answer(fn), [(Nc(o), Qc(Fraction(p))) for o, p in sorted(truth.items())])
        w.add("tolerance", "chk_dist", lit, case, nontrivial=nonu > 0)
        w.count("tol.nonunitary", nonu)
        w.count("tol.fn", fn[0])
        if fn[0] == "ok":
            s = sum(p for _, p in fn[1])
            w.count("tol.mass_deficit", "0" if s == 1 else ("<=1e-15" if abs(s - 1) <= 1e-15 else "<=1e-12" if abs(s - 1) <= 1e-12 else ">1e-12"))
            w.count("tol.keys_dropped_vs_oracle", len([o for o in truth if o not in dict(map(tuple, fn[1]))]))

    return w.finish(
        rule="sim: random circuits on 1..5 qubits, 0..5 clbits (1-2 registers each), 0..20 instructions over "
        "{x,y,z,h,s,sdg,sx,sxdg,cx,cz,swap,measure,reset,barrier} in modes uniform / all measurements into one bit / "
        "computational-basis only (deterministic branches) / GHZ prefix (entangled measurements) / measure-reset heavy / h-sx layer first, plus "
        "fixed seeds; both simulate_statevector_outcomes and ExactSampler are recorded; the Coq checker evaluates the model "
        "instantiated with QSim (exact Q(sqrt2)(i) amplitudes), compares keys in dict order exactly and probabilities within 1e-12, "
        "audits that every measured QSim probability is an exact rational, and requires the harness's density-matrix oracle to agree. "
        "malformed: the same with 1-2 conditioned operations (c_if on bit/register, conditioned measure, if_test) or opaque "
        "instructions holding clbits inserted anywhere; expected Refused. tolerance: arbitrary 1-2 qubit unitaries and tiny "
        "rotations around the 1e-16 cut-off; implementation compared (in Coq, as maps, 1e-9) with the density-matrix oracle only. "
        "distinct = distinct Coq case literal; non-trivial = at least one measure/reset and an answer"
    )

"""C11 correspondence: most_general_observable, CommutingObservableGroup.__post_init__, ObservableCollection,
_append_measurement_register, _append_measurement_circuit, _process_outcome  vs  Model/Grouping.v, Model/Measurement.v.

Streams (group -> Coq checker):
  mgo        chk_mgo          most_general_observable directly (valid groups, incompatible, wrong length, empty, num_qubits)
  cog        chk_cog          CommutingObservableGroup(general, members) directly (phases, short/long members)
  collection chk_collection   ObservableCollection on Pauli lists (PauliList / list / tuple / generator / set inputs);
                              unique()/group_commuting() results are recorded from the actual call and passed to the model as
                              its oracle; their contract is monitored
  meas_reg   chk_meas_reg     _append_measurement_register (group re-read after the call; input circuit untouched / same object)
  meas_circ  chk_meas_circ    _append_measurement_circuit (qubit_locations omitted / list / tuple / range / numpy; two quantum
                              registers, barriers; three refusal classes, crashes; group re-read after the call)
  reuse      chk_reuse        use then re-inspect: a group (incl. all-identity ones, and groups taken out of an ObservableCollection)
                              is used for a register, a measurement circuit and _process_outcome (int and str outcomes up to
                              2^16), several times, and re-read after every step
  physics    chk_physics      random entangled preparation (some ending in resets) + the appended suffix, simulated by the numpy
                              code below; the model's masks/decoding must reproduce the reference expectation values
  e2e        chk_e2e          collection -> every group -> implementation's suffix -> own-simulator law -> implementation's
                              _process_outcome on every word -> lookup -> expectation of every ORIGINAL observable
  gce        chk_e2e          uncut preparation circuits WITH RESETS (doubled/tripled, mid-circuit, initial, final, followed only by
                              multi-qubit gates with the reset qubit as non-first operand, groups that are identity on the reset
                              qubit) pushed through generate_cutting_experiments(circuit, observables, inf): one subexperiment
                              per group = preparation + reset clean-up passes + measurement suffix; every subexperiment is
                              simulated by the harness's simulator, decoded with _process_outcome and the lookup, and each
                              observable's value is compared with Tr(rho P) of the ORIGINAL circuit
  born2      chk_born2        the two-qubit state-vector specification of c11_born_two_qubits (Model/StateVec2.v = ev_st2/law_st2)
                              vs qiskit's Statevector: random Gaussian-integer states, every general observable
  forced     chk_forced       cases the harness itself found wrong (independent oracle flagged them, or the implementation made a
                              later step impossible); they always fail in Coq so that the run judges and reports them
`judge` is independent of the Coq model: plain Python restatement of the property text + own numpy simulator.
`generate` never aborts on a misbehaving implementation: every step is recorded, failures become `forced` cases.
"""
from __future__ import annotations

import math
import traceback
from fractions import Fraction

import numpy as np
from qiskit.circuit import QuantumCircuit, QuantumRegister, ClassicalRegister
from qiskit.circuit.library import HGate, SXGate, SXdgGate
from qiskit.quantum_info import Pauli, PauliList, Statevector, DensityMatrix, Operator

from qiskit_addon_cutting.utils.observable_grouping import (
    most_general_observable,
    CommutingObservableGroup,
    ObservableCollection,
)
from qiskit_addon_cutting.cutting_experiments import (
    _append_measurement_register,
    _append_measurement_circuit,
)
from qiskit_addon_cutting.cutting_reconstruction import _process_outcome
from qiskit_addon_cutting import generate_cutting_experiments

from common import CaseWriter, Res, Raw, Nc, Zc, Qc, Opt, call_canon, coq
from circ import CircCtx, coq_circ

IMPORTS = ("From Coq Require Import QArith.\n"
           "From CKT Require Import Common.Base Common.Circ Model.Observables Model.Grouping Model.Measurement Model.StateVec2 Corr.C11Corr.\n"
           "Close Scope Q_scope.")
CASE_TYPES = {
    "chk_mgo": "list pauli * option nat * res pauli",
    "chk_cog": "pauli * list pauli * res (list nat * list N)",
    "chk_collection": "list pauli * list pauli * list (list pauli) * res (list cog_tuple * lookup_t)",
    "chk_meas_reg": "mc_tuple * cog_tuple * res mc_tuple * cog_tuple",
    "chk_meas_circ": "nat * nat * mc_tuple * cog_tuple * option (list nat) * res mc_tuple * cog_tuple",
    "chk_reuse": "cog_tuple * list cog_tuple * list (N * list Z)",
    "chk_physics": "pauli * list pauli * list (N * Q) * list Q",
    "chk_e2e": "list pauli * list pauli * list (list pauli) * list (list (N * Q)) * list Q",
    "chk_born2": "sv2 * list nat * list (N * Q) * list (list nat * Q)",
    "chk_forced": "nat",
}
LET = {(False, False): 0, (True, False): 1, (True, True): 2, (False, True): 3}
LETTERS = "IXYZ"
OBS_NAME = "observable_measurements"
TOL = 1e-9


# ----------------------------------------------------------------------------
# canonical forms
# ----------------------------------------------------------------------------
def canon_pauli(p: Pauli):
    return [int(p.phase), [LET[(bool(a), bool(b))] for a, b in zip(p.x, p.z)]]


def canon_plist(pl):
    return [canon_pauli(p) for p in pl]


def coq_pauli(c):
    return Raw(f"(P {c[0]} [{'; '.join(str(l) for l in c[1])}])")


def coq_plist(cs):
    return [coq_pauli(c) for c in cs]


def mk_pauli(phase, lets):
    p = Pauli("".join(LETTERS[l] for l in reversed(lets)))
    p.phase = phase
    return p


def mk_plist(cs):
    return [mk_pauli(ph, lets) for ph, lets in cs]


def canon_cog(cog):
    return [canon_pauli(cog.general_observable), canon_plist(cog.commuting_observables),
            [int(i) for i in cog.pauli_indices], [int(m) for m in cog.pauli_bitmasks]]


def coq_cog(c):
    return (coq_pauli(c[0]), coq_plist(c[1]), list(c[2]), [Nc(m) for m in c[3]])


COLLECTION_FORMS = ["PauliList", "list", "tuple", "generator", "set"]


def as_form(ps, form):
    if form == "PauliList":
        return PauliList(ps)
    if form == "tuple":
        return tuple(ps)
    if form == "generator":
        return (p for p in ps)
    if form == "set":
        return set(ps)
    return list(ps)


def locs_in_form(locs, form):
    if locs is None:
        return None
    if form == "tuple":
        return tuple(locs)
    if form == "numpy":
        return np.array(locs, dtype=int)
    if form == "range" and locs and locs == list(range(locs[0], locs[0] + len(locs))):
        return range(locs[0], locs[0] + len(locs))
    return list(locs)


def own_outcome_int(o):
    """Python's reading of an outcome given as int, '0b..', '0x..' or a bit string (spaces between registers allowed)."""
    if isinstance(o, int):
        return o
    s = o.replace(" ", "")
    if s[:2] in ("0b", "0x"):
        return int(s, 0)
    return int(s, 2)


def outcome_in_form(o, form, width, rng=None):
    if form == "bin":
        return bin(o)
    if form == "hex":
        return hex(o)
    if form == "bits":
        s = format(o, f"0{max(1, width)}b")
        if rng is not None and len(s) > 1 and rng.integers(0, 2):
            k = int(rng.integers(1, len(s)))
            s = s[:k] + " " + s[k:]
        return s
    return int(o)


# ----------------------------------------------------------------------------
# recording wrapper around the oracle PauliList.group_commuting
# ----------------------------------------------------------------------------
_REC = []
_orig_group_commuting = PauliList.group_commuting


def _recording_group_commuting(self, *a, **k):
    r = _orig_group_commuting(self, *a, **k)
    _REC.append((canon_plist(self), [canon_plist(g) for g in r], [list(a), {kk: repr(v) for kk, v in k.items()}]))
    return r


def run_collection(cs, form):
    """Run ObservableCollection on canonical paulis given in `form`.  Returns dict(impl, unique, oracle_groups, oracle_calls, oc)
    with the oracle's actual outputs of its FIRST call (None if it was not reached)."""
    ps = mk_plist(cs)
    del _REC[:]
    PauliList.group_commuting = _recording_group_commuting
    try:
        r = call_canon(lambda: ObservableCollection(as_form(ps, form)))
    finally:
        PauliList.group_commuting = _orig_group_commuting
    uniq, groups = (None, None)
    if _REC:
        uniq, groups, _ = _REC[0]
    calls = [c[2] for c in _REC]
    oc = None
    if r[0] == "ok":
        oc = r[1]
        try:
            impl = ["ok", [canon_cog(g) for g in oc.groups],
                    [[canon_pauli(p), [[int(i), int(j)] for i, j in locs]] for p, locs in oc.lookup.items()]]
        except Exception as e:  # noqa: BLE001
            impl = ["crashed", f"result could not be read: {type(e).__name__}: {e}"]
            oc = None
    else:
        impl = [r[0], r[1]]
    return dict(impl=impl, unique=uniq, oracle_groups=groups, oracle_calls=calls, oc=oc)


# ----------------------------------------------------------------------------
# plain-Python restatement of the notions in the property text (used by judge and the contract monitors)
# ----------------------------------------------------------------------------
def qw_compatible(a, b):
    return all(x == 0 or y == 0 or x == y for x, y in zip(a, b))


def contract_unique(cs, uniq):
    keys = [(p[0], tuple(p[1])) for p in uniq]
    return len(set(keys)) == len(keys) and set(keys) == {(p[0], tuple(p[1])) for p in cs}


def contract_groups(uniq, groups):
    flat = sorted((p[0], tuple(p[1])) for g in groups for p in g)
    ok = flat == sorted((p[0], tuple(p[1])) for p in uniq)
    ok = ok and all(len(g) > 0 for g in groups)
    for g in groups:
        for i in range(len(g)):
            for j in range(i + 1, len(g)):
                ok = ok and qw_compatible(g[i][1], g[j][1])
    return ok


def support(lets):
    return [i for i, l in enumerate(lets) if l != 0]


def check_cog_text(c):
    """The recorded group c = [general, members, indices, masks] against the property text. Returns problem or None.
    (The text does not demand that the general observable be minimal: construct_general_observables may be overridden
    to measure extra qubits; so a general letter where no member acts is NOT a problem.)"""
    g, ms, idx, masks = c
    if g[0] != 0:
        return f"general observable carries a phase: {g}"
    if idx != support(g[1]):
        return f"pauli_indices {idx} are not the non-identity positions {support(g[1])} of the general observable"
    if len(masks) != len(ms):
        return "number of bitmasks differs from number of members"
    for j, m in enumerate(ms):
        if len(m[1]) != len(g[1]):
            return f"member {j} has a different qubit count"
        for q, l in enumerate(m[1]):
            if l != 0 and l != g[1][q]:
                return f"member {j} = {m} is not qubit-wise compatible with the general observable {g} at qubit {q}"
        acts = sorted(idx[i] for i in range(len(idx)) if (masks[j] >> i) & 1)
        if masks[j] >> len(idx) != 0 or acts != support(m[1]):
            return f"bitmask {masks[j]} of member {j} = {m} selects qubits {acts}, but the member acts on {support(m[1])}"
    return None


def extra_measured(c):
    g, ms = c[0], c[1]
    return [q for q in support(g[1]) if not any(len(m[1]) > q and m[1][q] != 0 for m in ms)]


# ----------------------------------------------------------------------------
# own numpy simulator (little-endian: qubit k = bit k of the basis index); a state is a list of unnormalised branches
# ----------------------------------------------------------------------------
_S2 = 1 / math.sqrt(2)
_MATS = {
    "id": np.eye(2, dtype=complex),
    "h": np.array([[1, 1], [1, -1]], dtype=complex) * _S2,
    "x": np.array([[0, 1], [1, 0]], dtype=complex),
    "y": np.array([[0, -1j], [1j, 0]], dtype=complex),
    "z": np.array([[1, 0], [0, -1]], dtype=complex),
    "s": np.array([[1, 0], [0, 1j]], dtype=complex),
    "sdg": np.array([[1, 0], [0, -1j]], dtype=complex),
    "t": np.array([[1, 0], [0, np.exp(1j * math.pi / 4)]], dtype=complex),
    "sx": np.array([[1 + 1j, 1 - 1j], [1 - 1j, 1 + 1j]], dtype=complex) / 2,
    "sxdg": np.array([[1 - 1j, 1 + 1j], [1 + 1j, 1 - 1j]], dtype=complex) / 2,
}
_PAULI = [_MATS["id"], _MATS["x"], _MATS["y"], _MATS["z"]]


def _mat(name, params):
    if name in _MATS:
        return _MATS[name]
    th = params[0]
    c, s = math.cos(th / 2), math.sin(th / 2)
    if name == "rx":
        return np.array([[c, -1j * s], [-1j * s, c]], dtype=complex)
    if name == "ry":
        return np.array([[c, -s], [s, c]], dtype=complex)
    if name == "rz":
        return np.array([[np.exp(-1j * th / 2), 0], [0, np.exp(1j * th / 2)]], dtype=complex)
    raise ValueError(f"simulator: unknown gate {name}")


def sim_apply1(psi, n, m, q):
    t = psi.reshape((2,) * n)
    ax = n - 1 - q
    t = np.moveaxis(np.tensordot(m, t, axes=([1], [ax])), 0, ax)
    return t.reshape(-1)


def sim_apply(psi, n, name, params, qs):
    if name == "barrier":
        return psi
    if name == "cx":
        c, t = qs
        idx = np.arange(len(psi))
        return np.where((idx >> c) & 1, psi[idx ^ (1 << t)], psi)
    if name == "cz":
        a, b = qs
        idx = np.arange(len(psi))
        return np.where(((idx >> a) & 1) & ((idx >> b) & 1), -psi, psi)
    if name == "swap":
        a, b = qs
        idx = np.arange(len(psi))
        diff = ((idx >> a) & 1) != ((idx >> b) & 1)
        return np.where(diff, psi[idx ^ (1 << a) ^ (1 << b)], psi)
    return sim_apply1(psi, n, _mat(name, params), qs[0])


def sim_reset(psi, q):
    """reset = measure q, flip if 1: the two unnormalised branches P0|psi> and X P1|psi>."""
    idx = np.arange(len(psi))
    one = ((idx >> q) & 1).astype(bool)
    b0 = np.where(one, 0, psi)
    b1 = np.where(one, 0, psi[idx ^ (1 << q)])
    return [b for b in (b0, b1) if float(np.vdot(b, b).real) > 0]


def sim_prepare(n, ops):
    psi = np.zeros(2 ** n, dtype=complex)
    psi[0] = 1
    branches = [psi]
    for name, params, qs in ops:
        if name == "reset":
            branches = [b for psi in branches for b in sim_reset(psi, qs[0])]
        else:
            branches = [sim_apply(psi, n, name, params, qs) for psi in branches]
    return branches


def sim_pauli_expectation(branches, n, lets_by_qubit):
    tot = 0.0
    for psi in branches:
        phi = psi
        for q, l in enumerate(lets_by_qubit):
            if l:
                phi = sim_apply1(phi, n, _PAULI[l], q)
        tot += float(np.real(np.vdot(psi, phi)))
    return tot


def sim_register_law(branches, n, suffix, reg_bits):
    """Outcome law of the register `reg_bits` (list of clbit indices, bit i of the word = reg_bits[i]) after the
    suffix (list of [name, qubit(s), clbit(s)]).  Only terminal measurements: a qubit is not touched after being measured."""
    measured = {}
    for name, qs, cs in suffix:
        if name == "measure":
            if qs[0] in measured:
                raise ValueError("simulator: qubit measured twice")
            measured[qs[0]] = cs[0]
        else:
            if any(q in measured for q in qs):
                raise ValueError("simulator: gate after measurement")
            branches = [sim_apply(psi, n, name, [], qs) for psi in branches]
    pos = {c: i for i, c in enumerate(reg_bits)}
    law = {}
    pr = sum(np.abs(psi) ** 2 for psi in branches)
    for i, p in enumerate(pr):
        w = 0
        for q, c in measured.items():
            if c in pos and (i >> q) & 1:
                w |= 1 << pos[c]
        law[w] = law.get(w, 0.0) + float(p)
    return sorted(law.items())


def sim_circuit_law(n, ops, reg_bits):
    """Outcome law of the register `reg_bits` for a whole circuit given as [name, params, qubits, clbits] from |0..0>
    (gates, barriers, resets anywhere; measurements must be terminal for their qubit; unwritten clbits read 0)."""
    psi = np.zeros(2 ** n, dtype=complex)
    psi[0] = 1
    branches = [psi]
    measured = {}
    for op in ops:
        name, params, qs = op[0], op[1], op[2]
        cs = op[3] if len(op) > 3 else []
        if name == "measure":
            if qs[0] in measured:
                raise ValueError("simulator: qubit measured twice")
            measured[qs[0]] = cs[0]
            continue
        if name == "barrier":
            continue
        if any(q in measured for q in qs):
            raise ValueError(f"simulator: {name} on a qubit that was already measured")
        if name == "reset":
            branches = [b for psi in branches for b in sim_reset(psi, qs[0])]
        else:
            branches = [sim_apply(psi, n, name, params, qs) for psi in branches]
    pos = {c: i for i, c in enumerate(reg_bits)}
    law = {}
    pr = sum(np.abs(psi) ** 2 for psi in branches)
    for i, p in enumerate(pr):
        w = 0
        for q, c in measured.items():
            if c in pos and (i >> q) & 1:
                w |= 1 << pos[c]
        law[w] = law.get(w, 0.0) + float(p)
    return sorted(law.items())


# ----------------------------------------------------------------------------
# generators
# ----------------------------------------------------------------------------
def rand_letters(rng, n, p_id=0.25):
    return [0 if rng.random() < p_id else int(rng.integers(1, 4)) for _ in range(n)]


def gen_paulis(rng, n, force40=False):
    """A Pauli list (canonical, phase 0) on n qubits; returns (list, mode)."""
    mode = int(rng.integers(0, 9))
    k = 40 if force40 else int(rng.integers(1, 41)) if rng.integers(0, 4) == 0 else int(rng.integers(1, 9))
    if mode == 0:
        ps = [rand_letters(rng, n, 0.1) for _ in range(k)]
        name = "dense"
    elif mode == 1:
        ps = [rand_letters(rng, n, 0.7) for _ in range(k)]
        name = "sparse"
    elif mode in (2, 3):  # restrictions of a few general observables -> large compatible groups
        gens = [rand_letters(rng, n, 0.0) for _ in range(int(rng.integers(1, 4)))]
        ps = []
        for _ in range(k):
            g = gens[int(rng.integers(0, len(gens)))]
            ps.append([l if rng.integers(0, 2) else 0 for l in g])
        name = "restrictions"
    elif mode == 4:
        base = [rand_letters(rng, n) for _ in range(int(rng.integers(1, 4)))]
        ps = [base[int(rng.integers(0, len(base)))] for _ in range(k)]
        name = "duplicates"
    elif mode == 5:
        ps = [[0] * n for _ in range(int(rng.integers(1, 4)))]
        name = "all-identity"
    elif mode == 6:  # mutually anticommuting (Jordan-Wigner Majoranas), shuffled, maybe with identity
        ps = []
        for q in range(n):
            ps.append([3] * q + [1] + [0] * (n - q - 1))
            ps.append([3] * q + [2] + [0] * (n - q - 1))
        ps = [ps[i] for i in rng.permutation(len(ps))][: max(1, int(rng.integers(1, 2 * n + 1)))]
        if rng.integers(0, 3) == 0:
            ps.append([0] * n)
        name = "anticommuting"
    elif mode == 7:
        ps = []
        for _ in range(k):
            l = [0] * n
            l[int(rng.integers(0, n))] = int(rng.integers(0, 4))
            ps.append(l)
        name = "weight<=1"
    else:
        ps = [rand_letters(rng, n, 0.4) for _ in range(k)]
        ps.append([0] * n)
        ps.append(list(ps[0]))
        ps = [ps[i] for i in rng.permutation(len(ps))]
        name = "mixture"
    return [[0, [int(x) for x in l]] for l in ps[:40]], name


PREP_1Q = ["h", "x", "y", "z", "s", "sdg", "t", "sx", "sxdg", "rx", "ry", "rz"]
PREP_2Q = ["cx", "cz", "swap"]


def gen_prep(rng, nq):
    ops = []
    for q in range(nq):  # first layer: get off the computational basis
        name = ["h", "ry", "rx", "sx"][int(rng.integers(0, 4))]
        ops.append([name, [float(rng.uniform(0.2, 2.9))] if name[0] == "r" else [], [q], []])
    for _ in range(int(rng.integers(nq, 4 * nq + 2))):
        r = int(rng.integers(0, 9))
        if nq >= 2 and r < 4:
            a, b = [int(x) for x in rng.permutation(nq)[:2]]
            ops.append([PREP_2Q[int(rng.integers(0, 3))], [], [a, b], []])
        elif r == 4:
            ops.append(["barrier", [], sorted(int(x) for x in rng.permutation(nq)[: int(rng.integers(1, nq + 1))]), []])
        else:
            name = PREP_1Q[int(rng.integers(0, len(PREP_1Q)))]
            ops.append([name, [float(rng.uniform(-3.1, 3.1))] if name[0] == "r" else [], [int(rng.integers(0, nq))], []])
    return ops


def gen_qregs(rng, nq):
    """None (one register "q") or a split of nq into two or three quantum registers."""
    if nq < 2 or rng.integers(0, 3):
        return None
    a = int(rng.integers(1, nq))
    sizes = [a, nq - a]
    if sizes[1] >= 2 and rng.integers(0, 2):
        b = int(rng.integers(1, sizes[1]))
        sizes = [a, b, sizes[1] - b]
    return sizes


def build_circuit(recipe):
    """recipe: dict(nq, qregs=None|[sizes], cregs=[[name, size]...], ops=[[name, params, qubits, clbits]...]) -> QuantumCircuit"""
    if recipe.get("qregs"):
        qc = QuantumCircuit(*[QuantumRegister(s, f"q{i}") for i, s in enumerate(recipe["qregs"])])
    elif recipe["nq"]:
        qc = QuantumCircuit(QuantumRegister(recipe["nq"], "q"))
    else:
        qc = QuantumCircuit()
    for name, size in recipe["cregs"]:
        qc.add_register(ClassicalRegister(size, name))
    for op in recipe["ops"]:
        name, params, qs = op[0], op[1], op[2]
        cs = op[3] if len(op) > 3 else []
        if name == "measure":
            qc.measure(qs[0], cs[0])
        elif name == "barrier":
            qc.barrier(*qs)
        else:
            getattr(qc, name)(*params, *qs)
    return qc


def canon_mc(ctx, qc):
    data = ctx.canon_circuit(qc)
    regs = [[r.name == OBS_NAME, [qc.find_bit(c).index for c in r]] for r in qc.cregs]
    return dict(nq=qc.num_qubits, nc=qc.num_clbits, cregs=regs, data=data)


def coq_mc(m):
    return (m["nq"], m["nc"], [(bool(a), list(b)) for a, b in m["cregs"]], coq_circ(m["data"]))


def simple_data(m):
    """[name, qubits, clbits] view of canonical data (gate name for gates, op kind otherwise)."""
    out = []
    for d in m["data"]:
        op = d["op"]
        out.append([op[2] if op[0] == "gate" else op[0], list(d["qs"]), list(d["cs"])])
    return out


def mc_res(r, ctx):
    if r[0] == "ok":
        m = canon_mc(ctx, r[1])
        return ["ok", m]
    return [r[0], r[1]]


def coq_mc_res(impl):
    return Res("ok", coq_mc(impl[1])) if impl[0] == "ok" else Res(impl[0])


def make_cog(c):
    return CommutingObservableGroup(mk_pauli(*c[0]), mk_plist(c[1]))


def gen_cog_canon(rng, n):
    """A consistent group on n qubits (canonical [general, members])."""
    if rng.integers(0, 6) == 0:
        g = [0] * n
    else:
        g = rand_letters(rng, n, 0.3)
    ms = [[0, [l if rng.integers(0, 2) else 0 for l in g]] for _ in range(int(rng.integers(1, 5)))]
    return [[0, g], ms]


def gen_meas_recipe(rng, nq):
    cregs = []
    if rng.integers(0, 2):
        cregs.append(["qpd_measurements", int(rng.integers(0, 3))])
    if rng.integers(0, 3) == 0:
        cregs.append(["c", int(rng.integers(1, 3))])
    nc = sum(s for _, s in cregs)
    ops = []
    for _ in range(int(rng.integers(0, 5))):
        r = int(rng.integers(0, 6))
        if r == 0 and nq >= 2:
            a, b = [int(x) for x in rng.permutation(nq)[:2]]
            ops.append(["cx", [], [a, b], []])
        elif r == 1 and nc > 0:
            ops.append(["measure", [], [int(rng.integers(0, nq))], [int(rng.integers(0, nc))]])
        elif r == 2:
            ops.append(["sx", [], [int(rng.integers(0, nq))], []])
        elif r == 3:
            ops.append(["rz", [float(rng.integers(-8, 9)) / 8], [int(rng.integers(0, nq))], []])
        elif r == 4:
            ops.append(["barrier", [], list(range(nq)), []])
        else:
            ops.append(["h", [], [int(rng.integers(0, nq))], []])
    return dict(nq=nq, qregs=gen_qregs(rng, nq), cregs=cregs, ops=ops)


def fresh_ctx():
    ctx = CircCtx()
    gh = ctx.gate_id(HGate())
    gsx = ctx.gate_id(SXGate())
    return ctx, gh, gsx


def embed(lets, locs, nq):
    out = [0] * nq
    for k, l in enumerate(lets):
        out[locs[k]] = l
    return out


def reference_state(qc, prep):
    return DensityMatrix(qc) if any(o[0] == "reset" for o in prep) else Statevector(qc)


# ---- one case of each kind: build the json case by running the implementation (shared by generate and rerun) ----
def exec_mgo(case):
    ps = mk_plist(case["group"])
    arg = ps if (case["aslist"] or not ps) else PauliList(ps)
    r = call_canon(most_general_observable, arg, **({} if case["nq"] is None else {"num_qubits": case["nq"]}))
    case["impl"] = ["ok", canon_pauli(r[1])] if r[0] == "ok" else [r[0], r[1]]
    return case


def exec_cog(case):
    r = call_canon(make_cog, [case["general"], case["members"]])
    case["impl"] = ["ok", canon_cog(r[1])[2:]] if r[0] == "ok" else [r[0], r[1]]
    return case


def exec_collection(case):
    rc = run_collection(case["paulis"], case["form"])
    case["impl"], case["unique"], case["oracle_groups"], case["oracle_calls"] = rc["impl"], rc["unique"], rc["oracle_groups"], rc["oracle_calls"]
    return case


def exec_meas(case):
    """kind meas_reg / meas_circ: circuit from recipe; optional register step; then the call under test."""
    ctx, gh, gsx = fresh_ctx()
    qc = build_circuit(case["recipe"])
    cog = make_cog(case["cog"])
    case["cog_fields"] = canon_cog(cog)
    if case["kind"] == "meas_reg":
        case["input"] = canon_mc(ctx, qc)
        r = call_canon(_append_measurement_register, qc, cog, inplace=case["inplace"])
    else:
        if case["reg_for"] is not None:  # register created by the implementation for this (possibly other) group
            qc = _append_measurement_register(qc, make_cog(case["reg_for"]))
        case["input"] = canon_mc(ctx, qc)
        kw = dict(inplace=case["inplace"])
        if case["locs"] is not None:
            kw["qubit_locations"] = locs_in_form(case["locs"], case.get("locs_form", "list"))
        r = call_canon(_append_measurement_circuit, qc, cog, **kw)
    case["impl"] = mc_res(r, ctx)
    if case["inplace"]:
        case["same_object"] = bool(r[0] != "ok" or r[1] is qc)
    else:
        case["input_untouched"] = bool(canon_mc(ctx, qc) == case["input"] and (r[0] != "ok" or r[1] is not qc))
    case["cog_after"] = canon_cog(cog)  # the group re-read after it has been used
    case["gh"], case["gsx"] = gh, gsx
    return case


def exec_reuse(case):
    """use then re-inspect.  case: cog | from_collection (paulis, group index), steps = list of
    ["register"] | ["circuit"] | ["outcome", int|str].  The group object is used for every step in turn and re-read after each."""
    case["impl"] = dict(afters=[], outs=[], errors=[])
    if case.get("from_collection") is not None:
        cs, gi = case["from_collection"]
        r = call_canon(lambda: ObservableCollection(PauliList(mk_plist(cs))).groups[gi])
        if r[0] != "ok":
            case["cog_fields"] = None
            case["impl"]["errors"].append([["collection"], r[0], r[1]])
            return case
        cog = r[1]
    else:
        cog = make_cog(case["cog"])
    case["cog_fields"] = canon_cog(cog)
    n = len(case["cog_fields"][0][1])
    for st in case["steps"]:
        if st[0] == "register":
            r = call_canon(_append_measurement_register, QuantumCircuit(n), cog)
        elif st[0] == "circuit":
            r = call_canon(lambda: _append_measurement_circuit(_append_measurement_register(QuantumCircuit(n), cog), cog))
        else:
            r = call_canon(_process_outcome, cog, st[1])
            if r[0] == "ok":
                try:
                    vals = [float(x) for x in r[1]]
                    case["impl"]["outs"].append([st[1], [int(x) for x in vals], bool(all(x in (1.0, -1.0) for x in vals))])
                except Exception as e:  # noqa: BLE001
                    r = ("crashed", f"unreadable result {r[1]!r}: {e}")
        if r[0] != "ok":
            case["impl"]["errors"].append([st, r[0], r[1]])
        case["impl"]["afters"].append(canon_cog(cog))
    return case


def _measure_group(ctx, qc, cog, locs, nq, omit, locs_form, inplace):
    """register + measurement circuit for one group on (a copy of) qc; returns call result and the canonical pieces"""
    r0 = call_canon(_append_measurement_register, qc, cog)
    if r0[0] != "ok":
        return [r0[0], f"_append_measurement_register: {r0[1]}"]
    kw = {} if (omit and locs == list(range(nq))) else {"qubit_locations": locs_in_form(locs, locs_form)}
    r = call_canon(_append_measurement_circuit, r0[1], cog, inplace=inplace, **kw)
    if r[0] != "ok":
        return [r[0], f"_append_measurement_circuit: {r[1]}"]
    m = canon_mc(ctx, r[1])
    regs = [b for f, b in m["cregs"] if f]
    if not regs:
        return ["crashed", "no observable_measurements register in the result"]
    return ["ok", dict(suffix=simple_data(m)[len(qc.data):], reg_bits=regs[0])]


def exec_physics(case):
    """preparation on nq qubits, subsystem qubit k sits on circuit qubit locs[k]; one group."""
    nq, locs = case["nq"], case["locs"]
    ctx, gh, gsx = fresh_ctx()
    qc = build_circuit(dict(nq=nq, qregs=case.get("qregs"), cregs=case["cregs"], ops=case["prep"]))
    ref = reference_state(qc, case["prep"])
    cog = make_cog(case["cog"])
    case["cog_fields"] = canon_cog(cog)
    case["impl"] = _measure_group(ctx, qc, cog, locs, nq, case["omit_locs"], case.get("locs_form", "list"), case.get("inplace", False))
    case["cog_after"] = canon_cog(cog)
    case["sv_expect"] = [float(np.real(ref.expectation_value(mk_pauli(0, embed(mem[1], locs, nq))))) for mem in case["cog"][1]]
    return case


def exec_e2e(case):
    """collection -> every group measured on the same preparation -> implementation's decoder on every outcome word."""
    nq, locs = case["nq"], case["locs"]
    ctx, gh, gsx = fresh_ctx()
    qc = build_circuit(dict(nq=nq, qregs=case.get("qregs"), cregs=[], ops=case["prep"]))
    ref = reference_state(qc, case["prep"])
    rc = run_collection(case["paulis"], case["form"])
    case["unique"], case["oracle_groups"] = rc["unique"], rc["oracle_groups"]
    case["sv_expect"] = [float(np.real(ref.expectation_value(mk_pauli(0, embed(p[1], locs, nq))))) for p in case["paulis"]]
    if rc["oc"] is None:
        case["impl"] = [rc["impl"][0] if rc["impl"][0] != "ok" else "crashed", rc["impl"][1]]
        return case
    branches = sim_prepare(nq, [(o[0], o[1], o[2]) for o in case["prep"]])
    meas = []
    for cog in rc["oc"].groups:
        mg = _measure_group(ctx, qc, cog, locs, nq, case["omit_locs"], case.get("locs_form", "list"), False)
        if mg[0] == "ok":
            try:
                law = sim_register_law(branches, nq, mg[1]["suffix"], mg[1]["reg_bits"])
            except ValueError as e:
                law = []
                mg[1]["sim_error"] = str(e)
            proc = []
            for wd, _p in law:
                o = outcome_in_form(wd, case.get("outcome_form", "int"), len(mg[1]["reg_bits"]))
                r = call_canon(_process_outcome, cog, o)
                try:
                    proc.append([wd, o, [float(x) for x in r[1]]] if r[0] == "ok" else [wd, o, [r[0], r[1]]])
                except Exception as e:  # noqa: BLE001
                    proc.append([wd, o, ["crashed", f"unreadable result: {e}"]])
            mg[1]["proc"] = proc
        meas.append(mg)
    try:
        after = [canon_cog(g) for g in rc["oc"].groups]
    except Exception as e:  # noqa: BLE001
        after = f"{type(e).__name__}: {e}"
    case["impl"] = ["ok", dict(groups=rc["impl"][1], lookup=rc["impl"][2], meas=meas, after=after)]
    return case


def gen_reset_prep(rng, nq):
    """A preparation with resets in the places the clean-up passes look at.  Returns (ops, reset_qubits, pattern names)."""
    ops = gen_prep(rng, nq)
    names = []
    rq = set()

    def some_gate(q):
        name = ["h", "x", "sx", "ry", "s"][int(rng.integers(0, 5))]
        return [name, [float(rng.uniform(0.3, 2.8))] if name[0] == "r" else [], [q], []]

    for _ in range(int(rng.integers(1, 4))):
        pat = int(rng.integers(0, 6))
        q = int(rng.integers(0, nq))
        rq.add(q)
        if pat == 0:  # run of 2-3 resets in the middle, followed by a gate on the same qubit
            pos = int(rng.integers(1, len(ops) + 1))
            blk = [["x", [], [q], []]] + [["reset", [], [q], []] for _ in range(int(rng.integers(2, 4)))] + [some_gate(q)]
            ops[pos:pos] = blk
            names.append("run-mid")
        elif pat == 1:  # run of resets at the end, then a gate
            ops += [some_gate(q)] + [["reset", [], [q], []] for _ in range(int(rng.integers(2, 4)))] + [some_gate(q)]
            names.append("run-end-gate")
        elif pat == 2 and nq >= 2:  # reset followed only by two-qubit gates with q as SECOND operand
            o = int(rng.choice([x for x in range(nq) if x != q]))
            ops += [["x", [], [q], []], ["reset", [], [q], []], [["cz", "cx"][int(rng.integers(0, 2))], [], [o, q], []]]
            names.append("reset-then-2q-second-operand")
        elif pat == 3:  # initial resets
            ops[0:0] = [["reset", [], [q], []] for _ in range(int(rng.integers(1, 3)))]
            names.append("initial")
        elif pat == 4:  # final reset(s)
            ops += [some_gate(q)] + [["reset", [], [q], []] for _ in range(int(rng.integers(1, 4)))]
            names.append("final")
        else:  # single mid-circuit reset between gates, runs interleaved with another qubit's instructions
            pos = int(rng.integers(1, len(ops) + 1))
            o = int(rng.integers(0, nq))
            ops[pos:pos] = [["reset", [], [q], []], some_gate(o), ["reset", [], [q], []], some_gate(q)]
            names.append("interleaved")
    return ops, sorted(rq), names


GCE_FIXED = [  # hand-written members of the stream (the shapes named in the stream description)
    dict(nq=1, prep=[["x", [], [0], []], ["reset", [], [0], []], ["reset", [], [0], []], ["reset", [], [0], []], ["h", [], [0], []]],
         paulis=[[0, [1]], [0, [3]]]),
    dict(nq=2, prep=[["h", [], [0], []], ["x", [], [1], []], ["reset", [], [1], []], ["cz", [], [0, 1], []]],
         paulis=[[0, [1, 0]]]),
    dict(nq=2, prep=[["h", [], [0], []], ["cx", [], [0, 1], []], ["reset", [], [0], []]], paulis=[[0, [3, 0]], [0, [0, 3]], [0, [3, 3]]]),
    dict(nq=2, prep=[["reset", [], [0], []], ["ry", [0.9], [0], []], ["x", [], [1], []], ["reset", [], [1], []], ["reset", [], [1], []],
                     ["cx", [], [0, 1], []], ["reset", [], [0], []]], paulis=[[0, [0, 3]], [0, [0, 0]], [0, [1, 3]]]),
]


def exec_gce(case):
    """generate_cutting_experiments on an uncut circuit: one subexperiment per group of ObservableCollection(observables)."""
    nq = case["nq"]
    ctx, gh, gsx = fresh_ctx()
    qc = build_circuit(dict(nq=nq, qregs=case.get("qregs"), cregs=[], ops=case["prep"]))
    ref = reference_state(qc, case["prep"])
    case["sv_expect"] = [float(np.real(ref.expectation_value(mk_pauli(0, p[1])))) for p in case["paulis"]]
    obs = PauliList(mk_plist(case["paulis"]))
    del _REC[:]
    PauliList.group_commuting = _recording_group_commuting
    try:
        r = call_canon(generate_cutting_experiments, qc, obs, np.inf)
    finally:
        PauliList.group_commuting = _orig_group_commuting
    case["unique"], case["oracle_groups"] = (_REC[0][0], _REC[0][1]) if _REC else (None, None)
    if r[0] != "ok":
        case["impl"] = [r[0], r[1]]
        return case
    try:
        subexps, coeffs = r[1]
        coeffs_c = [[float(c), getattr(t, "name", str(t))] for c, t in coeffs]
        subs = []
        for se in subexps:
            m = canon_mc(ctx, se)
            ops = [[d["op"][2], list(d["op"][3]), list(d["qs"]), list(d["cs"])] if d["op"][0] == "gate"
                   else [d["op"][0], [], list(d["qs"]), list(d["cs"])] for d in m["data"]]
            regs = [b for f, b in m["cregs"] if f]
            subs.append(dict(nq=m["nq"], ops=ops, reg_bits=regs[0] if regs else None))
    except Exception as e:  # noqa: BLE001
        case["impl"] = ["crashed", f"result could not be read: {type(e).__name__}: {e}"]
        return case
    ro = call_canon(lambda: ObservableCollection(obs))
    if ro[0] != "ok":
        case["impl"] = [ro[0], f"ObservableCollection: {ro[1]}"]
        return case
    oc = ro[1]
    groups = [canon_cog(g) for g in oc.groups]
    lookup = [[canon_pauli(p), [[int(i), int(j)] for i, j in locs]] for p, locs in oc.lookup.items()]
    for i, sb in enumerate(subs):  # the implementation's decoder on every outcome word of its own subexperiment
        sb["proc"] = []
        if i >= len(oc.groups) or sb["reg_bits"] is None or sb["nq"] != nq:
            continue
        try:
            law = sim_circuit_law(nq, sb["ops"], sb["reg_bits"])
        except ValueError as e:
            sb["sim_error"] = str(e)
            continue
        for wd, _p in law:
            rp = call_canon(_process_outcome, oc.groups[i], wd)
            try:
                sb["proc"].append([wd, [float(x) for x in rp[1]]] if rp[0] == "ok" else [wd, [rp[0], rp[1]]])
            except Exception as e:  # noqa: BLE001
                sb["proc"].append([wd, ["crashed", f"unreadable result: {e}"]])
    case["impl"] = ["ok", dict(groups=groups, lookup=lookup, subexps=subs, coeffs=coeffs_c, after=[canon_cog(g) for g in oc.groups])]
    return case


def exec_born2(case):
    """qiskit's answer for a two-qubit state with Gaussian-integer amplitudes: register law after the rotations for g,
    and the expectation value of all 16 Pauli strings."""
    amps, g = case["amps"], case["g"]
    vec = np.array([complex(a, b) for a, b in amps], dtype=complex)
    sv = Statevector(vec / np.linalg.norm(vec))
    rot = sv
    for q, l in enumerate(g):
        if l == 1:
            rot = rot.evolve(HGate(), [q])
        elif l == 2:
            rot = rot.evolve(SXGate(), [q])
    pidx = support(g) or [0]
    law = {}
    for b, p in enumerate(rot.probabilities()):
        wd = sum(((b >> q) & 1) << i for i, q in enumerate(pidx))
        law[wd] = law.get(wd, 0.0) + float(p)
    evs = [[[l0, l1], float(np.real(sv.expectation_value(mk_pauli(0, [l0, l1]))))] for l0 in range(4) for l1 in range(4)]
    case["impl"] = ["ok", dict(law=sorted(law.items()), evs=evs)]
    return case


def own_law(case):
    branches = sim_prepare(case["nq"], [(o[0], o[1], o[2]) for o in case["prep"]])
    return sim_register_law(branches, case["nq"], case["impl"][1]["suffix"], case["impl"][1]["reg_bits"])


# ----------------------------------------------------------------------------
class Emitter:
    """Adds cases; runs `judge` on every case (contract judge_accepts_clean_case); a flagged case gets a `forced` twin."""

    def __init__(self, w):
        self.w = w
        self.nforced = 0
        self.max_dev = 0.0

    def forced(self, case, why):
        c = dict(case)
        c["forced_why"] = why
        self.w.add("forced", "chk_forced", self.nforced, c, nontrivial=True, key=self.nforced)
        self.nforced += 1
        self.w.count("forced.kind", case.get("kind"))

    def judged(self, case):
        try:
            v = judge(case)
            self.w.contract("judge_total", True)
        except Exception as e:  # noqa: BLE001
            self.w.contract("judge_total", False)
            self.w.notes.append(f"judge raised on a {case.get('kind')} case: {type(e).__name__}: {e}")
            v = dict(violates=False, detail="judge raised")
        self.w.contract("judge_accepts_clean_case", not v["violates"])
        self.max_dev = max(self.max_dev, v.get("max_dev", 0.0))
        return v

    def add(self, group, checker, coq_case, case, nontrivial=True, key=None):
        v = self.judged(case)
        self.w.add(group, checker, coq_case, case, nontrivial=nontrivial, key=key)
        if v["violates"]:
            self.forced(case, "independent oracle: " + str(v["detail"])[:300])
        return v

    def guard(self, stream, fn):
        """run one iteration; an exception inside the harness becomes a forced case instead of aborting generate"""
        try:
            fn()
        except Exception as e:  # noqa: BLE001
            tb = traceback.format_exc().splitlines()[-6:]
            self.w.notes.append(f"{stream}: harness iteration raised {type(e).__name__}: {e}")
            self.forced(dict(kind="harness_error", stream=stream, error=f"{type(e).__name__}: {e}", trace=tb), "harness iteration raised")


def generate(rng, tier, outdir):
    w = CaseWriter(outdir, IMPORTS, case_types=CASE_TYPES)
    em = Emitter(w)
    quick = tier == "quick"
    n_coll = 450 if quick else 8000
    n_mgo = 300 if quick else 6000
    n_cog = 250 if quick else 5000
    n_meas = 300 if quick else 6000
    n_phys = 160 if quick else 3000
    n_reuse = 150 if quick else 2500
    n_e2e = 60 if quick else 1200
    n_gce = 140 if quick else 3000
    n_born2 = 96 if quick else 1600
    max_sim_n = 4 if quick else 6

    # the physics specification of Model/Measurement.v part B is the matrices qiskit uses
    w.contract("gate_matrix_h", np.allclose(Operator(HGate()).data, _MATS["h"], atol=1e-12))
    w.contract("gate_matrix_sx", np.allclose(Operator(SXGate()).data, _MATS["sx"], atol=1e-12))
    w.contract("gate_matrix_sxdg", np.allclose(Operator(SXdgGate()).data, _MATS["sxdg"], atol=1e-12))

    valid_groups = []  # canonical groups seen in collections, reused by the mgo / cog / meas streams

    def add_collection_case(case, mode="-"):
        """emit a collection case (shared by several streams); returns True iff usable (ok result)"""
        cs, impl, uniq, groups = case["paulis"], case["impl"], case["unique"], case["oracle_groups"]
        if uniq is None:  # the oracle was never reached: nothing to give to the model
            v = em.judged(case)
            em.forced(case, f"group_commuting was not called; result {impl[0]}; oracle says violates={v['violates']}")
            return False
        w.contract("oracle_called_once_qubit_wise", case["oracle_calls"] == [[[], {"qubit_wise": "True"}]])
        w.contract("unique", contract_unique(cs, uniq))
        w.contract("group_commuting", contract_groups(uniq, groups))
        if impl[0] == "ok":
            exp = Res("ok", ([coq_cog(c) for c in impl[1]],
                             [(coq_pauli(p), [(i, j) for i, j in locs]) for p, locs in impl[2]]))
        else:
            exp = Res(impl[0])
        em.add("collection", "chk_collection",
               (coq_plist(cs), coq_plist(uniq), [coq_plist(g) for g in groups], exp), case,
               nontrivial=(impl[0] == "ok" and len(uniq) > 1))
        w.count("collection.mode", mode)
        w.count("collection.len", "40" if len(cs) == 40 else min(30, 10 * (len(cs) // 10)))
        w.count("collection.form", case["form"])
        w.count("collection.outcome", impl[0])
        return impl[0] == "ok"

    # ---------------- collection ----------------
    def one_collection(it):
        n = int(rng.integers(1, 7))
        cs, mode = gen_paulis(rng, n, force40=(it % 90 == 7))
        if rng.integers(0, 12) == 0:  # phases: the property speaks of phase-free lists only; the code must refuse
            for _ in range(int(rng.integers(1, 3))):
                cs[int(rng.integers(0, len(cs)))][0] = int(rng.integers(1, 4))
            mode = "phase"
        form = COLLECTION_FORMS[int(rng.integers(0, 5))] if rng.integers(0, 2) else "PauliList"
        case = exec_collection(dict(kind="collection", n=n, paulis=cs, form=form))
        w.count("collection.n", n)
        if add_collection_case(case, mode):
            impl = case["impl"]
            for c in impl[1]:
                if len(valid_groups) < 4000:
                    valid_groups.append([c[0], c[1]])
                if extra_measured(c):
                    w.count("collection.note", "general observable measures a qubit no member acts on")
            w.count("collection.groups", len(impl[1]))
            w.count("collection.max_group", max(len(c[1]) for c in impl[1]))

    for it in range(n_coll):
        em.guard("collection", lambda: one_collection(it))

    # empty python list (PauliList refuses to be empty): outside the property, model says Crashed
    def empty_collection():
        case = dict(kind="collection", n=0, paulis=[], form="list")
        r = call_canon(lambda: ObservableCollection([]))
        case["impl"], case["unique"], case["oracle_groups"] = [r[0], r[1] if r[0] != "ok" else None], [], []
        em.add("collection", "chk_collection", ([], [], [], Res(r[0]) if r[0] != "ok" else Res("ok", ([], []))), case, nontrivial=False)

    em.guard("collection", empty_collection)

    # ---------------- most_general_observable ----------------
    def one_mgo():
        n = int(rng.integers(1, 7))
        mode = int(rng.integers(0, 10))
        nq = None
        if mode < 4 and valid_groups:
            g = valid_groups[int(rng.integers(0, len(valid_groups)))]
            group = [[int(rng.integers(0, 4)) if rng.integers(0, 4) == 0 else 0, list(m[1])] for m in g[1]]
            group = [group[i] for i in rng.permutation(len(group))]
            name = "valid"
        elif mode < 6:
            group = [[int(rng.integers(0, 4)), rand_letters(rng, n, 0.6)] for _ in range(int(rng.integers(1, 5)))]
            name = "random"
        elif mode == 6:
            group, name = [], "empty"
        elif mode == 7:  # wrong length somewhere (python list only)
            group = [[0, rand_letters(rng, n, 0.8)] for _ in range(int(rng.integers(2, 5)))]
            j = int(rng.integers(0, len(group)))
            group[j] = [0, rand_letters(rng, max(1, n + int(rng.choice([-1, 1, 2]))), 0.8)]
            if len(group[j][1]) == n:
                group[j][1].append(0)
            name = "wrong-length"
        elif mode == 8:  # explicit num_qubits, right or wrong
            group = [[0, rand_letters(rng, n, 0.8)] for _ in range(int(rng.integers(1, 4)))]
            nq = n if rng.integers(0, 2) else n + int(rng.choice([-1, 1]))
            if nq < 1:
                nq = n + 1
            name = "num_qubits"
        else:  # one incompatible pair planted into a compatible family
            gen = rand_letters(rng, n, 0.0)
            group = [[0, [l if rng.integers(0, 2) else 0 for l in gen]] for _ in range(int(rng.integers(2, 6)))]
            q = int(rng.integers(0, n))
            group[0][1][q] = gen[q]
            group[-1][1][q] = gen[q] % 3 + 1
            name = "incompatible"
        lens = {len(p[1]) for p in group}
        aslist = bool(len(lens) != 1 or rng.integers(0, 2))
        case = exec_mgo(dict(kind="mgo", group=group, nq=nq, aslist=aslist))
        impl = case["impl"]
        exp = Res("ok", coq_pauli(impl[1])) if impl[0] == "ok" else Res(impl[0])
        em.add("mgo", "chk_mgo", (coq_plist(group), Opt(nq), exp), case, nontrivial=(impl[0] == "ok" and len(group) > 1))
        w.count("mgo.mode", name)
        w.count("mgo.outcome", impl[0])

    for it in range(n_mgo):
        em.guard("mgo", one_mgo)

    # ---------------- CommutingObservableGroup ----------------
    def one_cog():
        n = int(rng.integers(1, 7))
        mode = int(rng.integers(0, 8))
        if mode < 3 and valid_groups:
            g = valid_groups[int(rng.integers(0, len(valid_groups)))]
            general, members, name = [g[0][0], list(g[0][1])], [[m[0], list(m[1])] for m in g[1]], "valid"
        elif mode < 5:
            general, members = gen_cog_canon(rng, n)
            name = "consistent"
        elif mode == 5:  # phases on members and/or general
            general, members = gen_cog_canon(rng, n)
            if rng.integers(0, 2):
                general[0] = int(rng.integers(1, 4))
            if rng.integers(0, 3):
                members[int(rng.integers(0, len(members)))][0] = int(rng.integers(1, 4))
            name = "phase"
        elif mode == 6:  # arbitrary (not compatible) members
            general = [0, rand_letters(rng, n, 0.3)]
            members = [[0, rand_letters(rng, n, 0.4)] for _ in range(int(rng.integers(1, 4)))]
            name = "arbitrary"
        else:  # members of another width
            general = [0, rand_letters(rng, n, 0.3)]
            members = [[int(rng.integers(0, 2)) * int(rng.integers(0, 4)), rand_letters(rng, max(1, n + int(rng.choice([-2, -1, 1]))), 0.4)]
                       for _ in range(int(rng.integers(1, 4)))]
            name = "other-width"
        case = exec_cog(dict(kind="cog", general=general, members=members))
        impl = case["impl"]
        exp = Res("ok", (list(impl[1][0]), [Nc(m) for m in impl[1][1]])) if impl[0] == "ok" else Res(impl[0])
        em.add("cog", "chk_cog", (coq_pauli(general), coq_plist(members), exp), case, nontrivial=(impl[0] == "ok" and len(impl[1][0]) > 0))
        w.count("cog.mode", name)
        w.count("cog.outcome", impl[0])

    for it in range(n_cog):
        em.guard("cog", one_cog)

    # ---------------- measurement register / circuit ----------------
    def one_meas():
        n = int(rng.integers(1, 6))
        if rng.integers(0, 2) and valid_groups:
            g = valid_groups[int(rng.integers(0, len(valid_groups)))]
            cogc = [[0, list(g[0][1])], [[0, list(m[1])] for m in g[1]]]
            n = len(cogc[0][1])
        else:
            cogc = gen_cog_canon(rng, n)
        mode = int(rng.integers(0, 14))
        nq = n
        locs = None
        reg_for = cogc
        name = "identity-map"
        if mode in (0, 1, 2, 3):  # explicit locations into a larger circuit
            nq = n + int(rng.integers(0, 3))
            locs = [int(x) for x in rng.permutation(nq)[:n]]
            name = "locations"
        elif mode == 4:  # locations with repeats
            nq = n + int(rng.integers(0, 2))
            locs = [int(x) for x in rng.integers(0, nq, size=n)]
            name = "locations-repeat"
        elif mode == 5:  # refusal: qubit count mismatch, identity map
            nq = max(1, n + int(rng.choice([-1, 1, 2])))
            if nq == n:
                nq = n + 1
            name = "refuse-count-none"
        elif mode == 6:  # refusal: qubit_locations of the wrong length
            nq = n + 1
            locs = [int(x) for x in rng.integers(0, nq, size=max(0, n + int(rng.choice([-1, 1]))))]
            name = "refuse-count-locs"
        elif mode == 7:  # refusal: register missing
            reg_for = None
            name = "refuse-no-register"
        elif mode == 8:  # refusal: register of another size
            other = gen_cog_canon(rng, n)
            tries = 0
            while len(support(other[0][1]) or [0]) == len(support(cogc[0][1]) or [0]) and tries < 20:
                other = gen_cog_canon(rng, n + 1)
                tries += 1
            reg_for = other
            name = "wrong-register-size"
        elif mode == 9:  # crash: location outside the circuit
            nq = n
            locs = [int(x) for x in rng.permutation(nq)[:n]]
            locs[int(rng.integers(0, n))] = nq + int(rng.integers(0, 2))
            name = "location-out-of-range"
        elif mode == 10:  # contiguous window into a larger circuit (also as range)
            nq = n + int(rng.integers(1, 3))
            a = int(rng.integers(0, nq - n + 1))
            locs = list(range(a, a + n))
            name = "locations-window"
        recipe = gen_meas_recipe(rng, nq)
        inplace = bool(rng.integers(0, 3) == 0)
        locs_form = ["list", "tuple", "numpy", "range"][int(rng.integers(0, 4))] if locs is not None else None
        # register step on the bare circuit (also: a second register of that name crashes)
        rcase = dict(kind="meas_reg", recipe=recipe, cog=cogc, inplace=inplace)
        if rng.integers(0, 8) == 0:
            rcase["recipe"] = dict(recipe, cregs=recipe["cregs"] + [[OBS_NAME, int(rng.integers(0, 3))]])
        rcase = exec_meas(rcase)
        ri = rcase["impl"]
        em.add("meas_reg", "chk_meas_reg",
               (coq_mc(rcase["input"]), coq_cog(rcase["cog_fields"]), coq_mc_res(ri), coq_cog(rcase["cog_after"])),
               rcase, nontrivial=(ri[0] == "ok"))
        w.count("meas_reg.outcome", ri[0])
        w.count("meas_reg.size", len(rcase["cog_fields"][2]) or "dummy")
        # measurement step
        case = exec_meas(dict(kind="meas_circ", recipe=recipe, cog=cogc, inplace=inplace, locs=locs, locs_form=locs_form, reg_for=reg_for))
        mi = case["impl"]
        em.add("meas_circ", "chk_meas_circ",
               (case["gh"], case["gsx"], coq_mc(case["input"]), coq_cog(case["cog_fields"]),
                Opt(list(locs), some=True) if locs is not None else Opt(),
                coq_mc_res(mi), coq_cog(case["cog_after"])),
               case, nontrivial=(mi[0] == "ok" and len(mi[1]["data"]) > len(case["input"]["data"]) + 1))
        w.count("meas_circ.mode", name)
        w.count("meas_circ.outcome", mi[0])
        w.count("meas_circ.locs_form", locs_form)
        w.count("meas_circ.qregs", len(recipe["qregs"]) if recipe["qregs"] else 1)
        w.count("meas_circ.inplace", inplace)

    for it in range(n_meas):
        em.guard("meas", one_meas)

    # ---------------- use then re-inspect ----------------
    def one_reuse():
        n = int(rng.integers(1, 6))
        case = dict(kind="reuse")
        mode = int(rng.integers(0, 4))
        if mode == 0:  # all-identity group built directly
            case["cog"] = [[0, [0] * n], [[0, [0] * n]]]
            name = "all-identity"
        elif mode == 1:  # a group taken out of a collection that contains the identity
            cs, _ = gen_paulis(rng, n)
            cs = cs[:8] + [[0, [0] * n]]
            ccase = exec_collection(dict(kind="collection", n=n, paulis=cs, form="PauliList"))
            if not add_collection_case(ccase, "for-reuse"):
                return
            groups = ccase["impl"][1]
            with_id = [i for i, c in enumerate(groups) if any(not any(m[1]) for m in c[1])]
            gi = with_id[0] if (with_id and rng.integers(0, 2)) else int(rng.integers(0, len(groups)))
            case["from_collection"] = [cs, gi]
            name = "from-collection"
        elif mode == 2 and valid_groups:
            g = valid_groups[int(rng.integers(0, len(valid_groups)))]
            case["cog"] = [[0, list(g[0][1])], [[0, list(m[1])] for m in g[1]]]
            name = "valid"
        else:
            case["cog"] = gen_cog_canon(rng, n)
            name = "consistent"
        steps = []
        for _ in range(int(rng.integers(2, 7))):
            r = int(rng.integers(0, 5))
            if r == 0:
                steps.append(["register"])
            elif r == 1:
                steps.append(["circuit"])
            else:
                o = int(rng.integers(0, 1 << int(rng.integers(1, 17))))
                form = ["int", "int", "bin", "hex", "bits"][int(rng.integers(0, 5))]
                steps.append(["outcome", outcome_in_form(o, form, int(rng.integers(1, 17)), rng)])
                w.count("reuse.outcome_form", form)
        case["steps"] = steps
        case = exec_reuse(case)
        before = case["cog_fields"]
        ri = case["impl"]
        if before is None or ri["errors"]:
            v = em.judged(case)
            em.forced(case, f"using the group failed: {ri['errors']}; oracle says violates={v['violates']}")
            return
        em.add("reuse", "chk_reuse",
               (coq_cog(before), [coq_cog(a) for a in ri["afters"]], [(Nc(own_outcome_int(o)), [Zc(x) for x in r]) for o, r, _ in ri["outs"]]),
               case, nontrivial=True)
        w.count("reuse.mode", name)
        w.count("reuse.measured_qubits", len(before[2]) or "dummy")

    for it in range(n_reuse):
        em.guard("reuse", one_reuse)

    # ---------------- physics ----------------
    def gen_physical_setting(n):
        nq = n if rng.integers(0, 2) else min(max_sim_n, n + int(rng.integers(0, 3)))
        omit = bool(rng.integers(0, 2))
        locs = list(range(nq))[:n] if (nq == n and omit) else [int(x) for x in rng.permutation(nq)[:n]]
        return nq, omit, locs

    def one_physics(it):
        n = int(rng.integers(1, max_sim_n + 1))
        nq, omit, locs = gen_physical_setting(n)
        cs, mode = gen_paulis(rng, n)
        ccase = exec_collection(dict(kind="collection", n=n, paulis=cs, form=["PauliList", "list"][int(rng.integers(0, 2))]))
        if not add_collection_case(ccase, "for-physics"):
            return
        groups = ccase["impl"][1]
        gi = int(rng.integers(0, len(groups)))
        cogc = [groups[gi][0], groups[gi][1]]
        cregs = [["qpd_measurements", int(rng.integers(0, 2))]] if rng.integers(0, 2) else []
        prep = gen_prep(rng, nq)
        nreset = 0
        if rng.integers(0, 3) == 0:  # the preparation ends with reset(s), preferably on measured qubits
            meas_q = [locs[k] for k in support(cogc[0][1])] or [locs[0]]
            pool = meas_q if rng.integers(0, 4) else list(range(nq))
            for q in [pool[i] for i in rng.permutation(len(pool))[: int(rng.integers(1, 3))]]:
                prep.append(["reset", [], [int(q)], []])
                nreset += 1
        case = exec_physics(dict(kind="physics", nq=nq, qregs=gen_qregs(rng, nq), locs=locs, omit_locs=omit,
                                 locs_form=["list", "tuple", "numpy"][int(rng.integers(0, 3))], inplace=bool(rng.integers(0, 4) == 0),
                                 cregs=cregs, prep=prep, cog=cogc))
        w.count("physics.final_resets", nreset)
        w.count("physics.measured_qubits", len(case["cog_fields"][2]) or "dummy")
        w.count("physics.nq", nq)
        if case["impl"][0] != "ok":
            v = em.judged(case)
            em.forced(case, f"measurement circuit could not be built: {case['impl']}; oracle says violates={v['violates']}")
            return
        law = own_law(case)
        case["law"] = [[b, Fraction(p).numerator, Fraction(p).denominator] for b, p in law]
        em.add("physics", "chk_physics",
               (coq_pauli(cogc[0]), coq_plist(cogc[1]), [(Nc(b), Qc(Fraction(p))) for b, p in law],
                [Qc(Fraction(e)) for e in case["sv_expect"]]),
               case, nontrivial=(len(case["cog_fields"][2]) > 0), key=it)

    for it in range(n_phys):
        em.guard("physics", lambda: one_physics(it))

    # ---------------- end to end ----------------
    def one_e2e(it):
        n = int(rng.integers(1, max_sim_n + 1))
        nq, omit, locs = gen_physical_setting(n)
        cs, mode = gen_paulis(rng, n)
        cs = cs[:12]
        prep = gen_prep(rng, nq)
        if rng.integers(0, 4) == 0:
            prep.append(["reset", [], [int(rng.integers(0, nq))], []])
        case = exec_e2e(dict(kind="e2e", n=n, nq=nq, qregs=gen_qregs(rng, nq), locs=locs, omit_locs=omit,
                             locs_form=["list", "tuple", "numpy"][int(rng.integers(0, 3))],
                             form=COLLECTION_FORMS[int(rng.integers(0, 5))],
                             outcome_form=["int", "bin", "hex", "bits"][int(rng.integers(0, 4))], prep=prep, paulis=cs))
        w.count("e2e.form", case["form"])
        w.count("e2e.outcome_form", case["outcome_form"])
        w.count("e2e.nq", nq)
        impl = case["impl"]
        if impl[0] != "ok" or case["unique"] is None or any(m[0] != "ok" or "sim_error" in m[1] for m in impl[1]["meas"]):
            v = em.judged(case)
            em.forced(case, f"end-to-end run incomplete: {str(impl)[:300]}; oracle says violates={v['violates']}")
            return
        laws = []
        for m in impl[1]["meas"]:
            laws.append([(Nc(wd), Qc(Fraction(p))) for wd, p in sim_register_law(
                sim_prepare(nq, [(o[0], o[1], o[2]) for o in prep]), nq, m[1]["suffix"], m[1]["reg_bits"])])
        em.add("e2e", "chk_e2e",
               (coq_plist(cs), coq_plist(case["unique"]), [coq_plist(g) for g in case["oracle_groups"]], laws,
                [Qc(Fraction(e)) for e in case["sv_expect"]]),
               case, nontrivial=True, key=it)

    for it in range(n_e2e):
        em.guard("e2e", lambda: one_e2e(it))

    # ---------------- generate_cutting_experiments on uncut circuits with resets ----------------
    def one_gce(it):
        if it < len(GCE_FIXED):
            base = GCE_FIXED[it]
            case = dict(kind="gce", nq=base["nq"], qregs=None, prep=[list(o) for o in base["prep"]], paulis=[list(p) for p in base["paulis"]])
            names = ["fixed"]
        else:
            nq = int(rng.integers(1, 5))
            prep, rq, names = gen_reset_prep(rng, nq)
            cs, _ = gen_paulis(rng, nq)
            cs = cs[:8]
            r = int(rng.integers(0, 4))
            if r == 0:  # every observable is identity on the reset qubits
                for p in cs:
                    for q in rq:
                        p[1][q] = 0
                names.append("identity-on-reset-qubits")
            elif r == 1:  # the reset qubits are measured
                for p in cs[: max(1, len(cs) // 2)]:
                    for q in rq:
                        p[1][q] = p[1][q] or int(rng.integers(1, 4))
            case = dict(kind="gce", nq=nq, qregs=gen_qregs(rng, nq), prep=prep, paulis=cs)
        case = exec_gce(case)
        for nm in names:
            w.count("gce.pattern", nm)
        w.count("gce.nq", case["nq"])
        w.count("gce.resets_in", sum(1 for o in case["prep"] if o[0] == "reset"))
        impl = case["impl"]
        usable = (impl[0] == "ok" and case["unique"] is not None and len(impl[1]["subexps"]) == len(impl[1]["groups"])
                  and all(sb["reg_bits"] is not None and "sim_error" not in sb and sb["nq"] == case["nq"] for sb in impl[1]["subexps"]))
        if not usable:
            v = em.judged(case)
            em.forced(case, f"generate_cutting_experiments result unusable: {str(impl)[:300]}; oracle says violates={v['violates']}")
            return
        w.count("gce.resets_out", sum(1 for sb in impl[1]["subexps"] for o in sb["ops"] if o[0] == "reset"))
        laws = [[(Nc(wd), Qc(Fraction(p))) for wd, p in sim_circuit_law(case["nq"], sb["ops"], sb["reg_bits"])] for sb in impl[1]["subexps"]]
        cs = case["paulis"]
        em.add("gce", "chk_e2e",
               (coq_plist(cs), coq_plist(case["unique"]), [coq_plist(g) for g in case["oracle_groups"]], laws,
                [Qc(Fraction(e)) for e in case["sv_expect"]]),
               case, nontrivial=True, key=("gce", it))

    for it in range(n_gce):
        em.guard("gce", lambda: one_gce(it))

    # ---------------- the two-qubit state-vector specification vs qiskit ----------------
    def one_born2(it):
        amps = [[int(rng.integers(-3, 4)), int(rng.integers(-3, 4))] for _ in range(4)]
        if rng.integers(0, 4) == 0:
            amps[int(rng.integers(0, 4))] = [0, 0]
        if all(a == 0 and b == 0 for a, b in amps):
            amps[0] = [1, 0]
        g = [it % 4, (it // 4) % 4]  # all 16 general observables in turn
        case = exec_born2(dict(kind="born2", amps=amps, g=g))
        r = case["impl"][1]
        st = Raw("(" + ", ".join(f"(({a})%Z, ({b})%Z)" for a, b in amps) + ")")
        em.add("born2", "chk_born2",
               (st, list(g), [(Nc(wd), Qc(Fraction(p))) for wd, p in r["law"]], [(list(m), Qc(Fraction(e))) for m, e in r["evs"]]),
               case, nontrivial=True, key=("born2", it))
        w.count("born2.g", "".join(LETTERS[l] for l in g))

    for it in range(n_born2):
        em.guard("born2", lambda: one_born2(it))

    w.notes.append(f"physics/e2e: max |decoded - expectation| over all members/observables = {em.max_dev:.3e}")
    w.notes.append(f"forced cases: {em.nforced}")

    return w.finish(
        rule="collection: Pauli lists on 1..6 qubits, 1..40 entries (dense, sparse, restrictions of few general observables, duplicates, "
        "all-identity, mutually anticommuting Majorana sets, weight<=1, mixtures; exactly-40 lists planted; PauliList / list / tuple / "
        "generator / set inputs; 1/12 with phases = malformed); unique/group_commuting results recorded from the actual call and fed to "
        "the model, contract monitored. mgo/cog: groups taken from those collections (shuffled, random phases) + random/incompatible/"
        "wrong-length/empty/num_qubits streams. meas_reg/meas_circ: small circuits (1-3 quantum registers, barriers, other classical "
        "registers, measurements), identity map or qubit_locations (permuted, repeated, window; list/tuple/numpy/range), refusal classes "
        "(count mismatch x2, missing register, wrong register size), out-of-range location and duplicate register crashes; the group is "
        "re-read after the call, the input circuit must be untouched (inplace=False) / the same object (inplace=True). reuse: a group is "
        "used 2..6 times (register / measurement circuit / _process_outcome on int, 0b, 0x and spaced bit-string outcomes < 2^16) and "
        "re-read after every step. physics: entangled random preparations (quick: 1..4 qubits, thorough: 1..6), one third ending with "
        "1-2 resets, suffix appended by the implementation, outcome law from the harness's own numpy simulator, expectation values from "
        "qiskit Statevector/DensityMatrix. e2e: collection -> every group -> suffix -> law -> implementation's _process_outcome on every "
        "word -> lookup -> expectation of every original observable. gce: uncut preparations on 1..4 qubits with resets (runs of 2-3, "
        "initial, final, mid-circuit, interleaved, followed only by two-qubit gates with the reset qubit as second operand; observables "
        "identity on / acting on the reset qubits; 4 hand-written shapes first) through generate_cutting_experiments(.., inf); every "
        "subexperiment (preparation + reset clean-up passes + suffix) simulated by the harness, decoded by _process_outcome + lookup, "
        "compared with Tr(rho P) of the original circuit. born2: random two-qubit states with Gaussian-integer amplitudes x all 16 general "
        "observables: the Coq state-vector specification (register law after H/SX rotations, all 16 Pauli expectations) vs qiskit's "
        "Statevector. judge runs on every generated case (contract "
        "judge_accepts_clean_case); flagged or impossible cases are duplicated as always-failing `forced` cases. distinct = distinct Coq "
        "case literal; non-trivial = successful call with >1 observable / non-empty measurement"
    )


# ----------------------------------------------------------------------------
# property-level oracle (independent of the Coq model)
# ----------------------------------------------------------------------------
def _key(p):
    return (p[0], tuple(p[1]))


def _judge_collection_result(cs, groups, lookup):
    """cover / compatibility / indices / masks for a built collection; returns problem or None"""
    lk = {}
    for p, locs in lookup:
        if _key(p) in lk:
            return f"lookup key {p} twice"
        lk[_key(p)] = locs
    for p in cs:  # cover
        locs = lk.get(_key(p))
        if not locs:
            return f"observable {p} has no lookup location"
        for i, j in locs:
            if not (i < len(groups) and j < len(groups[i][1]) and _key(groups[i][1][j]) == _key(p)):
                return f"lookup[{p}] names location ({i},{j}) which does not hold it"
    wanted = {_key(p) for p in cs}
    for gi, c in enumerate(groups):
        prob = check_cog_text(c)
        if prob:
            return f"group {gi}: {prob}"
        for j, m in enumerate(c[1]):  # every member is a requested observable and is recorded in the lookup
            if _key(m) not in wanted:
                return f"group {gi} contains {m} which was not requested"
            if [gi, j] not in [list(x) for x in lk.get(_key(m), [])]:
                return f"location ({gi},{j}) missing from lookup[{m}]"
    return None


def judge(case):
    k = case["kind"]
    if k == "harness_error":
        return dict(violates=False, detail=f"harness iteration raised in stream {case.get('stream')}: {case.get('error')}")
    impl = case["impl"]
    if k == "collection":
        cs = case["paulis"]
        if not cs:
            return dict(violates=False, detail="empty list: property silent")
        if any(p[0] != 0 for p in cs):
            return dict(violates=impl[0] == "ok", detail=f"list with phases answered with {impl[0]} (only phase-free lists are supported)")
        if impl[0] != "ok":
            return dict(violates=True, detail=f"phase-free Pauli list ({case.get('form')}) rejected: {impl}")
        prob = _judge_collection_result(cs, impl[1], impl[2])
        return dict(violates=prob is not None, detail=prob or "cover, compatibility, indices and masks as stated")
    if k == "mgo":
        group, nq = case["group"], case["nq"]
        if not group:
            return dict(violates=impl[0] != "refused", detail=f"empty sequence answered with {impl[0]}")
        n = nq if nq is not None else len(group[0][1])
        bad_len = any(len(p[1]) != n for p in group)
        incompatible = any(not qw_compatible(a[1], b[1]) for a in group for b in group if len(a[1]) == len(b[1]))
        if bad_len or incompatible:
            return dict(violates=impl[0] != "refused", detail=f"malformed group (bad_len={bad_len}, incompatible={incompatible}) answered with {impl[0]}")
        if impl[0] != "ok":
            return dict(violates=True, detail=f"compatible group rejected: {impl}")
        prob = check_cog_text([impl[1], [[0, p[1]] for p in group], support(impl[1][1]), _masks_text(impl[1][1], group)])
        return dict(violates=prob is not None, detail=prob or "every member is compatible with the general observable")
    if k == "cog":
        g, ms = case["general"], case["members"]
        if any(m[0] != 0 for m in ms) and all(len(m[1]) == len(g[1]) for m in ms):
            return dict(violates=impl[0] != "refused", detail=f"member with phase answered with {impl[0]}")
        if any(len(m[1]) != len(g[1]) for m in ms) or any(m[0] != 0 for m in ms):
            return dict(violates=False, detail="inconsistent widths: property silent")
        if impl[0] != "ok":
            return dict(violates=True, detail=f"phase-free group rejected: {impl}")
        idx, masks = impl[1]
        ok = idx == support(g[1]) and len(masks) == len(ms)
        for j, m in enumerate(ms):
            ok = ok and j < len(masks) and masks[j] == sum(1 << i for i, q in enumerate(idx) if m[1][q] != 0)
        return dict(violates=not ok, detail=f"indices {idx} masks {masks} for general {g} members {ms}")
    if k in ("meas_reg", "meas_circ", "physics") and "cog_after" in case:
        prob = _cog_changed(case["cog_fields"], case["cog_after"], "the call")
        if prob:
            return dict(violates=True, detail=prob)
    if k in ("meas_reg", "meas_circ"):
        if case.get("input_untouched") is False:
            return dict(violates=True, detail="inplace=False, but the caller's circuit was modified (or returned itself)")
        if case.get("same_object") is False:
            return dict(violates=True, detail="inplace=True, but a different circuit object was returned")
    if k == "reuse":
        before = case["cog_fields"]
        if before is None:
            return dict(violates=True, detail=f"the collection holding the group could not be built: {impl['errors']}")
        for st, after in zip(case["steps"], impl["afters"]):
            prob = _cog_changed(before, after, f"step {st}")
            if prob:
                return dict(violates=True, detail=prob)
        if impl["errors"]:
            return dict(violates=True, detail=f"using the group failed: {impl['errors']}")
        nbits = len(support(before[0][1])) or 1
        masks_txt = _masks_text(before[0][1], before[1])
        for o, r, pm1 in impl["outs"]:
            oi = own_outcome_int(o)
            qf = 1 - 2 * (bin(oi >> nbits).count("1") & 1)
            want = [qf * (1 - 2 * (bin(oi & ((1 << nbits) - 1) & m).count("1") & 1)) for m in masks_txt]
            if r != want or not pm1:
                return dict(violates=True, detail=f"_process_outcome({o!r}) = {r}, expected {want} for general {before[0]} members {before[1]}")
        return dict(violates=False, detail="group unchanged by use; outcomes decoded as stated")
    if k == "meas_reg":
        inp = case["input"]
        if any(f for f, _ in inp["cregs"]):
            return dict(violates=False, detail="register of that name already present: property silent")
        size = len(case["cog_fields"][2]) or 1
        if impl[0] != "ok":
            return dict(violates=True, detail=f"register step failed: {impl}")
        out = impl[1]
        ok = (out["nq"] == inp["nq"] and out["nc"] == inp["nc"] + size and out["cregs"][:-1] == inp["cregs"]
              and out["cregs"][-1] == [True, list(range(inp["nc"], inp["nc"] + size))] and out["data"] == inp["data"])
        return dict(violates=not ok, detail=f"expected a final register of {size} fresh bits; got cregs {out['cregs']}")
    if k == "meas_circ":
        return _judge_meas_circ(case)
    if k == "physics":
        return _judge_physics(case)
    if k == "e2e":
        return _judge_e2e(case)
    if k == "gce":
        return _judge_gce(case)
    if k == "born2":
        return _judge_born2(case)
    raise ValueError(k)


def _cog_changed(before, after, what):
    """The recorded fields must still be the freshly built ones and still describe where each member acts."""
    if after != before:
        diff = [n for n, a, b in zip(("general_observable", "commuting_observables", "pauli_indices", "pauli_bitmasks"), before, after) if a != b]
        return (f"the group's recorded {', '.join(diff)} changed after {what}: {[b for a, b in zip(before, after) if a != b]} "
                f"instead of {[a for a, b in zip(before, after) if a != b]} (general {before[0]}, members {before[1]})")
    if all(m[0] == 0 and len(m[1]) == len(after[0][1]) for m in after[1]):
        if after[2] != support(after[0][1]) or after[3] != _masks_text(after[0][1], after[1]):
            return f"after {what} the recorded indices/masks {after[2]}/{after[3]} do not describe general {after[0]} members {after[1]}"
    return None


def _masks_text(general_lets, group):
    idx = support(general_lets)
    return [sum(1 << i for i, q in enumerate(idx) if p[1][q] != 0) for p in group]


def _expected_suffix(g, pidx, locs, bits):
    out = []
    for clbit, sub in enumerate(pidx):
        q = locs[sub]
        if g[sub] == 1:
            out.append(["h", [q], []])
        elif g[sub] == 2:
            out.append(["sx", [q], []])
        out.append(["measure", [q], [bits[clbit]]])
    return out


def _judge_meas_circ(case):
    impl, inp = case["impl"], case["input"]
    g, idx = case["cog_fields"][0][1], case["cog_fields"][2]
    n = len(g)
    locs = case["locs"]
    pidx = idx or [0]
    if (locs is None and inp["nq"] != n) or (locs is not None and len(locs) != n):
        return dict(violates=impl[0] != "refused", detail=f"qubit count mismatch answered with {impl[0]}")
    regs = [b for f, b in inp["cregs"] if f]
    if not regs:
        return dict(violates=impl[0] != "refused", detail=f"missing register answered with {impl[0]}")
    if len(regs[0]) != len(pidx):
        return dict(violates=impl[0] != "refused", detail=f"register of wrong size answered with {impl[0]}")
    locs = locs if locs is not None else list(range(n))
    if any(locs[s] >= inp["nq"] for s in pidx):
        return dict(violates=impl[0] == "ok", detail=f"location outside the circuit answered with {impl[0]}")
    if impl[0] != "ok":
        return dict(violates=True, detail=f"well-formed request rejected: {impl}")
    out = impl[1]
    want = simple_data(inp) + _expected_suffix(g, pidx, locs, regs[0])
    ok = simple_data(out) == want and out["cregs"] == inp["cregs"] and out["nc"] == inp["nc"] and out["nq"] == inp["nq"]
    if ok or len(set(locs)) != len(locs) or simple_data(out)[: len(inp["data"])] != simple_data(inp):
        return dict(violates=not ok, detail=f"suffix {simple_data(out)[len(inp['data']):]} expected {want[len(inp['data']):]}")
    # a different suffix could still measure the right thing: decide by simulation on a fixed entangled state
    try:
        ph = dict(kind="physics", nq=inp["nq"], locs=locs, prep=_fixed_prep(inp["nq"]), cog=case["cog"], cog_fields=case["cog_fields"],
                  impl=["ok", dict(suffix=simple_data(out)[len(inp["data"]):], reg_bits=regs[0])])
        v = _judge_physics(ph)
        return dict(violates=v["violates"], detail="suffix differs from the documented one; simulation says: " + v["detail"])
    except ValueError as e:
        return dict(violates=True, detail=f"suffix differs from the documented one and cannot be simulated: {e}")


def _fixed_prep(nq):
    ops = []
    for q in range(nq):
        ops.append(["ry", [0.7 + 0.31 * q], [q], []])
        ops.append(["rz", [0.4 + 0.53 * q], [q], []])
    for q in range(nq - 1):
        ops.append(["cx", [], [q, q + 1], []])
        ops.append(["rx", [1.1 + 0.2 * q], [q + 1], []])
    return ops


def _judge_physics(case):
    impl = case["impl"]
    if impl[0] != "ok":
        return dict(violates=True, detail=f"measurement circuit could not be built: {impl}")
    nq, locs = case["nq"], case["locs"]
    psi = sim_prepare(nq, [(o[0], o[1], o[2]) for o in case["prep"]])
    try:
        law = sim_register_law(psi, nq, impl[1]["suffix"], impl[1]["reg_bits"])
    except ValueError as e:
        return dict(violates=True, detail=f"appended suffix {impl[1]['suffix']} is not a terminal measurement of distinct qubits: {e}")
    masks = case["cog_fields"][3]
    worst = 0.0
    for j, mem in enumerate(case["cog"][1]):
        want = sim_pauli_expectation(psi, nq, embed(mem[1], locs, nq))
        got = sum(p * (1 - 2 * (bin(b & masks[j]).count("1") & 1)) for b, p in law)
        dev = abs(want - got)
        if "sv_expect" in case:
            dev = max(dev, abs(case["sv_expect"][j] - got))
        worst = max(worst, dev)
        if dev > TOL:
            return dict(violates=True, max_dev=worst,
                        detail=f"member {mem}: decoded {got!r} from the measurement circuit, true expectation {want!r}"
                               f" (qiskit: {case.get('sv_expect', [None] * (j + 1))[j]!r}); suffix {impl[1]['suffix']} masks {masks}")
    if abs(sum(p for _, p in law) - 1) > TOL:
        return dict(violates=True, max_dev=worst, detail="outcome law not normalised")
    return dict(violates=False, max_dev=worst, detail=f"decoded expectation of every member within {worst:.2e}")


def _judge_e2e(case):
    impl, cs = case["impl"], case["paulis"]
    nq, locs = case["nq"], case["locs"]
    if impl[0] != "ok":
        return dict(violates=True, detail=f"phase-free Pauli list ({case.get('form')}) rejected: {impl}")
    r = impl[1]
    prob = _judge_collection_result(cs, r["groups"], r["lookup"])
    if prob:
        return dict(violates=True, detail=prob)
    if r["after"] != r["groups"]:
        return dict(violates=True, detail=f"groups changed by use: {r['after']} instead of {r['groups']}")
    psi = sim_prepare(nq, [(o[0], o[1], o[2]) for o in case["prep"]])
    decoded = []  # decoded[i][j]
    for gi, m in enumerate(r["meas"]):
        if m[0] != "ok":
            return dict(violates=True, detail=f"group {gi}: measurement circuit could not be built: {m}")
        try:
            law = sim_register_law(psi, nq, m[1]["suffix"], m[1]["reg_bits"])
        except ValueError as e:
            return dict(violates=True, detail=f"group {gi}: suffix {m[1]['suffix']} is not a terminal measurement of distinct qubits: {e}")
        proc = {wd: vals for wd, _o, vals in m[1]["proc"]}
        acc = [0.0] * len(r["groups"][gi][1])
        for wd, p in law:
            vals = proc.get(wd)
            if vals is None or len(vals) != len(acc) or any(not isinstance(x, float) or x not in (1.0, -1.0) for x in vals):
                return dict(violates=True, detail=f"group {gi}: _process_outcome on word {wd} gave {vals}")
            for j, x in enumerate(vals):
                acc[j] += p * x
        decoded.append(acc)
    lk = {_key(p): ls for p, ls in r["lookup"]}
    worst = 0.0
    for t, p in enumerate(cs):
        got = float(np.mean([decoded[i][j] for i, j in lk[_key(p)]]))
        want = sim_pauli_expectation(psi, nq, embed(p[1], locs, nq))
        dev = max(abs(got - want), abs(got - case["sv_expect"][t]))
        worst = max(worst, dev)
        if dev > TOL:
            return dict(violates=True, max_dev=worst,
                        detail=f"observable {p}: {got!r} decoded through lookup {lk[_key(p)]}, true expectation {want!r} (qiskit {case['sv_expect'][t]!r})")
    return dict(violates=False, max_dev=worst, detail=f"every observable's decoded expectation within {worst:.2e}")


def _judge_gce(case):
    impl, cs, nq = case["impl"], case["paulis"], case["nq"]
    if impl[0] != "ok":
        return dict(violates=True, detail=f"uncut circuit with a phase-free PauliList rejected: {impl}")
    r = impl[1]
    prob = _judge_collection_result(cs, r["groups"], r["lookup"])
    if prob:
        return dict(violates=True, detail=prob)
    if r["after"] != r["groups"]:
        return dict(violates=True, detail="groups changed by use")
    if len(r["subexps"]) != len(r["groups"]):
        return dict(violates=True, detail=f"{len(r['subexps'])} subexperiments for {len(r['groups'])} groups of an uncut circuit")
    if len(r["coeffs"]) != 1 or abs(r["coeffs"][0][0] - 1.0) > TOL:
        return dict(violates=True, detail=f"coefficients of an uncut circuit: {r['coeffs']}")
    rho = sim_prepare(nq, [(o[0], o[1], o[2]) for o in case["prep"]])  # the ORIGINAL circuit
    decoded = []
    for gi, sb in enumerate(r["subexps"]):
        if sb["reg_bits"] is None or sb["nq"] != nq:
            return dict(violates=True, detail=f"subexperiment {gi} has no observable_measurements register / wrong width")
        try:
            law = sim_circuit_law(nq, sb["ops"], sb["reg_bits"])
        except ValueError as e:
            return dict(violates=True, detail=f"subexperiment {gi} = {sb['ops']} is not preparation + terminal measurements: {e}")
        proc = {wd: vals for wd, vals in sb["proc"]}
        masks = r["groups"][gi][3]
        acc = [0.0] * len(masks)
        for wd, p in law:
            vals = proc.get(wd)
            if vals is None:  # the recorded decoder output does not cover this word: decode with the recorded masks
                vals = [float(1 - 2 * (bin(wd & mk).count("1") & 1)) for mk in masks]
            if len(vals) != len(acc) or any(not isinstance(x, float) or x not in (1.0, -1.0) for x in vals):
                return dict(violates=True, detail=f"group {gi}: _process_outcome on word {wd} gave {vals}")
            for j, x in enumerate(vals):
                acc[j] += p * x
        decoded.append(acc)
    lk = {_key(p): ls for p, ls in r["lookup"]}
    worst = 0.0
    for t, p in enumerate(cs):
        got = r["coeffs"][0][0] * float(np.mean([decoded[i][j] for i, j in lk[_key(p)]]))
        want = sim_pauli_expectation(rho, nq, p[1])
        dev = max(abs(got - want), abs(got - case["sv_expect"][t]))
        worst = max(worst, dev)
        if dev > TOL:
            i, j = lk[_key(p)][0]
            return dict(violates=True, max_dev=worst,
                        detail=f"observable {p}: {got!r} decoded from subexperiment {i} = {r['subexps'][i]['ops']}, but Tr(rho P) = {want!r} "
                               f"(qiskit {case['sv_expect'][t]!r}) for the input circuit {[[o[0], o[2]] for o in case['prep']]}")
    return dict(violates=False, max_dev=worst, detail=f"every observable's decoded expectation within {worst:.2e}")


def _judge_born2(case):
    """No implementation function of /repo is involved (qiskit's Statevector vs the Coq specification): the harness's own
    simulator must agree with qiskit here, otherwise the reference itself is in doubt."""
    amps, g = case["amps"], case["g"]
    vec = np.array([complex(a, b) for a, b in amps], dtype=complex)
    vec = vec / np.linalg.norm(vec)
    worst = 0.0
    for m, e in case["impl"][1]["evs"]:
        worst = max(worst, abs(sim_pauli_expectation([vec], 2, m) - e))
    rot = vec
    for q, l in enumerate(g):
        if l in (1, 2):
            rot = sim_apply1(rot, 2, _MATS["h" if l == 1 else "sx"], q)
    pidx = support(g) or [0]
    law = {}
    for b, p in enumerate(np.abs(rot) ** 2):
        wd = sum(((b >> q) & 1) << i for i, q in enumerate(pidx))
        law[wd] = law.get(wd, 0.0) + float(p)
    for wd, p in case["impl"][1]["law"]:
        worst = max(worst, abs(law.get(wd, 0.0) - p))
    return dict(violates=False, max_dev=worst,
                detail=("reference simulators agree" if worst <= TOL else f"qiskit and the harness simulator differ by {worst:.2e}")
                       + " (no implementation code involved)")


def rerun(case):
    k = case["kind"]
    if k == "harness_error":
        return case
    if k == "collection":
        if not case["paulis"]:
            return case
        if "form" not in case:
            case["form"] = "list" if case.get("aslist") else "PauliList"
        return exec_collection(case)
    if k == "mgo":
        return exec_mgo(case)
    if k == "cog":
        return exec_cog(case)
    if k in ("meas_reg", "meas_circ"):
        return exec_meas(case)
    if k == "reuse":
        return exec_reuse(case)
    if k == "physics":
        return exec_physics(case)
    if k == "e2e":
        return exec_e2e(case)
    if k == "gce":
        return exec_gce(case)
    if k == "born2":
        return exec_born2(case)
    raise ValueError(k)

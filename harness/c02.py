"""C02 correspondence: QPDBasis.from_instruction (qpd/decompositions.py) vs Model/Bases.v, and the
specifications of Common/Ptm.v (1-qubit PTMs, 2-qubit target unitaries, Move) vs Qiskit.

judge() is an independent numpy computation of the Pauli-transfer-matrix residual of the OBSERVED
basis against the channel of the instruction (QPDMeasure = P0.P0 - P1.P1, Reset as a channel)."""
from __future__ import annotations

import math
from fractions import Fraction

import numpy as np
from qiskit.circuit import Gate, Instruction, Parameter, Barrier, Measure
from qiskit.circuit.library import (
    XGate, YGate, ZGate, HGate, SGate, SdgGate, SXGate, SXdgGate, TGate, TdgGate, RXGate, RYGate, RZGate,
    PhaseGate, CXGate, CYGate, CZGate, CHGate, CSGate, CSdgGate, CSXGate, RXXGate, RYYGate, RZZGate, CRXGate,
    CRYGate, CRZGate, ECRGate, CPhaseGate, SwapGate, iSwapGate, DCXGate, RZXGate, XXPlusYYGate, XXMinusYYGate,
    CCXGate, UnitaryGate, CU3Gate, CUGate, RCCXGate, CU1Gate,
)
from qiskit.circuit import QuantumCircuit

import qiskit_addon_cutting.qpd.decompositions as D
from qiskit_addon_cutting.qpd import QPDBasis
from qiskit_addon_cutting.instructions import Move

from common import CaseWriter, Res, Raw, call_canon

IMPORTS = ("From Coq Require Import String QArith.\n"
           "From CKT Require Import Common.Base Common.PolyRing Common.Ptm Model.Bases Model.BasesDispatch Corr.C02Corr.\n"
           "Close Scope Q_scope. Open Scope string_scope.")
CASE_TYPES = {
    "chk_basis": "basis_case",
    "chk_unitary": "string * (Q * Q) * list (list (Q * Q))",
    "chk_op_ptm": "(nat * nat) * (Q * Q) * list (list Q)",
    "chk_unitary_h": "string * (Q * Q) * list (list (Q * Q))",
    "chk_move_ptm": "list (list Q)",
    "chk_thetavec": "list Q * list (Q * Q)",
}

OPCODE = {"x": 0, "y": 1, "z": 2, "h": 3, "s": 4, "sdg": 5, "sx": 6, "sxdg": 7, "t": 8, "tdg": 9,
          "rx": 10, "ry": 11, "rz": 12, "p": 13, "qpd_measure": 14, "reset": 15, "unitary": 16}
FAMILY_R = {"rxx": RXXGate, "ryy": RYYGate, "rzz": RZZGate}
FAMILY_C = {"crx": CRXGate, "cry": CRYGate, "crz": CRZGate, "cp": CPhaseGate}
FIXED = {"cx": CXGate, "cy": CYGate, "cz": CZGate, "ch": CHGate, "ecr": ECRGate, "cs": CSGate, "csdg": CSdgGate,
         "csx": CSXGate, "csxdg": lambda: CSXGate().inverse(), "swap": SwapGate, "iswap": iSwapGate, "dcx": DCXGate,
         "move": Move}
KAK_STD = {"rzx": RZXGate, "xx_plus_yy": XXPlusYYGate, "xx_minus_yy": XXMinusYYGate, "cu3": CU3Gate, "cu": CUGate}
PARAM_NAMES = list(FAMILY_R) + list(FAMILY_C)

# ------------------------------------------------------------------------------------------------
# recording wrapper around the Weyl decomposition the implementation calls (oracle O-KAK)
# ------------------------------------------------------------------------------------------------
_ORIG_WEYL = D.TwoQubitWeylDecomposition


class _Rec:
    last = None


def _weyl_wrap(*a, **k):
    d = _ORIG_WEYL(*a, **k)
    _Rec.last = d
    return d


D.TwoQubitWeylDecomposition = _weyl_wrap

# ------------------------------------------------------------------------------------------------
# numpy Pauli-transfer matrices (independent of the Coq model)
# ------------------------------------------------------------------------------------------------
S1 = [np.eye(2, dtype=complex), np.array([[0, 1], [1, 0]], dtype=complex),
      np.array([[0, -1j], [1j, 0]]), np.array([[1, 0], [0, -1]], dtype=complex)]
S2 = [np.kron(S1[a // 4], S1[a % 4]) for a in range(16)]      # little-endian: kron(q1, q0)
P0 = np.array([[1, 0], [0, 0]], dtype=complex)
P1 = np.array([[0, 0], [0, 1]], dtype=complex)
K01 = np.array([[0, 1], [0, 0]], dtype=complex)


def ptm_kraus(ks, paulis):
    """R[a,b] = re tr(P_a E(P_b)) / d,  E(X) = sum_k w_k K X K^dagger."""
    P = np.asarray(paulis)
    d = P.shape[1]
    E = sum(w * (K @ P @ K.conj().T) for w, K in ks)          # E[b] = E(P_b)
    return np.real(np.einsum("aij,bji->ab", P, E)) / d


def op_matrix(name, params, matrix):
    table = {"x": XGate, "y": YGate, "z": ZGate, "h": HGate, "s": SGate, "sdg": SdgGate, "sx": SXGate,
             "sxdg": SXdgGate, "t": TGate, "tdg": TdgGate, "rx": RXGate, "ry": RYGate, "rz": RZGate, "p": PhaseGate}
    if name == "unitary":
        return np.array([[complex(*z) for z in row] for row in matrix])
    return np.asarray(table[name](*params).to_matrix(), dtype=complex)


def op_kraus(name, params, matrix):
    if name == "qpd_measure":
        return [(1.0, P0), (-1.0, P1)]
    if name == "reset":
        return [(1.0, P0), (1.0, K01)]
    return [(1.0, op_matrix(name, params, matrix))]


_OP_CACHE = {}


def op_ptm(name, params, matrix):
    if matrix is not None:
        return ptm_kraus(op_kraus(name, params, matrix), S1)
    key = (name, tuple(params))
    if key not in _OP_CACHE:
        _OP_CACHE[key] = ptm_kraus(op_kraus(name, params, matrix), S1)
    return _OP_CACHE[key]


def seq_ptm(ops):
    R = np.eye(4)
    for name, params, matrix in ops:
        R = op_ptm(name, params, matrix) @ R
    return R


def basis_ptm(maps, coeffs):
    tot = np.zeros((16, 16))
    for (ops0, ops1), c in zip(maps, coeffs):
        tot = tot + c * np.kron(seq_ptm(ops1), seq_ptm(ops0))
    return tot


def unitary_ptm(U):
    return ptm_kraus([(1.0, np.asarray(U, dtype=complex))], S2)


def definition_ptm(inst):
    """PTM of a 2-qubit instruction from its definition circuit (reset + unitary gates): used for Move."""
    R = np.eye(16)
    qc = inst.definition
    for ci in qc.data:
        qs = [qc.find_bit(q).index for q in ci.qubits]
        if ci.operation.name == "reset":
            r1 = ptm_kraus([(1.0, P0), (1.0, K01)], S1)
            step = np.kron(r1, np.eye(4)) if qs == [1] else np.kron(np.eye(4), r1)
        else:
            U = np.asarray(ci.operation.to_matrix(), dtype=complex)
            if len(qs) == 1:
                U = np.kron(U, np.eye(2)) if qs == [1] else np.kron(np.eye(2), U)
            elif qs == [1, 0]:
                sw = SwapGate().to_matrix()
                U = sw @ U @ sw
            step = unitary_ptm(U)
        R = step @ R
    return R


XX, YY, ZZ = np.kron(S1[1], S1[1]), np.kron(S1[2], S1[2]), np.kron(S1[3], S1[3])


def weyl_unitary(a, b, c):
    I4 = np.eye(4)
    return ((math.cos(a) * I4 + 1j * math.sin(a) * XX) @ (math.cos(b) * I4 + 1j * math.sin(b) * YY)
            @ (math.cos(c) * I4 + 1j * math.sin(c) * ZZ))


def okak_distance(d, mat):
    U = np.kron(d.K1l, d.K1r) @ weyl_unitary(d.a, d.b, d.c) @ np.kron(d.K2l, d.K2r)
    inner = np.trace(U.conj().T @ mat)
    if abs(inner) < 1e-12:
        return 4.0
    return float(np.max(np.abs(mat - U * (inner / abs(inner)))))


# ------------------------------------------------------------------------------------------------
# gate specs  <->  gate objects
# ------------------------------------------------------------------------------------------------
def build_gate(spec):
    k = spec["ctor"]
    if k == "std":
        name = spec["name"]
        table = {**FAMILY_R, **FAMILY_C, **FIXED, **KAK_STD}
        if spec.get("label") and name != "csxdg":
            return table[name](*spec.get("params", []), label=spec["label"])
        return table[name](*spec.get("params", []))
    if k == "unbound":
        table = {**FAMILY_R, **FAMILY_C, **KAK_STD}
        n = len(spec.get("params", [])) + 1
        ps = [Parameter("p")] + list(spec.get("params", []))
        return table[spec["name"]](*ps)
    if k == "expr":   # bound ParameterExpression: float() works
        p = Parameter("p")
        table = {**FAMILY_R, **FAMILY_C}
        return table[spec["name"]]((p * 2).bind({p: spec["value"] / 2}))
    if k == "typed":   # family gate whose parameter is an int / numpy scalar
        conv = {"int": int, "float32": np.float32, "float64": np.float64, "int64": np.int64}[spec["type"]]
        table = {**FAMILY_R, **FAMILY_C}
        return table[spec["name"]](conv(spec["value"]))
    if k == "ctrl0":   # open-controlled variants: names cx_o0, crz_o0, ... -> KAK path
        table = {"cx": CXGate, "cz": CZGate, "crz": CRZGate, "crx": CRXGate, "cp": CPhaseGate, "ch": CHGate}
        return table[spec["name"]](*spec.get("params", []), ctrl_state=0)
    if k == "derived":
        wh = spec["which"]
        t = spec.get("t", 0.37)
        if wh == "composite":
            qc = QuantumCircuit(2, name="my_block")
            qc.h(0)
            qc.cx(0, 1)
            qc.rz(t, 1)
            return qc.to_gate()
        return {"iswap_dg": lambda: iSwapGate().inverse(), "rxx_inv": lambda: RXXGate(t).inverse(),
                "crz_inv": lambda: CRZGate(t).inverse(), "swap_sqrt": lambda: SwapGate().power(0.5),
                "cu1": lambda: CU1Gate(t), "dcx_inv": lambda: DCXGate().inverse(),
                "cx_pow": lambda: CXGate().power(0.3)}[wh]()
    if k == "impostor":   # carries a registered NAME without being that instruction: outside the property's quantifier
        wh = spec["which"]
        if wh == "cx_composite":
            qc = QuantumCircuit(2, name="cx")
            qc.h(0)
            return qc.to_gate()
        return {"cx3": lambda: Gate("cx", 3, []), "swap_inst": lambda: Instruction("swap", 2, 0, []),
                "move1": lambda: Gate("move", 1, []), "rzz_noparam": lambda: Gate("rzz", 2, []),
                "crx_noparam": lambda: Gate("crx", 2, [])}[wh]()
    if k == "unitary":
        return UnitaryGate(np.array([[complex(*z) for z in row] for row in spec["matrix"]]), check_input=False)
    if k == "special":
        w = spec["which"]
        return {"ccx": CCXGate, "h": HGate, "rccx": RCCXGate,
                "foo2": lambda: Instruction("foo", 2, 0, []),
                "opaque2": lambda: Gate("mygate", 2, []),
                "opaque2p": lambda: Gate("mygate", 2, [0.3]),
                "barrier2": lambda: Barrier(2),
                "measure": Measure,
                "gate3": lambda: Gate("g3", 3, []),
                "rz": lambda: RZGate(0.4)}[w]()
    raise ValueError(k)


def gate_flags(g):
    isg = isinstance(g, Gate)
    nq = int(g.num_qubits)
    pok = True
    if len(g.params) > 0:
        try:
            float(g.params[0])
        except Exception:  # noqa: BLE001
            pok = False
    mok = True
    try:
        m = g.to_matrix()
        if m is None:
            mok = False
    except Exception:  # noqa: BLE001
        mok = False
    return isg, nq, pok, mok, len(g.params) > 0


def gate_matrix(g):
    try:
        m = g.to_matrix()
        if m is not None:
            return np.asarray(m, dtype=complex)
    except Exception:  # noqa: BLE001
        pass
    from qiskit.quantum_info import Operator
    return np.asarray(Operator(g).data, dtype=complex)


def mat_json(m):
    return [[[float(np.real(z)), float(np.imag(z))] for z in row] for row in np.asarray(m)]


# ------------------------------------------------------------------------------------------------
# canonical form of an observed basis
# ------------------------------------------------------------------------------------------------
def angle_tags(param, th2):
    cands = {0: th2, 1: (None if th2 is None else -th2), 2: 0.5 * np.pi, 3: -0.5 * np.pi, 4: np.pi / 4, 5: -np.pi / 4}
    try:
        p = float(param)
    except Exception:  # noqa: BLE001
        return []
    return [k for k, v in cands.items() if v is not None and float(v) == p]


def canon_basis(basis, th2, d):
    ids = {}
    cells = []
    emaps = []
    jmaps = []
    for m in basis.maps:
        pair = []
        for side in (0, 1):
            lst = m[side]
            if id(lst) not in ids:
                ids[id(lst)] = len(ids)
                cell = []
                for op in lst:
                    code = OPCODE.get(op.name, 99)
                    if op.name in ("rx", "ry", "rz", "p"):
                        tags = angle_tags(op.params[0], th2)
                    elif op.name == "unitary":
                        M = np.asarray(op.to_matrix())
                        tags = [] if d is None else [k for k, Kk in enumerate((d.K2r, d.K1r, d.K2l, d.K1l)) if np.array_equal(M, Kk)]
                    else:
                        tags = []
                    cell.append((code, tags))
                cells.append(cell)
            pair.append(ids[id(lst)])
        emaps.append(tuple(pair))
        jmaps.append([[[op.name, [float(p) for p in op.params] if op.name != "unitary" else [],
                        mat_json(op.to_matrix()) if op.name == "unitary" else None] for op in m[s]] for s in (0, 1)])
    coeffs = [float(c) for c in basis.coeffs]
    return emaps, cells, coeffs, jmaps


_KAKN = [0]


def family_point(name, theta):
    """theta' (= theta_prime of the code), the float 2*theta' that rotation parameters must equal, cos/sin theta'."""
    ctrl = name in FAMILY_C
    thp = (theta / 4) if ctrl else (-theta / 2)
    return (theta / 2 if ctrl else None), (Fraction(math.cos(thp)), Fraction(math.sin(thp)))


def run_case(w, group, spec, th2=None, cs=None, exact=True, and_judge=True):
    """Run the implementation on build_gate(spec); write the Coq case and the JSON case.
    The independent PTM oracle (judge) is ANDed into every case."""
    g = build_gate(spec)
    isg, nq, pok, mok, hasp = gate_flags(g)
    name = g.name
    if cs is None:
        cs = (Fraction(1), Fraction(0))
        if name in PARAM_NAMES and hasp and pok:   # evaluation point from the gate's own float parameter
            th2, cs = family_point(name, float(g.params[0]))
    if name in PARAM_NAMES and hasp and pok and isg and nq == 2 and mok and group != "family-near-special":
        # specification of the gate's own matrix in the gate angle (Uh_* of Model/BasesDispatch.v), at EVERY angle
        th = float(g.params[0])
        w.add("unitary-h", "chk_unitary_h",
              (Raw(f'"{name}"'), (Fraction(math.cos(th / 2)), Fraction(math.sin(th / 2))),
               [[(Fraction(float(z.real)), Fraction(float(z.imag))) for z in row] for row in gate_matrix(g)]),
              dict(kind="unitary-h", name=name, theta=th))
    _Rec.last = None
    r = call_canon(QPDBasis.from_instruction, g)
    d = _Rec.last
    wl = []
    okak = True
    impl = dict(status=r[0])
    if r[0] == "ok":
        emaps, cells, coeffs, jmaps = canon_basis(r[1], th2, d)
        impl.update(maps=jmaps, coeffs=coeffs)
        if d is not None:
            mat = gate_matrix(g)
            dist = okak_distance(d, mat)
            okak = dist <= 1e-9
            w.contract("O-KAK: U ∝ (K1l⊗K1r)·exp(i(aXX+bYY+cZZ))·(K2l⊗K2r) within 1e-9", okak)
            impl.update(weyl=[float(d.a), float(d.b), float(d.c)], okak_distance=dist)
            wl = [Fraction(f(x)) for x in (d.a, d.b, d.c) for f in (math.cos, math.sin)]
            u = D._u_from_thetavec([d.a, d.b, d.c])
            w.add("thetavec", "chk_thetavec", (wl, [(Fraction(float(z.real)), Fraction(float(z.imag))) for z in u]),
                  dict(kind="thetavec", theta=[float(d.a), float(d.b), float(d.c)]))
        exp = Res("ok", (emaps, [[(c, t) for c, t in cell] for cell in cells], [Fraction(c) for c in coeffs]))
    else:
        impl.update(error=r[1])
        exp = Res(r[0])
    assert '"' not in name
    jcase = dict(kind="basis", gate=spec, name=name, flags=[isg, nq, pok, mok, hasp], th2=th2, impl=impl)
    if and_judge:
        # the independent oracle looks at EVERY case; a rejection is ANDed into the case, so it surfaces as a
        # model/implementation disagreement (and is then judged again by run.py) even where the model agrees
        v = judge(jcase)
        w.contract("judge_accepts_clean_case", not v["violates"])
        okak = okak and not v["violates"]
        impl["judge_detail"] = v["detail"]
        w.count("judge.verdict", "violates" if v["violates"] else ("accepts" if v["violates"] is False else "no-verdict"))
    coq_case = (Raw(f'"{name}"'), (isg, nq, pok, mok, hasp), (Fraction(cs[0]), Fraction(cs[1])), wl, okak, exp)
    if group.startswith("kak"):   # 58-term cases are the expensive ones for coqc: spread them over shards
        _KAKN[0] += 1
        group = f"{group}-{_KAKN[0] % 10}"
    w.add(group, "chk_basis", coq_case, jcase, nontrivial=(r[0] == "ok"))
    w.count("basis.outcome", r[0])
    w.count("basis.name", name if len(name) < 24 else "(long)")
    if r[0] == "ok":
        w.count("basis.nmaps", len(r[1].maps))
    return g, r


def rational_circle(t):
    t = Fraction(t)
    return (1 - t * t) / (1 + t * t), 2 * t / (1 + t * t)


def haar(rng, n):
    z = (rng.standard_normal((n, n)) + 1j * rng.standard_normal((n, n))) / math.sqrt(2)
    q, r = np.linalg.qr(z)
    ph = np.diag(r) / np.abs(np.diag(r))
    return q * ph


def generate(rng, tier, outdir):
    w = CaseWriter(outdir, IMPORTS, CASE_TYPES)
    quick = tier == "quick"
    TS = [Fraction(1, 2), Fraction(1, 3), Fraction(-2, 3), Fraction(3, 4), Fraction(5, 7), Fraction(1, 10),
          Fraction(-7, 3), Fraction(3), Fraction(1, 100), Fraction(12, 5), Fraction(-1, 8), Fraction(9, 40)]
    if not quick:
        TS += [Fraction(int(rng.integers(-60, 60)), int(rng.integers(1, 60))) for _ in range(60)]
    SPECIAL = [0.0, math.pi, -math.pi, math.pi / 2, -math.pi / 2, 2 * math.pi, -4 * math.pi, 6 * math.pi, 13.7, -29.1,
               4 * math.pi + 1e-3, 1e-8, -1e-12, 1e-300, 1e3, -1e6, 1e16, -1e16, float(2 ** 60), -0.0, 5e-324, math.pi / 3, math.pi / 7, math.pi / 11, 3 * math.pi / 2, -25.132741228718345]
    NEAR_DELTAS = [1e-2, -1e-2, 1e-3, -1e-3, 1e-4, -1e-4, 1e-6, -1e-6, 1e-9, -1e-9]
    if not quick:
        SPECIAL += [float(x) for x in rng.uniform(-8 * math.pi, 8 * math.pi, size=80)]

    # ---- the seven parameterised families ----
    for name in PARAM_NAMES:
        ctrl = name in FAMILY_C
        # exact stream: model evaluated at rational (cos θ', sin θ')
        for t in TS:
            c, s = rational_circle(t)
            thp = math.atan2(float(2 * t), float(1 - t * t))          # θ'
            theta = 4 * thp if ctrl else -2 * thp
            th2 = theta / 2 if ctrl else None
            spec = dict(ctor="std", name=name, params=[theta])
            g, r = run_case(w, "family-rational", spec, th2=th2, cs=(c, s))
            w.add("unitary", "chk_unitary", (Raw(f'"{name}"'), (c, s), [[(Fraction(float(z.real)), Fraction(float(z.imag))) for z in row] for row in gate_matrix(g)]),
                  dict(kind="unitary", gate=spec))
            w.count("family.stream", "rational")
        # tolerance stream: special angles
        for theta in SPECIAL:
            thp = (theta / 4) if ctrl else (-theta / 2)
            c, s = Fraction(math.cos(thp)), Fraction(math.sin(thp))
            spec = dict(ctor="std", name=name, params=[theta])
            run_case(w, "family-special", spec)
            w.count("family.stream", "special")
        # near-special stream: theta = k*pi/2 + delta (close to, not at, the special points)
        for k in range(-16, 17):
            for delta in NEAR_DELTAS:
                theta = k * (math.pi / 2) + delta
                spec = dict(ctor="std", name=name, params=[theta])
                run_case(w, "family-near-special", spec)
                w.count("family.stream", "near-special")
        # bound ParameterExpression, integer parameter, label
        run_case(w, "family-special", dict(ctor="expr", name=name, value=0.8))
        # parameter types and labels
        for ty, val in (("int", 3), ("int", -7), ("float32", float(np.float32(0.3))), ("float64", 1.25), ("int64", 2)):
            run_case(w, "family-special", dict(ctor="typed", name=name, type=ty, value=val))
            w.count("family.stream", "typed-parameter")
        run_case(w, "family-special", dict(ctor="std", name=name, params=[0.9], label="lbl"))
        # malformed: unbound parameter
        run_case(w, "malformed", dict(ctor="unbound", name=name))
        w.count("malformed.kind", "unbound-family")

    # ---- fixed gates and move ----
    for name in FIXED:
        th2 = {"cs": (np.pi / 2) / 2, "csx": (np.pi / 2) / 2, "csdg": (-np.pi / 2) / 2, "csxdg": (-np.pi / 2) / 2}.get(name)
        thp = None if th2 is None else th2 / 2
        cs = (Fraction(1), Fraction(0)) if thp is None else (Fraction(math.cos(thp)), Fraction(math.sin(thp)))
        for label in (None, "lbl"):
            spec = dict(ctor="std", name=name, label=label)
            g, r = run_case(w, "fixed", spec, th2=th2, cs=cs)
        if name != "move":
            w.add("unitary", "chk_unitary", (Raw(f'"{name}"'), cs, [[(Fraction(float(z.real)), Fraction(float(z.imag))) for z in row] for row in gate_matrix(g)]),
                  dict(kind="unitary", gate=spec))
    w.add("move-ptm", "chk_move_ptm", [[Fraction(float(x)) for x in row] for row in definition_ptm(Move())], dict(kind="move-ptm"))

    # ---- one-qubit specifications vs Qiskit ----
    for t in (Fraction(1, 2), Fraction(-7, 3)):
        c, s = rational_circle(t)
        thp = math.atan2(float(2 * t), float(1 - t * t))
        angle = {0: 2 * thp, 1: -2 * thp, 2: np.pi / 2, 3: -np.pi / 2, 4: np.pi / 4, 5: -np.pi / 4}
        for nm, code in OPCODE.items():
            if nm == "unitary":
                continue
            tags = range(6) if nm in ("rx", "ry", "rz", "p") else [0]
            for tg in tags:
                params = [angle[tg]] if nm in ("rx", "ry", "rz", "p") else []
                R = ptm_kraus(op_kraus(nm, params, None), S1)
                w.add("op-ptm", "chk_op_ptm", ((code, tg), (c, s), [[Fraction(float(x)) for x in row] for row in R]),
                      dict(kind="op-ptm", op=nm, params=params))

    # ---- KAK path ----
    def unitary_spec(U):
        return dict(ctor="unitary", matrix=mat_json(U))

    def locals_():
        return np.kron(haar(rng, 2), haar(rng, 2))

    n_haar = 12 if quick else 200
    for _ in range(n_haar):
        run_case(w, "kak", unitary_spec(haar(rng, 4)))
        w.count("kak.kind", "haar")
    for _ in range(4 if quick else 40):
        run_case(w, "kak", unitary_spec(locals_()))
        w.count("kak.kind", "local-product")
    run_case(w, "kak", unitary_spec(np.eye(4)))
    w.count("kak.kind", "identity")
    q = math.pi / 4
    corners = [(0, 0, 0), (q, 0, 0), (q, q, 0), (q, q, q), (q, q, -q), (q / 2, 0, 0), (q, q / 2, 0), (q, q, q / 2),
               (q / 2, q / 2, 0), (q / 2, q / 2, q / 2), (q / 2, q / 2, -q / 2), (q, q / 2, q / 2), (q, q / 2, -q / 2),
               (0.3, 0.2, 0.1), (0.3, 0.2, -0.1), (q, 0.4, 0.0), (0.5, 0.5, 0.2), (0.6, 0.3, 0.3)]
    for (a, b, c) in corners:
        for rep in range(1 if quick else 5):
            U = locals_() @ weyl_unitary(a, b, c) @ locals_()
            run_case(w, "kak", unitary_spec(U))
            w.count("kak.kind", "weyl-corner/edge conjugated")
    # near-special, graded: one Weyl coordinate of a special point moved by ±delta (a default-fidelity or
    # fidelity=1-1e-12 decomposition would snap these)
    graded_pts = corners[:5] + [corners[8], corners[11]] if quick else corners
    KAK_DELTAS = [1e-3, 1e-4, 1e-5, 1e-6, 1e-7, 1e-9]
    for pi_, pt in enumerate(graded_pts):
        for j in range(3):
            for di, dl in enumerate(KAK_DELTAS):
                signs = ((1,) if (pi_ + j + di) % 2 == 0 else (-1,)) if quick else (1, -1)
                for sg in signs:
                    q3 = list(pt)
                    q3[j] += sg * dl
                    U = locals_() @ weyl_unitary(*q3) @ locals_()
                    run_case(w, "kak-near-special", unitary_spec(U))
                    w.count("kak.kind", "near-special graded")
    # bare (unconjugated) special matrices and corners; Weyl coordinates outside the chamber
    for G in (CXGate, CZGate, SwapGate, iSwapGate, DCXGate, ECRGate, CHGate, CYGate):
        run_case(w, "kak", unitary_spec(gate_matrix(G())))
        w.count("kak.kind", "bare Clifford as UnitaryGate")
    for pt in corners[:9]:
        run_case(w, "kak", unitary_spec(weyl_unitary(*pt)))
        w.count("kak.kind", "bare weyl point")
    for pt in ((1.0, 0.2, 0.1), (-0.3, 0.2, 0.1), (0.2, 0.5, 0.1), (2.0, -1.5, 0.9), (q + 1e-6, q, 0), (0.1, 0.2, 0.3), (3 * q, q, q / 2)):
        run_case(w, "kak", unitary_spec(locals_() @ weyl_unitary(*pt) @ locals_()))
        run_case(w, "kak", unitary_spec(weyl_unitary(*pt)))
        w.count("kak.kind", "outside the chamber")
    # open-controlled variants of registered gates (names cx_o0 ...), inverses / powers, cu1
    for nm, ps in (("cx", []), ("cz", []), ("ch", []), ("crz", [0.8]), ("crx", [-2.2]), ("cp", [1.3]), ("cp", [math.pi + 1e-3])):
        run_case(w, "kak", dict(ctor="ctrl0", name=nm, params=ps))
        w.count("kak.kind", "open-controlled")
    for wh in ("swap_sqrt", "cu1", "rxx_inv", "crz_inv", "dcx_inv", "cx_pow", "iswap_dg", "composite"):
        grp = "kak" if wh not in ("rxx_inv", "crz_inv") else "family-special"
        run_case(w, grp, dict(ctor="derived", which=wh, t=0.37))
        w.count("kak.kind", "derived:" + wh)
    std_angles = [0.3, -1.1, math.pi / 2, math.pi, 2.5, 7e-5, -7e-5, 1e-5, 0.0]
    if not quick:
        std_angles += [float(x) for x in rng.uniform(-7, 7, size=40)]
    for th in std_angles:
        grp = "kak-near-special" if abs(th) < 1e-3 and th != 0.0 else "kak"
        run_case(w, grp, dict(ctor="std", name="rzx", params=[th]))
        for beta in (0.0, 0.7, -2.1):
            run_case(w, grp, dict(ctor="std", name="xx_plus_yy", params=[th, beta]))
            run_case(w, grp, dict(ctor="std", name="xx_minus_yy", params=[th, beta]))
        w.count("kak.kind", "rzx/xx_plus_yy/xx_minus_yy")
    run_case(w, "kak", dict(ctor="std", name="cu3", params=[0.4, 0.2, -0.9]))
    run_case(w, "kak", dict(ctor="std", name="cu", params=[0.4, 0.2, -0.9, 0.3]))

    # ---- malformed stream ----
    for which in ("ccx", "h", "rccx", "foo2", "opaque2", "opaque2p", "barrier2", "measure", "gate3", "rz"):
        run_case(w, "malformed", dict(ctor="special", which=which))
        w.count("malformed.kind", which)
    for nm, extra in (("rzx", []), ("xx_plus_yy", [0.2])):
        run_case(w, "malformed", dict(ctor="unbound", name=nm, params=extra))
        w.count("malformed.kind", "unbound-kak")
    # observation stream (outside the property's quantifier): instructions that merely carry a registered name.
    # The registry is keyed by name, in the source and in the model; the oracle stays silent on them.
    for wh in ("cx_composite", "cx3", "swap_inst", "move1", "rzz_noparam", "crx_noparam"):
        run_case(w, "name-collision", dict(ctor="impostor", which=wh))
        w.count("malformed.kind", "name-collision:" + wh)

    return w.finish(
        rule="all 20 registered names; 7 parameterised families x rational-circle angles (model evaluated exactly at rational "
             "cos/sin) + special angles (0, ±pi, 2pi k, |theta|>4pi, tiny) + near-special grid theta = k*pi/2 + delta, k=-16..16, "
             "delta in ±{1e-2,1e-3,1e-4,1e-6,1e-9} (independent PTM residual ANDed into the case) + bound ParameterExpression; fixed gates with/without "
             "label; KAK path: Haar-random, local products, identity, Weyl-chamber corners/edges conjugated by random locals, "
             "graded near-special points (one coordinate ±1e-3..1e-9), bare Cliffords/corners, coordinates outside the chamber, "
             "open-controlled gates, inverses/powers, rzx/xx_plus_yy/xx_minus_yy incl. 7e-5, cu3/cu/cu1; huge/typed/labelled "
             "family parameters; name-collision observation stream; the independent PTM oracle is ANDed into every case; malformed: 3-qubit/1-qubit gates, "
             "non-gate instructions, opaque gates, unbound parameters. Compared exactly: sharing structure (list identities), "
             "operation names, rotation-parameter tags, KAK local-unitary tags; coefficients within 1e-12. "
             "non-trivial = the implementation returned a basis")


# ------------------------------------------------------------------------------------------------
# property-level oracle
# ------------------------------------------------------------------------------------------------
REGISTERED = PARAM_NAMES + list(FIXED)


def decomposable(case):
    """'yes' / 'no' (must be refused) / 'outside' (the property is silent)."""
    spec = case["gate"]
    isg, nq, pok, mok = case["flags"][:4]
    if spec.get("ctor") == "impostor":
        return "outside"       # carries a registered name without being that instruction
    if case.get("name") in REGISTERED:
        if case["name"] in PARAM_NAMES and not pok:
            return "no"        # unbound parameter
        return "yes"
    return "yes" if (isg and nq == 2 and mok) else "no"


def judge(case):
    """Total: works from the JSON case alone; never raises."""
    try:
        return _judge(case)
    except Exception as e:  # noqa: BLE001
        return dict(violates=None, detail=f"oracle could not evaluate the case: {type(e).__name__}: {e}")


def _judge(case):
    k = case.get("kind")
    if k != "basis":
        return dict(violates=False, detail="specification-vs-Qiskit comparison; a disagreement means the Coq specification "
                                           "(Common/Ptm.v) is wrong, not the implementation")
    spec, impl = case["gate"], case["impl"]
    want = decomposable(case)
    if want == "outside":
        return dict(violates=False, detail="instruction merely carries a registered name: outside the property's quantifier "
                                           f"(answered with {impl['status']})")
    if want == "no":
        bad = impl["status"] != "refused"
        return dict(violates=bad, detail=f"undecomposable instruction answered with {impl['status']}: {impl.get('error', '')}")
    if impl["status"] != "ok":
        return dict(violates=True, detail=f"decomposable instruction answered with {impl['status']}: {impl.get('error', '')}")
    known = set(OPCODE)
    for m in impl["maps"]:
        for side in m:
            for op in side:
                if op[0] not in known:
                    return dict(violates=None, detail=f"basis contains an operation the oracle has no semantics for: {op[0]}")
    g = build_gate(spec)
    target = definition_ptm(g) if g.name == "move" else unitary_ptm(gate_matrix(g))
    maps = [(m[0], m[1]) for m in impl["maps"]]
    got = basis_ptm(maps, impl["coeffs"])
    res = float(np.max(np.abs(got - target)))
    return dict(violates=bool(res > 1e-9), detail=f"PTM residual {res:.3e} (tolerance 1e-9); okak_distance={impl.get('okak_distance')}")


def rerun(case):
    if case.get("kind") != "basis":
        return case
    g = build_gate(case["gate"])
    _Rec.last = None
    r = call_canon(QPDBasis.from_instruction, g)
    impl = dict(status=r[0])
    if r[0] == "ok":
        emaps, cells, coeffs, jmaps = canon_basis(r[1], case.get("th2"), _Rec.last)
        impl.update(maps=jmaps, coeffs=coeffs)
        if _Rec.last is not None:
            impl.update(okak_distance=okak_distance(_Rec.last, gate_matrix(g)))
    else:
        impl.update(error=r[1])
    case["impl"] = impl
    case["flags"] = list(gate_flags(g))
    case["name"] = g.name
    return case

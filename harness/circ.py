"""Canonical form of Qiskit circuits for the models built on Common/Circ.v.

Canonical instruction (JSON):  {"op": [...], "qs": [qubit indices], "cs": [clbit indices]}
  op forms:  ["gate", id, name, [params]]  ["barrier", lbl|null]  ["measure"]  ["reset"]
             ["cut_wire"]  ["move"]  ["qpd2", b, bid|null, lbl]  ["qpd1", b, half, bid|null, lbl]
             ["qpd_measure"]
  qpd label lbl: null | [base_id, suffix|null]
A CircCtx interns gates, barrier uuid labels, QPD bases (by QPDBasis.__eq__) and label bases per case,
so that ids are comparable between the input and the output of one call.
"""
from __future__ import annotations

from fractions import Fraction

import numpy as np
from qiskit.circuit import QuantumCircuit, CircuitInstruction, Barrier, Measure, Reset, Qubit, Clbit
from qiskit.circuit.library import UnitaryGate

from qiskit_addon_cutting.instructions import CutWire, Move
from qiskit_addon_cutting.qpd import QPDBasis, TwoQubitQPDGate, SingleQubitQPDGate
from qiskit_addon_cutting.qpd.instructions import QPDMeasure

from common import Raw, Interner, coq


def _param_key(p):
    if isinstance(p, (int, float, np.floating, np.integer)):
        f = float(p)
        if f != f or f in (float("inf"), float("-inf")):
            return ("f", repr(f))
        fr = Fraction(f)
        return ("f", fr.numerator, fr.denominator)
    if isinstance(p, np.ndarray):
        return ("m", p.shape, p.tobytes())
    return ("r", repr(p))


class CircCtx:
    def __init__(self):
        self.gates = Interner()
        self.gate_info = {}
        self.uuids = Interner()
        self.bases = []  # list of QPDBasis objects, handle = index (interned by ==)
        self.lbases = Interner()

    # ---- gates ----
    def gate_id(self, op):
        key = (op.name, op.num_qubits, tuple(_param_key(p) for p in op.params), type(op).__name__)
        g = self.gates(key)
        if g not in self.gate_info:
            params = []
            for p in op.params:
                try:
                    params.append(float(p))
                except Exception:  # noqa: BLE001
                    params.append(repr(p)[:40])
            self.gate_info[g] = (op.name, params)
        return g

    # ---- bases ----
    def basis_id(self, basis):
        for i, b in enumerate(self.bases):
            if b is basis:
                return i
        for i, b in enumerate(self.bases):
            try:
                if b == basis:
                    return i
            except Exception:  # noqa: BLE001
                pass
        self.bases.append(basis)
        return len(self.bases) - 1

    def bop(self, op):
        if isinstance(op, QPDMeasure) or op.name == "qpd_measure":
            return ["m"]
        if isinstance(op, Reset) or op.name == "reset":
            return ["r"]
        return ["g", self.gate_id(op)]

    def canon_basis(self, basis):
        return [[[self.bop(o) for o in m[0]], [self.bop(o) for o in (m[1] if len(m) > 1 else [])]] for m in basis.maps]

    def canon_benv(self):
        # note: canon_basis may intern further gates; iterate by index
        out = []
        i = 0
        while i < len(self.bases):
            out.append(self.canon_basis(self.bases[i]))
            i += 1
        return out

    # ---- labels ----
    def qlabel(self, label):
        if label is None:
            return None
        parts = str(label).split("_")
        try:
            suf = int(parts[-1])
            if suf < 0 or not parts[-1].strip().lstrip("+").isdigit():
                suf = None
        except ValueError:
            suf = None
        base = "_".join(parts[:-1]) if suf is not None else str(label)
        return [self.lbases(base), suf]

    # ---- instructions ----
    def canon_op(self, op):
        n = op.name
        if isinstance(op, TwoQubitQPDGate):
            return ["qpd2", self.basis_id(op.basis), op.basis_id, self.qlabel(op.label)]
        if isinstance(op, SingleQubitQPDGate):
            return ["qpd1", self.basis_id(op.basis), op.qubit_id, op.basis_id, self.qlabel(op.label)]
        if n == "qpd_measure":
            return ["qpd_measure"]
        if n == "barrier":
            lbl = op.label
            if lbl is not None and str(lbl).startswith("_uuid="):
                return ["barrier", self.uuids(lbl)]
            return ["barrier", None]
        if n == "measure":
            return ["measure"]
        if n == "reset":
            return ["reset"]
        if n == "cut_wire":
            return ["cut_wire"]
        if n == "move":
            return ["move"]
        g = self.gate_id(op)
        name, params = self.gate_info[g]
        return ["gate", g, name, params]

    def canon_circuit(self, qc: QuantumCircuit):
        out = []
        for inst in qc.data:
            out.append(dict(op=self.canon_op(inst.operation),
                            qs=[qc.find_bit(q).index for q in inst.qubits],
                            cs=[qc.find_bit(c).index for c in inst.clbits]))
        return out


def coq_opt(v):
    return "None" if v is None else f"(Some {v})"


def coq_qlabel(l):
    if l is None:
        return "None"
    return f"(Some ({l[0]}, {coq_opt(l[1])}))"


def coq_op(op):
    k = op[0]
    if k == "gate":
        return f"(Gate {op[1]})"
    if k == "barrier":
        return f"(Barrier {coq_opt(op[1])})"
    if k == "measure":
        return "Measure"
    if k == "reset":
        return "Reset"
    if k == "cut_wire":
        return "CutWire"
    if k == "move":
        return "Move"
    if k == "qpd2":
        return f"(Qpd2 {op[1]} {coq_opt(op[2])} {coq_qlabel(op[3])})"
    if k == "qpd1":
        return f"(Qpd1 {op[1]} {op[2]} {coq_opt(op[3])} {coq_qlabel(op[4])})"
    if k == "qpd_measure":
        return "QpdMeasure"
    raise ValueError(op)


def coq_instr(d):
    return Raw(f"(mkI {coq_op(d['op'])} {coq(list(d['qs']))} {coq(list(d['cs']))})")


def coq_circ(c):
    return [coq_instr(d) for d in c]


def coq_bop(b):
    return Raw({"m": "BMeas", "r": "BReset"}.get(b[0]) or f"(BGate {b[1]})")


def coq_basis(b):
    return [([coq_bop(o) for o in m[0]], [coq_bop(o) for o in m[1]]) for m in b]


def coq_benv(env):
    return [coq_basis(b) for b in env]


def circuit_registers(qc):
    return dict(nq=qc.num_qubits, nc=qc.num_clbits,
                qregs=[[r.name, r.size] for r in qc.qregs],
                cregs=[[r.name, [qc.find_bit(c).index for c in r]] for r in qc.cregs])

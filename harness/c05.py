"""C05 correspondence: generate_cutting_experiments (+ _get_mapping_ids_by_partition, _get_bases_by_partition, _get_bases)
vs  Model/Experiments.v.

A case is one call generate_cutting_experiments(circuits, observables, num_samples) under a numpy seed.
The harness
  1. builds the problem from a JSON description `desc` (random circuit -> partition_problem / cut_wires /
     partition_circuit_qubits / cut_gates, optional mutations for the malformed stream),
  2. seeds numpy, calls the implementation, canonicalises every returned circuit and coefficient,
  3. re-seeds identically and calls generate_qpd_weights(bases, N) to READ the weights dictionary that was drawn
     (bases are collected by the harness' own code; randomness itself is property C04's business),
  4. asks the real ObservableCollection for the commuting groups of every partition (C11's business),
  5. writes inputs + oracle results + canonical output as one Coq literal for Corr/C05Corr.v.
Groups (-> Coq checker):
  generate      chk_generate      every circuit instruction-by-instruction, register layout, coefficient types exactly,
                                  coefficient values within the case's tolerance (0 when all float operations are exact)
  generate_f2   chk_generate_f2   cases in which a group measures nothing and a reset may precede the placeholder
                                  measurement (defect F2, property C19): both the repaired and the unrepaired output accepted
  malformed     chk_generate      refusals / crashes in source order
`judge` is independent of the Coq model: it rebuilds every expected sub-experiment by direct splice of basis.maps and
re-derives the coefficient contract from the weights, straight from the property text.
"""
from __future__ import annotations

import json
import math
from fractions import Fraction

import numpy as np
from qiskit.circuit import QuantumCircuit, ClassicalRegister, CircuitInstruction, Barrier
from qiskit.circuit.library import (HGate, SXGate, XGate, SGate, SdgGate, TGate, RXGate, RYGate, RZGate, CXGate, CZGate,
                                    SwapGate, RZZGate, iSwapGate)
from qiskit.quantum_info import Pauli, PauliList

from qiskit_addon_cutting import partition_problem, generate_cutting_experiments, cut_wires, expand_observables
from qiskit_addon_cutting.cutting_decomposition import partition_circuit_qubits, cut_gates, decompose_observables
from qiskit_addon_cutting.instructions import CutWire, Move
from qiskit_addon_cutting.qpd import TwoQubitQPDGate, SingleQubitQPDGate, generate_qpd_weights, WeightType
from qiskit_addon_cutting.utils.observable_grouping import ObservableCollection
import qiskit_addon_cutting.cutting_experiments as CE

from common import CaseWriter, Res, Raw, Qc, Interner, call_canon, coq, tagged, untag
from circ import CircCtx, coq_circ, coq_benv

IMPORTS = ("From Coq Require Import QArith.\n"
           "From CKT Require Import Common.Base Common.Circ Model.Measurement Model.Experiments Corr.C05Corr.\n"
           "Close Scope Q_scope.")
CASE_TYPES = {"chk_generate": "c05_case", "chk_generate_f2": "c05_case"}
OBS_NAME = "observable_measurements"
QPD_NAME = "qpd_measurements"
LET = {(False, False): 0, (True, False): 1, (True, True): 2, (False, True): 3}

G1 = {"h": HGate, "x": XGate, "s": SGate, "sdg": SdgGate, "t": TGate, "sx": SXGate, "rx": RXGate, "ry": RYGate, "rz": RZGate}
G2 = {"cx": CXGate, "cz": CZGate, "swap": SwapGate, "rzz": RZZGate, "iswap": iSwapGate}
NPAR = {"rx": 1, "ry": 1, "rz": 1, "rzz": 1}
ANGLES = [Fraction(1, 2), Fraction(3, 4), Fraction(-1, 4), Fraction(5, 8), Fraction(1, 8), Fraction(-3, 2)]
LABEL_SETS = [["A", "B", "C", "D"], [0, 1, 2, 3], ["foo", 7, "x", -1], [10, "10", "b", 2]]
NMAPS = {"cx": 6, "cz": 6, "rzz": 6, "swap": 36, "iswap": 36, "move": 8}


def fr(x):
    f = Fraction(x)
    return [f.numerator, f.denominator]


def unfr(p):
    return p[0] / p[1]


def mk_gate(name, params):
    if name == "move":
        return Move()
    cls = G1.get(name) or G2[name]
    return cls(*[unfr(p) for p in params])


# ------------------------------------------------------------------------------------------------
# building a problem from its description
# ------------------------------------------------------------------------------------------------
def base_circuit(desc):
    qc = QuantumCircuit(desc["nq"])
    for it in desc["items"]:
        k = it[0]
        if k == "g":
            qc.append(mk_gate(it[1], it[2]), it[3])
        elif k == "cutwire":
            qc.append(CutWire(), [it[1]])
        elif k == "qpd2":
            qc.append(TwoQubitQPDGate.from_instruction(mk_gate(it[1], it[2])), it[3])
        elif k == "reset":
            qc.reset(it[1])
        elif k == "barrier":
            qc.barrier(*it[1])
        else:
            raise ValueError(it)
    return qc


def mk_obs(strings):
    return PauliList([Pauli(s) for s in strings])


def apply_mutations(desc, circuits, observables):
    """Malformed / special streams: deterministic edits of the arguments (described in desc['mut'])."""
    for m in desc.get("mut") or []:
        k = m[0]
        if k == "obs_as_paulilist":          # dict circuits, PauliList observables
            observables = mk_obs(m[1])
        elif k == "obs_as_dict":             # single circuit, dict observables
            observables = {"A": observables}
        elif k == "obs_as_list":
            observables = [str(p) for p in observables] if isinstance(observables, PauliList) else list(observables.items())
        elif k == "circ_as_list":
            circuits = list(circuits.values()) if isinstance(circuits, dict) else [circuits]
        elif k == "relabel":                 # ["relabel", _, gate_ordinal, new_label|null]: in the first partition that has placeholders
            keys = [kk for kk, c in circuits.items() if any(isinstance(i.operation, SingleQubitQPDGate) for i in c.data)]
            if not keys:
                raise ValueError("no placeholder to relabel")
            key = keys[0]
            qc = circuits[key].copy()
            cnt = 0
            for i, inst in enumerate(qc.data):
                if isinstance(inst.operation, SingleQubitQPDGate):
                    if cnt == m[2]:
                        op = inst.operation
                        new = SingleQubitQPDGate(op.basis, op.qubit_id, basis_id=op.basis_id, label=m[3])
                        if m[3] is None:
                            new.label = None
                        qc.data[i] = CircuitInstruction(new, inst.qubits, inst.clbits)
                    cnt += 1
            circuits = dict(circuits)
            circuits[key] = qc
        elif k == "shift_ids":               # every cut id k -> k + d (non-contiguous ids)
            new = {}
            for key, c in circuits.items():
                qc = c.copy()
                for i, inst in enumerate(qc.data):
                    if isinstance(inst.operation, SingleQubitQPDGate):
                        op = inst.operation
                        parts = op.label.split("_")
                        lab = "_".join(parts[:-1] + [str(int(parts[-1]) + m[1])])
                        qc.data[i] = CircuitInstruction(SingleQubitQPDGate(op.basis, op.qubit_id, basis_id=op.basis_id, label=lab),
                                                        inst.qubits, inst.clbits)
                new[key] = qc
            circuits = new
        elif k == "drop_obs_label":
            observables = dict(observables)
            observables.pop(list(observables.keys())[m[1]])
        elif k == "extra_obs_label":
            observables = dict(observables)
            observables["__extra__"] = mk_obs(["Z"])
        elif k == "reverse_obs_dict":        # observables dict in another order than the circuits dict
            observables = dict(reversed(list(observables.items())))
        elif k == "phase":                   # a sub-observable with phase -1 / i
            observables = dict(observables)
            key = list(observables.keys())[m[1]]
            pl = observables[key].copy()
            ph = np.array(pl.phase)
            ph[0] = m[2]
            pl.phase = ph
            observables[key] = pl
        elif k == "wrong_width":             # observable on one qubit too many
            if isinstance(observables, dict):
                observables = dict(observables)
                key = list(observables.keys())[m[1]]
                observables[key] = mk_obs(["I" + str(p) for p in observables[key]])
            else:
                observables = mk_obs(["I" + str(p) for p in observables])
        elif k == "split_2q":                # unseparated circuit with one-qubit placeholders
            circuits = circuits.decompose(TwoQubitQPDGate)
        elif k == "qpd2_in_sep":             # a two-qubit placeholder inside a subcircuit
            circuits = dict(circuits)
            key = list(circuits.keys())[m[1]]
            qc = circuits[key].copy()
            if qc.num_qubits >= 2:
                qc.append(TwoQubitQPDGate.from_instruction(CXGate()), [0, 1])
            circuits[key] = qc
        elif k == "clbits":                  # pre-existing classical bits (+ a measurement into them)
            def addc(qc):
                qc = qc.copy()
                qc.add_register(ClassicalRegister(m[2], "pre"))
                qc.measure(0, m[2] - 1)
                return qc
            if isinstance(circuits, dict):
                circuits = dict(circuits)
                key = list(circuits.keys())[m[1]]
                circuits[key] = addc(circuits[key])
            else:
                circuits = addc(circuits)
        elif k == "obs_reg_exists":
            circuits = dict(circuits)
            key = list(circuits.keys())[m[1]]
            qc = circuits[key].copy()
            qc.add_register(ClassicalRegister(1, OBS_NAME))
            circuits[key] = qc
        elif k == "read_definition":         # history: every placeholder's .definition is read (and the circuit drawn) before the call
            cs_ = circuits.values() if isinstance(circuits, dict) else [circuits]
            for c in cs_:
                for inst in c.data:
                    if isinstance(inst.operation, (SingleQubitQPDGate, TwoQubitQPDGate)):
                        try:
                            _ = inst.operation.definition
                        except Exception:  # noqa: BLE001
                            pass
                c.depth()
                c.count_ops()
        elif k == "call_before":             # history: the same objects went through a generation already (other seed, other budget)
            st = np.random.get_state()
            np.random.seed(m[1])
            try:
                generate_cutting_experiments(circuits, observables, m[2])
            except Exception:  # noqa: BLE001
                pass
            np.random.set_state(st)
        elif k == "alias":                   # the SAME circuit object under a second label (observables copied too)
            key = list(circuits.keys())[m[1]]
            circuits = dict(circuits)
            observables = dict(observables)
            circuits["__alias__"] = circuits[key]
            observables["__alias__"] = observables[key]
        elif k == "fancy_suffix":            # cut ids written as "+k", "0k", " k": int() accepts them
            new = {}
            for key, c in circuits.items():
                qc = c.copy()
                for i, inst in enumerate(qc.data):
                    if isinstance(inst.operation, SingleQubitQPDGate):
                        op = inst.operation
                        parts = op.label.split("_")
                        kk = int(parts[-1])
                        lab = "_".join(parts[:-1] + [["+%d", "0%d", " %d", "%d "][m[1] % 4] % kk])
                        qc.data[i] = CircuitInstruction(SingleQubitQPDGate(op.basis, op.qubit_id, basis_id=op.basis_id, label=lab),
                                                        inst.qubits, inst.clbits)
                new[key] = qc
            circuits = new
        elif k == "append_reset":            # trailing reset on qubit q of a partition (re-use style)
            circuits = dict(circuits)
            key = list(circuits.keys())[m[1]]
            qc = circuits[key].copy()
            qc.reset(min(m[2], qc.num_qubits - 1))
            circuits[key] = qc
        else:
            raise ValueError(m)
    return circuits, observables


def build_problem(desc):
    qc = base_circuit(desc)
    obs = mk_obs(desc["obs"])
    labels = None if desc.get("labels") is None else [untag(t) for t in desc["labels"]]
    route = desc["route"]
    if route in ("wire", "wire_unsep"):
        qw = cut_wires(qc)
        obs = expand_observables(obs, qc, qw)
        qc = qw
    if route in ("pp", "wire"):
        pp = partition_problem(qc, labels, obs)
        circuits, observables = pp.subcircuits, pp.subobservables
    elif route == "pcq":
        circuits, observables = partition_circuit_qubits(qc, labels), obs
    elif route == "cg":
        circuits, observables = cut_gates(qc, desc["gate_ids"])[0], obs
    elif route in ("wire_unsep", "raw"):
        circuits, observables = qc, obs
    else:
        raise ValueError(route)
    return apply_mutations(desc, circuits, observables)


def parse_N(n):
    if n == "inf":
        return math.inf
    if n == "-inf":
        return -math.inf
    if n == "nan":
        return math.nan
    v = Fraction(n[0], n[1])
    kind = n[2] if len(n) > 2 else None
    if kind == "float":
        return float(v)
    if kind == "np.int64":
        return np.int64(int(v))
    if kind == "np.float64":
        return np.float64(float(v))
    if kind == "bool":
        return True
    return int(v) if v.denominator == 1 else float(v)


# ------------------------------------------------------------------------------------------------
# canonical forms
# ------------------------------------------------------------------------------------------------
def canon_mc(ctx, qc):
    return dict(nq=qc.num_qubits, nc=qc.num_clbits,
                cregs=[[r.name, [qc.find_bit(c).index for c in r]] for r in qc.cregs],
                data=ctx.canon_circuit(qc))


def coq_mc(m):
    regs = [(r[0] == OBS_NAME, list(r[1])) for r in m["cregs"]]
    return Raw(f"(MC {m['nq']} {m['nc']} {coq(regs)} {coq(coq_circ(m['data']))})")


def canon_groups(so):
    """ObservableCollection(so).groups -> ['ok', [[letters, pauli_indices]...]] | ['refused'] | ['crashed']"""
    try:
        oc = ObservableCollection(so)
    except ValueError:
        return ["refused"]
    except Exception:  # noqa: BLE001
        return ["crashed"]
    out = []
    for g in oc.groups:
        go = g.general_observable
        out.append([[LET[(bool(a), bool(b))] for a, b in zip(go.x, go.z)], [int(i) for i in g.pauli_indices]])
    return ["ok", out]


def coq_groups(g):
    if g[0] != "ok":
        return Res(g[0])
    return Res("ok", [Raw(f"(OG {coq(list(x[0]))} {coq(list(x[1]))})") for x in g[1]])


def coq_N(n):
    if n == "inf":
        return Raw("PInf")
    if n == "-inf":
        return Raw("NInf")
    if n == "nan":
        return Raw("NaN")
    return Raw(f"(Fin {coq(Qc(Fraction(n[0], n[1])))})")


def wt(t):
    return "E" if t == WeightType.EXACT or t == "E" else "S'"


def harness_bases(circuits):
    """The list `bases` of the call, collected by the harness' own code (None if the request is malformed)."""
    try:
        if isinstance(circuits, QuantumCircuit):
            out = []
            for inst in circuits.data:
                if isinstance(inst.operation, SingleQubitQPDGate):
                    return None
                if isinstance(inst.operation, TwoQubitQPDGate):
                    out.append(inst.operation.basis)
            return out
        if isinstance(circuits, dict):
            d = {}
            for c in circuits.values():
                for inst in c.data:
                    if isinstance(inst.operation, SingleQubitQPDGate):
                        d[int(inst.operation.label.split("_")[-1])] = inst.operation.basis
            return [d[k] for k in sorted(d)]
    except Exception:  # noqa: BLE001
        return None
    return None


def dyadic(fr_, maxbits):
    d = fr_.denominator
    return d & (d - 1) == 0 and d <= (1 << maxbits) and abs(fr_.numerator) < (1 << 40)


# ------------------------------------------------------------------------------------------------
# one case
# ------------------------------------------------------------------------------------------------
def run_desc(desc):
    """Execute the implementation on `desc`; return (coq_case, json_case, info)."""
    circuits, observables = build_problem(desc)
    N = parse_N(desc["N"])
    seed = desc["seed"]
    ctx = CircCtx()
    gh, gsx = ctx.gate_id(HGate()), ctx.gate_id(SXGate())
    lab = Interner()

    # ---- canonical inputs (before the call) ----
    if isinstance(circuits, QuantumCircuit):
        cin = ["single", canon_mc(ctx, circuits)]
        coq_circuits = Raw(f"(CSingle {coq(coq_mc(cin[1]))})")
    elif isinstance(circuits, dict):
        cin = ["dict", [[tagged(k), lab(k), canon_mc(ctx, v)] for k, v in circuits.items()]]
        coq_circuits = Raw(f"(CDict {coq([(e[1], coq_mc(e[2])) for e in cin[1]])})")
    else:
        cin = ["other"]
        coq_circuits = Raw("COther")
    if isinstance(observables, PauliList):
        try:
            n = len(observables[0])
            so = decompose_observables(observables, "A" * n)["A"]
            g = canon_groups(so)
        except ValueError:
            g = ["refused"]
        except Exception:  # noqa: BLE001
            g = ["crashed"]
        oin = ["paulis", g]
        coq_obs = Raw(f"(OPaulis {coq(coq_groups(g))})")
    elif isinstance(observables, dict):
        oin = ["dict", [[tagged(k), lab(k), canon_groups(v)] for k, v in observables.items()]]
        coq_obs = Raw(f"(ODict {coq([(e[1], coq_groups(e[2])) for e in oin[1]])})")
    else:
        oin = ["other"]
        coq_obs = Raw("OOther")

    # ---- the call ----
    np.random.seed(seed)
    r = call_canon(generate_cutting_experiments, circuits, observables, N)

    # ---- inputs untouched? (monitor; aliasing is C16's business, a change here would also change the canonical input) ----
    untouched = True
    if cin[0] == "single":
        untouched = canon_mc(ctx, circuits) == cin[1]
    elif cin[0] == "dict":
        untouched = all(canon_mc(ctx, v) == e[2] for (k, v), e in zip(circuits.items(), cin[1]))

    # ---- the weights that were drawn ----
    bases = harness_bases(circuits) if cin[0] in ("single", "dict") else None
    weights = []
    wcall = "skipped"
    if bases is not None and (isinstance(N, (int, float, np.integer, np.floating)) and N >= 1):
        np.random.seed(seed)
        wr = call_canon(generate_qpd_weights, bases, N)
        wcall = wr[0]
        if wr[0] == "ok":
            weights = [[[int(i) for i in k], float(v[0]), wt(v[1])] for k, v in wr[1].items()]
    for b in bases or []:
        ctx.basis_id(b)
    basis_handles = [ctx.basis_id(b) for b in (bases or [])]
    # oracle-contract monitors: the harness' own collection of `bases` agrees with the package's helpers; the weights are
    # positive floats keyed by tuples of the right length; ObservableCollection is deterministic (same groups when asked again)
    contracts = {}
    if bases is not None:
        try:
            if cin[0] == "single":
                pk = CE._get_bases(circuits)[0]
            else:
                pk = CE._get_bases_by_partition(circuits, CE._get_mapping_ids_by_partition(circuits)[0])
            contracts["bases_as_collected_by_package"] = len(pk) == len(bases) and all(a is b or a == b for a, b in zip(pk, bases))
        except Exception:  # noqa: BLE001
            contracts["bases_as_collected_by_package"] = False
    if weights:
        contracts["weights_positive_right_length"] = all(w[1] > 0 and len(w[0]) == len(bases) for w in weights)
    if oin[0] == "dict":
        contracts["groups_deterministic"] = all(canon_groups(v) == e[2] for (k, v), e in zip(observables.items(), oin[1]))

    # ---- canonical output ----
    side = True
    side_notes = []
    if r[0] == "ok":
        exps, coeffs = r[1]

        def canon_list(lst):
            out = []
            for c in lst:
                m = canon_mc(ctx, c)
                names = [x[0] for x in m["cregs"]]
                if names[-2:] != [OBS_NAME, QPD_NAME]:
                    side_notes.append(f"final registers named {names[-2:]}")
                out.append(m)
            return out

        if isinstance(exps, dict):
            cexp = ["dict", [[tagged(k), lab(k), canon_list(v)] for k, v in exps.items()]]
            coq_exp = Raw(f"(OutDict {coq([(e[1], [coq_mc(m) for m in e[2]]) for e in cexp[1]])})")
        else:
            cexp = ["list", canon_list(exps)]
            coq_exp = Raw(f"(OutList {coq([coq_mc(m) for m in cexp[1]])})")
        ccoef = []
        for c in coeffs:
            if not (isinstance(c, tuple) and len(c) == 2 and isinstance(c[0], (float, np.floating)) and isinstance(c[1], WeightType)):
                side_notes.append(f"coefficient entry of unexpected type: {c!r}")
                ccoef.append([fr(Fraction(0)), "E"])
                continue
            ccoef.append([fr(Fraction(float(c[0]))), wt(c[1])])
        impl = ["ok", cexp, ccoef]
        coq_impl = Res("ok", (coq_exp, [(Qc(Fraction(c[0][0], c[0][1])), Raw(c[1])) for c in ccoef]))
    else:
        impl = [r[0], r[1]]
        coq_impl = Res(r[0])
    if side_notes:
        side = False

    env = ctx.canon_benv()
    cenv = [[Fraction(float(c)) for c in b.coeffs] for b in ctx.bases]

    # ---- tolerance: 0 when every float operation of the coefficient formula is exact ----
    wfr = [Fraction(w[1]) for w in weights]
    total = sum(wfr, Fraction(0))
    kap = Fraction(1)
    for h in basis_handles:
        kap *= sum((abs(c) for c in cenv[h]), Fraction(0))
    exact = (len(wfr) > 0 and all(dyadic(w, 30) for w in wfr) and total > 0 and dyadic(total, 30)
             and total.numerator & (total.numerator - 1) == 0
             and all(dyadic(c, 12) for h in basis_handles for c in cenv[h])
             and all(w.numerator.bit_length() + kap.numerator.bit_length() <= 50 for w in wfr))
    tol = Fraction(0) if exact else Fraction(1, 10 ** 12) * max(Fraction(1), kap)

    coq_case = (gh, gsx, coq_benv(env), [[Qc(c) for c in cs] for cs in cenv], coq_circuits, coq_obs, coq_N(desc["N"]),
                [([int(i) for i in w[0]], (Qc(Fraction(w[1])), Raw(w[2]))) for w in weights], coq_impl, Qc(tol), side)
    json_case = dict(kind="generate", desc=desc, gh=gh, gsx=gsx, circuits=cin, observables=oin, weights=weights,
                     bases=[dict(handle=h, coeffs=[float(c) for c in cenv[h]]) for h in basis_handles],
                     env=env, impl=impl, side_notes=side_notes, untouched=untouched, weights_call=wcall, exact=exact)
    info = dict(result=r[0], nweights=len(weights), exact=exact, untouched=untouched, nbases=len(basis_handles), contracts=contracts)
    return coq_case, json_case, info


def f2_routed(jc):
    """Some group measures nothing AND its partition may produce a reset (a reset instruction in the subcircuit or a
    reset inside a map of one of its bases): the placeholder measurement may then follow a final reset."""
    def has_reset(mc, env):
        for ins in mc["data"]:
            op = ins["op"]
            if op[0] == "reset":
                return True
            if op[0] in ("qpd1", "qpd2"):
                for m in env[op[1]]:
                    if any(o[0] == "r" for side in m for o in side):
                        return True
        return False

    c, o = jc["circuits"], jc["observables"]
    if c[0] == "single" and o[0] == "paulis" and o[1][0] == "ok":
        return any(len(g[1]) == 0 for g in o[1][1]) and has_reset(c[1], jc["env"])
    if c[0] == "dict" and o[0] == "dict":
        circs = {e[1]: e[2] for e in c[1]}
        for e in o[1]:
            if e[2][0] == "ok" and e[1] in circs and any(len(g[1]) == 0 for g in e[2][1]) and has_reset(circs[e[1]], jc["env"]):
                return True
    return False


# ------------------------------------------------------------------------------------------------
# generator
# ------------------------------------------------------------------------------------------------
def rand_obs(rng, n, groups_of_qubits):
    k = int(rng.integers(1, 5))
    out = []
    style = int(rng.integers(0, 4))
    for _ in range(k):
        if style == 0:      # Z/I only: one commuting group
            s = [str(rng.choice(["I", "Z"])) for _ in range(n)]
        elif style == 1:    # mixed letters: several groups likely
            s = [str(rng.choice(["I", "X", "Y", "Z"], p=[0.4, 0.2, 0.2, 0.2])) for _ in range(n)]
        else:
            s = [str(rng.choice(["I", "X", "Y", "Z"])) for _ in range(n)]
        out.append(s)
    if rng.integers(0, 3) == 0 and out:         # duplicates
        out.append(list(out[int(rng.integers(0, len(out)))]))
    if rng.integers(0, 3) == 0 and groups_of_qubits:   # identity on one whole partition, in every observable
        qs = groups_of_qubits[int(rng.integers(0, len(groups_of_qubits)))]
        for s in out:
            for q in qs:
                s[q] = "I"
    if rng.integers(0, 8) == 0:
        out.append(["I"] * n)
    # qiskit labels are big-endian: character 0 is the highest qubit
    return ["".join(reversed(s)) for s in out]


def rand_items(rng, n, labels, max_cross, wire=False, preplaced=False):
    """Random circuit; at most max_cross two-qubit gates span two partitions (they become cuts)."""
    items = []
    cross = 0
    ngates = int(rng.integers(n, 3 * n + 3))
    for _ in range(ngates):
        u = rng.random()
        if u < 0.45 or n < 2:
            name = str(rng.choice(list(G1)))
            params = [fr(rng.choice(ANGLES))] if name in NPAR else []
            items.append(["g", name, params, [int(rng.integers(0, n))]])
        else:
            a, b = (int(x) for x in rng.permutation(n)[:2])
            name = str(rng.choice(["cx", "cz", "rzz", "swap", "cx", "cz", "iswap"], p=[0.3, 0.2, 0.2, 0.08, 0.1, 0.1, 0.02]))
            params = [fr(rng.choice(ANGLES))] if name in NPAR else []
            spans = labels is not None and labels[a] != labels[b]
            if spans:
                if cross >= max_cross:
                    continue
                cross += 1
                items.append(["g", name, params, [a, b]])
            elif preplaced and rng.integers(0, 4) == 0 and cross < max_cross:
                cross += 1                      # a placeholder INSIDE a partition: both halves stay together
                items.append(["qpd2", name, params, [a, b]])
            else:
                items.append(["g", name, params, [a, b]])
        if wire and cross < max_cross and rng.integers(0, 5) == 0:
            cross += 1
            items.append(["cutwire", int(rng.integers(0, n))])
        v = rng.random()
        if v < 0.05:                    # mid-circuit / leading / trailing resets, barriers inside one partition
            items.append(["reset", int(rng.integers(0, n))])
        elif v < 0.08 and labels is not None:
            q0 = int(rng.integers(0, n))
            same = [q for q in range(n) if labels[q] == labels[q0]]
            items.append(["barrier", same[: int(rng.integers(1, len(same) + 1))]])
    # every qubit gets at least one ordinary gate (no idle qubits: defect F4 is C10's/C01's business)
    for q in range(n):
        if not any(it[0] == "g" and q in it[3] for it in items):
            items.insert(int(rng.integers(0, len(items) + 1)), ["g", "h", [], [q]])
    return items


def nmaps_of(items_or_bases):
    p = 1
    for b in items_or_bases:
        p *= len(b.maps)
    return p


def pick_N(rng, nmaps, tier):
    pool = ["inf", [1, 1], [5, 2], [10, 1], [100, 1], [5000, 1], [2, 1], [4, 1], [64, 1], "randint", "randfloat", "typed"]
    prob = [0.15, 0.05, 0.08, 0.12, 0.1, 0.08, 0.04, 0.07, 0.08, 0.1, 0.08, 0.05]
    cap = 300 if tier == "quick" else 1000
    while True:
        n = pool[int(rng.choice(len(pool), p=prob))]
        if n == "randint":          # any integer budget in 1..5000
            n = [int(rng.integers(1, 5001)), 1]
        elif n == "randfloat":      # non-dyadic float budgets
            fl = float(rng.choice([7.3, 1000 / 3, 1.0000001, 19.99, 2.718281828, 4999.5, 0.1 * 37]))
            f = Fraction(fl)
            n = [f.numerator, f.denominator, "float"]
        elif n == "typed":          # 1.0, numpy integers / floats, True
            n = [[1, 1, "float"], [int(rng.integers(1, 200)), 1, "np.int64"], [int(rng.integers(1, 200)), 1, "np.float64"],
                 [1, 1, "bool"]][int(rng.integers(0, 4))]
        est = nmaps if n == "inf" else min(nmaps, math.ceil(n[0] / n[1]) + 1)
        if est <= cap:
            return n


def valid_desc(rng, tier):
    """One mostly-valid problem description (no N/seed yet); None if the draw is rejected."""
    n = int(rng.integers(2, 6))
    route = str(rng.choice(["pp", "pp", "pp", "wire", "wire", "pcq", "cg", "wire_unsep"]))
    lset = LABEL_SETS[int(rng.integers(0, len(LABEL_SETS)))]
    nparts = int(rng.integers(1, min(n, 3) + 1))
    labels = [lset[int(rng.integers(0, nparts))] for _ in range(n)]
    max_cross = int(rng.choice(4, p=[0.08, 0.34, 0.36, 0.22]))
    desc = dict(route=route, nq=n, mut=[])
    if route in ("pp", "pcq"):
        desc["items"] = rand_items(rng, n, labels, max_cross, preplaced=(route == "pp" and rng.integers(0, 3) == 0))
        desc["labels"] = [tagged(l) for l in labels]
    elif route == "cg":
        desc["items"] = rand_items(rng, n, None, 0)
        two = [i for i, it in enumerate(desc["items"]) if it[0] == "g" and len(it[3]) == 2]
        k = min(len(two), max_cross)
        desc["gate_ids"] = [int(x) for x in rng.permutation(two)[:k]] if k else []
        desc["labels"] = None
    else:  # wire routes: markers in a circuit whose gates stay inside partitions of the ORIGINAL qubits
        wl = labels if rng.integers(0, 2) else [lset[0]] * n
        desc["items"] = rand_items(rng, n, wl, max_cross, wire=True)
        ncut = [sum(1 for it in desc["items"] if it[0] == "cutwire" and it[1] == q) for q in range(n)]
        if route == "wire":
            if rng.integers(0, 3) == 0:
                desc["labels"] = None      # automatic labels
            else:
                # expanded qubit order: for original qubit q with k markers: k fresh qubits then q; segment j of the wire
                # lives on position j of that block.  Each segment gets a label: new partition or the previous one.
                ext = []
                for q in range(n):
                    cur = wl[q]
                    for j in range(ncut[q] + 1):
                        if j > 0 and rng.integers(0, 4) != 0:
                            cur = lset[int(rng.integers(0, len(lset)))]
                        ext.append(cur)
                desc["labels"] = [tagged(l) for l in ext]
        else:
            desc["labels"] = None
    # observables (on the ORIGINAL qubits)
    part_qubits = {}
    for q, l in enumerate(labels):
        part_qubits.setdefault(l, []).append(q)
    desc["obs"] = rand_obs(rng, n, list(part_qubits.values()))
    return desc


def problem_stats(desc):
    """Build once to learn #bases/#maps; rejects descriptions the package cannot partition or that have idle qubits."""
    try:
        circuits, observables = build_problem(dict(desc, mut=[]))
    except Exception as e:  # noqa: BLE001
        return None, f"{type(e).__name__}"
    bases = harness_bases(circuits)
    if bases is None:
        return None, "bases"
    if isinstance(circuits, dict):
        if any(k is None for k in circuits) or any(k is None for k in observables):
            return None, "idle"
        # automatic labels: a qubit touched only by placeholders is idle for the labelling (None label) -> skip (F4)
    if len(bases) > 3:
        return None, "too_many_cuts"
    return dict(nbases=len(bases), nmaps=nmaps_of(bases), circuits=circuits, observables=observables), None


def idle_under_auto(desc):
    """With automatic labels a qubit that only carries placeholders gets label None (defect F4 territory)."""
    if desc.get("labels") is not None or desc["route"] not in ("wire",):
        return False
    qc = cut_wires(base_circuit(desc))
    busy = set()
    for inst in qc.data:
        if not isinstance(inst.operation, TwoQubitQPDGate):
            for q in inst.qubits:
                busy.add(qc.find_bit(q).index)
    return len(busy) < qc.num_qubits


def emit(w, desc, stream):
    """Run one case and register it.  Returns (json_case, info) or (None, None) when the case is skipped."""
    try:
        coq_case, jc, info = run_desc(desc)
    except Exception as e:  # noqa: BLE001  (problem construction / a mutation could not be applied: not a case)
        w.count(stream + ".skipped", f"{type(e).__name__}")
        return None, None
    if jc["weights_call"] in ("refused", "crashed"):
        # generate_qpd_weights itself raised for a num_samples >= 1: the oracle has no output to hand to the model (C04's business)
        w.count(stream + ".skipped", "weights_oracle_raised")
        return None, None
    if f2_routed(jc):
        group, chk = "generate_f2", "chk_generate_f2"
    elif stream == "malformed":
        group, chk = "malformed", "chk_generate"
    else:
        group, chk = "generate", "chk_generate"
    jc["group"] = group
    w.add(group, chk, coq_case, jc, nontrivial=(info["result"] == "ok" and info["nbases"] > 0) or stream == "malformed")
    w.count(stream + ".result", info["result"])
    w.contract("inputs_untouched", info["untouched"])
    for name, ok in info["contracts"].items():
        w.contract(name, ok)
    return jc, info


def generate(rng, tier, outdir):
    w = CaseWriter(outdir, IMPORTS, CASE_TYPES)
    w.SHARD = 20          # smaller shards: the case literals are large, the shards are compiled in parallel
    n_valid = 170 if tier == "quick" else 1500
    n_mal = 70 if tier == "quick" else 400
    work_cap = 700 if tier == "quick" else 2500

    # ---- handwritten witnesses first: F2 class, both halves in one partition, identity restriction ----
    fixed = [
        dict(route="wire", nq=2, labels=None, mut=[], obs=["IZ"], N="inf", seed=1,
             items=[["g", "h", [], [0]], ["g", "cx", [], [0, 1]], ["cutwire", 0], ["g", "rx", [fr(Fraction(1, 2))], [0]],
                    ["g", "ry", [fr(Fraction(1, 4))], [1]]]),
        dict(route="pp", nq=3, labels=[tagged("A"), tagged("A"), tagged("B")], mut=[], obs=["ZZI", "IIX", "IIX", "III"], N=[10, 1],
             seed=2, items=[["g", "h", [], [0]], ["g", "cx", [], [0, 1]], ["g", "cx", [], [1, 2]], ["qpd2", "cz", [], [0, 1]],
                            ["g", "rx", [fr(Fraction(1, 2))], [2]]]),
        dict(route="pp", nq=2, labels=[tagged(0), tagged(0)], mut=[], obs=["ZZ"], N=[1, 1], seed=3,
             items=[["g", "h", [], [0]], ["g", "cx", [], [0, 1]]]),
    ]
    # three partitions, the first one in dict order holds no half of cut 0, the cuts have different bases (rzz / cx):
    # `bases` must be ordered by cut id, not by first encounter
    for N in ("inf", [10, 1], [5, 2]):
        fixed.append(dict(route="pp", nq=3, labels=[tagged("A"), tagged("B"), tagged("C")], mut=[], obs=["ZZZ", "XIZ"], N=N, seed=11,
                          items=[["g", "h", [], [0]], ["g", "cx", [], [1, 2]], ["g", "rzz", [fr(Fraction(3, 4))], [0, 1]],
                                 ["g", "ry", [fr(Fraction(1, 4))], [2]]]))
    for d in fixed:
        emit(w, d, "valid")

    # ---- small budgets on a non-uniform basis (rzz): EXACT and SAMPLED entries mixed, a sampled joint map can outweigh an
    #      exact one, so dictionary order (type, then weight) and coefficient order (weight only) differ ----
    n_mixed = 30 if tier == "quick" else 300
    for i in range(n_mixed):
        th = [Fraction(3, 4), Fraction(-3, 2), Fraction(1), Fraction(5, 4), Fraction(1, 2), Fraction(5, 8)][int(rng.integers(0, 6))]
        two = rng.integers(0, 3) == 0
        items = [["g", "h", [], [0]], ["g", "rzz", [fr(th)], [0, 1]], ["g", "rx", [fr(Fraction(1, 2))], [1]]]
        labels = [tagged("A"), tagged("B")]
        nq = 2
        obs = [str(rng.choice(["ZZ", "XZ", "ZI", "YY"]))]
        if two:
            nq = 3
            items += [["g", "cx", [], [1, 2]]]
            labels = [tagged("A"), tagged("B"), tagged("A")]
            obs = ["I" + obs[0]]
        N = [[3, 1], [5, 1], [4, 1], [5, 2], [7, 2], [6, 1], [6, 1]][int(rng.integers(0, 7))]
        d = dict(route="pp", nq=nq, labels=labels, mut=[], obs=obs, N=N, seed=int(rng.integers(0, 2 ** 31 - 1)), items=items)
        jc, info = emit(w, d, "valid")
        if jc is None:
            continue
        ws = jc["weights"]
        kinds = {x[2] for x in ws}
        w.count("mixed.kinds", "+".join(sorted(kinds)))
        if any(a[2] == "S'" and b[2] == "E" and a[1] > b[1] for a in ws for b in ws):
            w.count("mixed.feature", "sampled_outweighs_exact")
        if len({x[1] for x in ws}) < len(ws):
            w.count("mixed.feature", "tied_weights")

    # ---- near the 1e-14 cut-off: weakly entangling rzz cuts (joint probabilities 1e-7 .. 1e-16) under an infinite and under large
    #      budgets: every joint map above the cut-off must get its coefficient ----
    n_near = 10 if tier == "quick" else 80
    for i in range(n_near):
        th = [1e-4, 2.0 ** -13, 2.0 ** -20, 2.0 ** -24, 3e-3, 2.0 ** -10][int(rng.integers(0, 6))]
        k2 = int(rng.integers(0, 3))
        items = [["g", "h", [], [0]], ["g", "rzz", [fr(Fraction(th))], [0, 1]], ["g", "rx", [fr(Fraction(1, 2))], [1]]]
        if k2 == 1:
            items.append(["g", "rzz", [fr(Fraction([1e-4, 2.0 ** -13, 0.75][int(rng.integers(0, 3))]))], [1, 0]])
        elif k2 == 2:
            items.append(["g", "cx", [], [0, 1]])
        N = ["inf", "inf", "inf", [5000, 1], [1000, 1], [4999, 1]][int(rng.integers(0, 6))]
        d = dict(route="pp", nq=2, labels=[tagged("A"), tagged("B")], mut=[], obs=[str(rng.choice(["ZZ", "XZ", "ZI"]))], N=N,
                 seed=int(rng.integers(0, 2 ** 31 - 1)), items=items)
        jc, info = emit(w, d, "valid")
        if jc is not None:
            w.count("near_cutoff.nsamples", info["nweights"])
            w.count("near_cutoff.N", "inf" if N == "inf" else N[0])

    # ---- many cuts (two-digit cut ids) under small budgets: 11-13 gates of mixed kinds across one boundary ----
    n_many = 4 if tier == "quick" else 30
    for i in range(n_many):
        ncut = int(rng.integers(11, 14))
        items = [["g", "h", [], [0]]]
        for c in range(ncut):
            nm = ["cx", "rzz", "cz", "cx"][int(rng.integers(0, 4))]
            items.append(["g", nm, [fr(ANGLES[int(rng.integers(0, len(ANGLES)))])] if nm in NPAR else [],
                          [0, 2] if c % 3 == 0 else [1, 2]])
            if c % 4 == 1:
                items.append(["g", "ry", [fr(Fraction(1, 4))], [int(rng.integers(0, 3))]])
        N = [[1, 1], [4, 1], [10, 1], [3, 1]][int(rng.integers(0, 4))]
        d = dict(route="pp", nq=3, labels=[tagged("A"), tagged("A"), tagged("B")] if i % 2 else [tagged("B"), tagged("A"), tagged("C")],
                 mut=[], obs=["ZZZ"], N=N, seed=int(rng.integers(0, 2 ** 31 - 1)), items=items)
        jc, info = emit(w, d, "valid")
        if jc is not None:
            w.count("many_cuts.ncuts", info["nbases"])

    # ---- a reset is the last instruction on a qubit that IS measured by a real group (non-identity observable on it): only the
    #      final passes may drop resets, and only leading / final / duplicate ones ----
    n_tail = 24 if tier == "quick" else 200
    for i in range(n_tail):
        n = int(rng.integers(2, 5))
        lset = LABEL_SETS[int(rng.integers(0, len(LABEL_SETS)))]
        nparts = int(rng.integers(1, min(n, 3) + 1))
        labels = [lset[int(rng.integers(0, nparts))] for _ in range(n)]
        items = rand_items(rng, n, labels, int(rng.integers(1, 3)))
        tails = [q for q in range(n) if rng.integers(0, 2)] or [0]
        for q in tails:
            items.append(["reset", q])
            if rng.integers(0, 4) == 0:
                items.append(["reset", q])
        style = int(rng.integers(0, 3))
        if style == 0:      # every qubit measured
            obs = ["".join(str(rng.choice(["X", "Y", "Z"])) for _ in range(n))]
        elif style == 1:    # a single Pauli on one of the reset qubits (pauli_indices == [k]; k == 0 for the first qubit of a partition)
            q = tails[int(rng.integers(0, len(tails)))]
            obs = ["".join(reversed([str(rng.choice(["X", "Y", "Z"])) if k == q else "I" for k in range(n)]))]
        else:
            obs = rand_obs(rng, n, [])
        route = ["pp", "pp", "pcq"][int(rng.integers(0, 3))]
        d = dict(route=route, nq=n, labels=[tagged(l) for l in labels], mut=[], obs=obs,
                 N=[[10, 1], "inf", [4, 1], [100, 1]][int(rng.integers(0, 4))], seed=int(rng.integers(0, 2 ** 31 - 1)), items=items)
        st, why = problem_stats(d)
        if st is None or st["nmaps"] > 300:
            w.count("reset_tail.rejected", why or "too_many_maps")
            continue
        jc, info = emit(w, d, "valid")
        if jc is not None:
            w.count("reset_tail.style", ["all_measured", "single_pauli_on_reset_qubit", "random"][style])

    # ---- wire cuts WITH qubit re-use: a qubit is the source of one Move, is re-used (also as the SECOND operand of a two-qubit
    #      gate) and later becomes the destination of another Move; plus plain reset / two-qubit gate / reset chains ----
    n_reuse = 16 if tier == "quick" else 120
    for i in range(n_reuse):
        shape = int(rng.integers(0, 3))

        def one(q):
            nm = str(rng.choice(["h", "sx", "t", "ry", "rx"]))
            return ["g", nm, [fr(ANGLES[int(rng.integers(0, len(ANGLES)))])] if nm in NPAR else [], [q]]
        two = lambda a, b: ["g", str(rng.choice(["cx", "cz", "cx"])), [], [a, b] if rng.integers(0, 3) else [b, a]]
        if shape == 0:      # A A B B: q1 -> q2 (cut), q1 re-used with q0, q3 -> q1 (cut)
            nq, labels = 4, ["A", "A", "B", "B"]
            items = [one(0), two(0, 1), one(1), ["g", "move", [], [1, 2]], one(2), two(2, 3), two(0, 1), one(0),
                     ["g", "move", [], [3, 1]], one(1), two(0, 1)]
        elif shape == 1:    # the seed's class: A A B B C with an extra gate cut
            nq, labels = 5, ["A", "A", "B", "B", "C"]
            items = [one(0), two(0, 1), ["g", "move", [], [1, 2]], two(2, 3), one(3), ["g", "cx", [], [0, 1]],
                     ["g", "move", [], [3, 1]], one(1), ["g", "rzz", [fr(Fraction(3, 4))], [1, 4]], one(4)]
        else:               # no cut needed: reset / gate with the qubit as second operand / reset, then more gates
            nq, labels = 3, ["A", "A", "B"]
            items = [one(0), ["reset", 1], ["g", "cx", [], [0, 1]], ["reset", 1], one(1), two(0, 1), ["g", "cz", [], [1, 2]], one(2)]
        if rng.integers(0, 2):
            items.insert(int(rng.integers(0, 3)), ["reset", int(rng.integers(0, nq))])
        obs = ["".join(str(rng.choice(["X", "Y", "Z", "I"], p=[0.25, 0.2, 0.4, 0.15])) for _ in range(nq)) for _ in range(int(rng.integers(1, 3)))]
        N = [[1, 1], [4, 1], [10, 1], [5, 2], [64, 1]][int(rng.integers(0, 5))]
        d = dict(route="pp", nq=nq, labels=[tagged(l) for l in labels], mut=[], obs=obs, N=N,
                 seed=int(rng.integers(0, 2 ** 31 - 1)), items=items)
        jc, info = emit(w, d, "valid")
        if jc is not None:
            w.count("reuse.shape", ["two_moves", "two_moves_and_gate_cut", "plain_resets"][shape])
            w.count("reuse.nsamples", info["nweights"])

    # ---- mostly-valid stream ----
    made = 0
    tries = 0
    pool = []      # (desc, stats) reused by the malformed stream
    while made < n_valid and tries < 40 * n_valid:
        tries += 1
        desc = valid_desc(rng, tier)
        if idle_under_auto(desc):
            w.count("rejected", "idle_auto")
            continue
        st, why = problem_stats(desc)
        if st is None:
            w.count("rejected", why)
            continue
        ngroups = 0
        obs = st["observables"]
        try:
            if isinstance(obs, dict):
                ngroups = sum(len(ObservableCollection(v).groups) for v in obs.values())
            else:
                ngroups = len(ObservableCollection(obs).groups)
        except Exception:  # noqa: BLE001
            w.count("rejected", "groups")
            continue
        for _ in range(2 if st["nbases"] > 0 else 1):
            N = pick_N(rng, st["nmaps"], tier)
            est = st["nmaps"] if N == "inf" else min(st["nmaps"], math.ceil(N[0] / N[1]) + 1)
            if est * max(1, ngroups) > work_cap:
                w.count("rejected", "work_cap")
                continue
            d = dict(desc, N=N, seed=int(rng.integers(0, 2 ** 31 - 1)))
            # occasionally: pre-existing classical bits, observables dict in another order, a partition left out
            if rng.integers(0, 8) == 0 and d["route"] in ("pp", "wire"):
                nparts = len(st["circuits"])
                extra = [["clbits", int(rng.integers(0, nparts)), int(rng.integers(1, 3))],
                         ["reverse_obs_dict"],
                         ["drop_obs_label", int(rng.integers(0, nparts))],
                         ["append_reset", int(rng.integers(0, nparts)), int(rng.integers(0, 2))]][int(rng.integers(0, 4))]
                d = dict(d, mut=[extra])
            elif rng.integers(0, 10) == 0 and d["route"] not in ("pp", "wire"):
                d = dict(d, mut=[["clbits", 0, int(rng.integers(1, 3))]])
            # history: definitions read before the call, an earlier generation on the same objects, one circuit object under two
            # labels, cut ids written "+k" / "0k" / " k"
            hv = rng.random()
            if hv < 0.12:
                d = dict(d, mut=d["mut"] + [["read_definition"]])
            elif hv < 0.2:
                d = dict(d, mut=d["mut"] + [["call_before", int(rng.integers(0, 1000)), [1, 3, 10][int(rng.integers(0, 3))]]])
            elif hv < 0.25 and d["route"] in ("pp", "wire") and not d["mut"]:
                d = dict(d, mut=[["alias", 0]])
            elif hv < 0.31 and d["route"] in ("pp", "wire") and st["nbases"] > 0:
                d = dict(d, mut=d["mut"] + [["fancy_suffix", int(rng.integers(0, 4))]])
            for mm in d["mut"]:
                w.count("valid.mutation", mm[0])
            jc, info = emit(w, d, "valid")
            made += 1
            if jc is None:
                continue
            w.count("valid.route", d["route"])
            w.count("valid.ncuts", info["nbases"])
            w.count("valid.N", "inf" if N == "inf" else (N[2] if len(N) > 2 else "int/float") + ":" + (str(Fraction(N[0], N[1])) if N[0] / N[1] in (1, 2, 2.5, 4, 10, 64, 100, 5000) else "other"))
            w.count("valid.nsamples", min(info["nweights"], 50) if info["nweights"] <= 50 else ">50")
            w.count("valid.exact_arith", info["exact"])
            w.count("valid.group", jc["group"])
            w.count("valid.labels", "auto" if d.get("labels") is None else "explicit")
            if jc["circuits"][0] == "dict":
                w.count("valid.nparts", len(jc["circuits"][1]))
                for e in jc["circuits"][1]:
                    sf = [ins["op"][4][1] for ins in e[2]["data"] if ins["op"][0] == "qpd1" and ins["op"][4]]
                    if len(sf) != len(set(sf)):
                        w.count("valid.feature", "both_halves_in_one_partition")
                    if not sf:
                        w.count("valid.feature", "partition_without_cut")
            obsd = jc["observables"]
            gl = [obsd[1]] if obsd[0] == "paulis" else [e[2] for e in obsd[1]] if obsd[0] == "dict" else []
            for g in gl:
                if g[0] == "ok":
                    w.count("valid.ngroups", len(g[1]))
                    if any(len(x[1]) == 0 for x in g[1]):
                        w.count("valid.feature", "identity_restriction_group")
        if st["nbases"] > 0:
            pool.append(desc)

    # ---- malformed stream ----
    badN = [[0, 1], [1, 2], [-1, 1], "nan", "-inf", [999, 1000]]
    for i in range(n_mal):
        if not pool:
            break
        desc = dict(pool[int(rng.integers(0, len(pool)))])
        sep = desc["route"] in ("pp", "wire")
        N = [10, 1]
        kinds = (["badN", "obs_as_paulilist", "obs_as_list", "circ_as_list", "relabel_none", "relabel_nosuffix", "shift_ids",
                  "extra_obs_label", "phase", "wrong_width", "qpd2_in_sep", "obs_reg_exists", "badN_and_type"]
                 if sep else ["badN", "obs_as_dict", "obs_as_list", "circ_as_list", "split_2q", "wrong_width", "badN_and_type"])
        kind = kinds[int(rng.integers(0, len(kinds)))]
        mut = []
        if kind == "badN":
            N = badN[int(rng.integers(0, len(badN)))]
        elif kind == "badN_and_type":
            N = badN[int(rng.integers(0, len(badN)))]
            mut = [["obs_as_list"]] if rng.integers(0, 2) else [["circ_as_list"]]
        elif kind == "obs_as_paulilist":
            mut = [["obs_as_paulilist", ["Z"]]]
        elif kind in ("obs_as_dict", "obs_as_list", "circ_as_list", "split_2q", "extra_obs_label"):
            mut = [[kind]]
        elif kind == "relabel_none":
            mut = [["relabel", 0, 0, None]]
        elif kind == "relabel_nosuffix":
            mut = [["relabel", 0, 0, str(rng.choice(["foo", "cut_x", "a_", "_", "1.5", "cut_1e2"]))]]
        elif kind == "shift_ids":
            mut = [["shift_ids", int(rng.integers(1, 3))]]
        elif kind == "phase":
            mut = [["phase", 0, int(rng.integers(1, 4))]]
        elif kind == "wrong_width":
            mut = [["wrong_width", 0]]
        elif kind in ("qpd2_in_sep", "obs_reg_exists"):
            mut = [[kind, 0]]
        d = dict(desc, N=N, seed=int(rng.integers(0, 2 ** 31 - 1)), mut=mut)
        jc, info = emit(w, d, "malformed")
        if jc is None:
            w.count("malformed.skipped", kind)
            continue
        w.count("malformed.kind", kind)
        w.count("malformed." + kind, info["result"])

    # ---- the property-level oracle must accept what the unchanged implementation returned (run.py searches failing inputs with
    #      `judge` over ALL cases when anything breaks; an oracle that flags clean cases would produce bogus replays) ----
    alljc = [c[1] for g in w.groups.values() for c in g["cases"]]
    stepj = max(1, len(alljc) // (400 if tier == "quick" else 800))
    for jc in alljc[::stepj]:
        try:
            v = judge(jc)
            ok = not v.get("violates")
        except Exception as e:  # noqa: BLE001
            ok = False
            v = dict(detail=f"judge raised {type(e).__name__}: {e}")
        w.contract("judge_accepts_clean_case", ok)
        if not ok and len(w.notes) < 5:
            w.notes.append(f"judge flagged {json.dumps(jc['desc'])[:400]}: {v.get('detail', '')[:300]}")

    return w.finish(
        rule="random circuits on 2-5 qubits over h/x/s/sdg/t/sx/rx/ry/rz and cx/cz/rzz/swap/iswap (dyadic angles), explicit partition "
             "labels (strings/ints, 1-3 partitions) or automatic labels, 0-3 cuts: gate cuts via partition_problem, pre-placed "
             "TwoQubitQPDGates inside a partition (both halves in one partition), Move-based wire cuts via cut_wires on CutWire markers "
             "(+ expand_observables), unseparated circuits via partition_circuit_qubits / cut_gates / cut_wires; Pauli lists with "
             "duplicates, identity restricted to a whole partition, several commuting groups; budgets {1,2,2.5,4,10,64,100,5000,inf} "
             "plus random integers in 1..5000, non-dyadic floats, 1.0 / numpy ints and floats / True, "
             "under random numpy seeds, the weights dictionary re-read with the same seed; resets (leading, mid-circuit, trailing) and "
             "barriers in the circuits; history mutations (placeholder definitions read before the call, an earlier generation on the same "
             "objects, one circuit object under two labels, cut ids written +k / 0k / ' k'); a near-cut-off stream (rzz angles 1e-4, "
             "2^-13, 2^-20, 2^-24 under N=inf and N>=1000); a many-cuts stream (11-13 cuts, two-digit cut ids, N<=10); a stream with a reset "
             "as the last instruction on a measured qubit; a re-use stream (hand-placed Moves whose source qubit is re-used, also as second "
             "operand of a two-qubit gate, and later is the destination of another Move; reset / gate / reset chains); a dedicated stream of rzz cuts under small "
             "budgets {2.5,3,3.5,4,5,6} (EXACT and SAMPLED entries mixed, sampled entries outweighing exact ones, ties); sometimes pre-existing classical bits, "
             "observables dict in another order / missing a partition, trailing resets. Malformed stream: type mismatches both ways, "
             "num_samples in {0, 0.5, 0.999, -1, nan, -inf}, missing / non-numeric label suffix, shifted cut ids, foreign observable "
             "label, phases, wrong observable width, one-qubit placeholders in an unseparated circuit, two-qubit placeholder in a "
             "subcircuit, pre-existing observable_measurements register. No idle qubits (defect F4 is outside C05). "
             "distinct = distinct Coq case literal; non-trivial = successful call with at least one cut, or a malformed request")


# ------------------------------------------------------------------------------------------------
# property-level oracle (independent of the Coq model)
# ------------------------------------------------------------------------------------------------
def _is_sub_resets(expected, got):
    """got == expected with some reset instructions deleted (global instruction order kept)."""
    i = 0
    for x in expected:
        if i < len(got) and got[i] == x:
            i += 1
        elif x["op"][0] == "reset":
            continue
        else:
            return False
    return i == len(got)


def _reset_rule(expected, got, nq, ignore_last):
    """Independent statement of which resets may disappear (property C19's second clause, C12's passes):
    on every qubit wire a run of consecutive resets may shrink to nothing only when it stands before the first other
    instruction of the wire or after the last one; a run between two other instructions must keep at least one reset.
    `ignore_last` = index (in `expected`) of the placeholder measurement of an identity group: its outcome is discarded,
    so it does not count as 'another instruction' (resets before it are still final)."""
    if not _is_sub_resets(expected, got):
        return "not the expected instruction sequence with some resets deleted"
    for q in range(nq):
        def runs(seq, skip=None):
            out = [0]
            for k, x in enumerate(seq):
                if q not in x["qs"]:
                    continue
                if x["op"][0] == "reset":
                    out[-1] += 1
                elif skip is not None and k == skip:
                    continue
                else:
                    out.append(0)
            return out
        # position of the ignored instruction in `got`: it is a non-reset, so it is the same ordinal among non-resets
        skip_g = None
        if ignore_last is not None:
            ordinal = sum(1 for x in expected[:ignore_last] if x["op"][0] != "reset")
            cnt = 0
            for k, x in enumerate(got):
                if x["op"][0] != "reset":
                    if cnt == ordinal:
                        skip_g = k
                        break
                    cnt += 1
        re_, rg = runs(expected, ignore_last), runs(got, skip_g)
        if len(re_) != len(rg):
            return f"qubit {q}: different non-reset instructions"
        for k, (a, b) in enumerate(zip(re_, rg)):
            if b > a:
                return f"qubit {q}: more resets than expected"
            if 0 < k < len(re_) - 1 and a > 0 and b == 0:
                return (f"qubit {q}: a reset between two other instructions of the wire was removed "
                        f"(neither leading, nor final, nor a duplicate)")
    return None


# ---- exact outcome law of a small circuit (independent branch simulator; used by judge's distribution clause) ----
_GATE_CACHE = {}


def _gate_matrix(name, params):
    key = (name, tuple(params))
    if key not in _GATE_CACHE:
        from qiskit.circuit.library import get_standard_gate_name_mapping
        mp = get_standard_gate_name_mapping()
        if name not in mp:
            raise KeyError(name)
        cls = type(mp[name])
        _GATE_CACHE[key] = np.asarray(cls(*params).to_matrix(), dtype=complex)
    return _GATE_CACHE[key]


def _apply(vec, mat, qubits, n):
    k = len(qubits)
    psi = vec.reshape([2] * n)
    axes = [n - 1 - q for q in qubits]                       # axis of qubit q (little endian)
    m = mat.reshape([2] * (2 * k))
    in_axes = list(range(2 * k - 1, k - 1, -1))              # input index of operand 0, 1, ...
    psi = np.tensordot(m, psi, axes=(in_axes, axes))
    psi = np.moveaxis(psi, list(range(k)), [n - 1 - q for q in reversed(qubits)])
    return psi.reshape(-1)


def _outcome_law(n, ncl, ops, gates):
    """ops: canonical instructions ({op, qs, cs}; gate ops carry only the id, `gates` maps id -> (name, params)).
    Returns {clbit tuple: probability}.  Raises KeyError for an operation it cannot interpret."""
    v0 = np.zeros(2 ** n, dtype=complex)
    v0[0] = 1.0
    branches = [((0,) * ncl, v0)]
    for ins in ops:
        kind = ins["op"][0]
        if kind == "barrier":
            continue
        new = []
        for cl, vec in branches:
            if kind == "gate":
                name, params = gates[ins["op"][1]]
                new.append((cl, _apply(vec, _gate_matrix(name, params), ins["qs"], n)))
            elif kind in ("measure", "reset"):
                q = ins["qs"][0]
                psi = vec.reshape([2] * n)
                for out in (0, 1):
                    pr = np.zeros_like(psi)
                    idx = [slice(None)] * n
                    idx[n - 1 - q] = out
                    pr[tuple(idx)] = psi[tuple(idx)]
                    if float(np.vdot(pr, pr).real) < 1e-16:
                        continue
                    if kind == "measure":
                        c = list(cl)
                        c[ins["cs"][0]] = out
                        new.append((tuple(c), pr.reshape(-1)))
                    else:
                        if out == 1:                          # reset: flip |1> back to |0>
                            pr = np.flip(pr, axis=n - 1 - q)
                        new.append((cl, pr.reshape(-1)))
            else:
                raise KeyError(kind)
        # merge branches with equal classical bits only at the end (states differ): keep as is, bounded by #measurements
        branches = new
        if len(branches) > 4096:
            raise KeyError("too many branches")
    law = {}
    for cl, vec in branches:
        law[cl] = law.get(cl, 0.0) + float(np.vdot(vec, vec).real)
    return law


def _law_problem(n, ncl, expected, got, gates, ignore=()):
    """the joint law of the classical bits of the returned circuit equals that of the un-optimised spliced reference
    (bits in `ignore` are marginalised: the placeholder bit of an identity group carries no information by contract)."""
    try:
        a = _outcome_law(n, ncl, expected, gates)
        b = _outcome_law(n, ncl, got, gates)
    except KeyError:
        return None                                           # an operation outside the simulator: clause not applicable
    if ignore:
        def marg(law):
            out = {}
            for k, v in law.items():
                kk = tuple(x for i, x in enumerate(k) if i not in ignore)
                out[kk] = out.get(kk, 0.0) + v
            return out
        a, b = marg(a), marg(b)
    for k in set(a) | set(b):
        if abs(a.get(k, 0.0) - b.get(k, 0.0)) > 1e-9:
            return (f"outcome {k} of the classical bits has probability {b.get(k, 0.0):.6g} in the returned circuit but "
                    f"{a.get(k, 0.0):.6g} in the spliced reference")
    return None


def _strip(ins):
    op = ins["op"]
    return dict(op=op[:2] if op[0] == "gate" else op, qs=list(ins["qs"]), cs=list(ins["cs"]))


def _expected_circuit(mc, env, joint, separated, general, pidx, gh, gsx):
    """Direct splice from the property text: every placeholder -> the chosen map's operations for that half on that
    qubit; QPD measurement k -> measure into bit nc0 + nobs + k; then rotations + measurements into bits nc0 + i."""
    nc0 = mc["nc"]
    pi = list(pidx) if pidx else [0]
    nobs = len(pi)
    MARK = ["__marker__"]

    def basis_op(o):
        return MARK if o[0] == "m" else ["reset"] if o[0] == "r" else ["gate", o[1]]

    out = []
    t = 0
    for ins in mc["data"]:
        op = ins["op"]
        if op[0] == "qpd1":
            if not separated:
                raise ValueError("one-qubit placeholder in an unseparated circuit")
            m = joint[op[4][1]]
            for o in env[op[1]][m][op[2]]:
                out.append(dict(op=basis_op(o), qs=[ins["qs"][0]], cs=[]))
        elif op[0] == "qpd2":
            if separated:
                raise ValueError("two-qubit placeholder in a subcircuit")
            m = joint[t]
            t += 1
            for half in (0, 1):
                for o in env[op[1]][m][half]:
                    out.append(dict(op=basis_op(o), qs=[ins["qs"][half]], cs=[]))
        elif op[0] == "qpd_measure":
            out.append(dict(op=MARK, qs=list(ins["qs"]), cs=[]))
        else:
            out.append(_strip(ins))
    k = 0
    for x in out:
        if x["op"] is MARK:
            x["op"] = ["measure"]
            x["cs"] = [nc0 + nobs + k]
            k += 1
    for i, sub in enumerate(pi):
        if general[sub] == 1:
            out.append(dict(op=["gate", gh], qs=[sub], cs=[]))
        elif general[sub] == 2:
            out.append(dict(op=["gate", gsx], qs=[sub], cs=[]))
        out.append(dict(op=["measure"], qs=[sub], cs=[nc0 + i]))
    return out, nobs, max(1, k)


def judge(case):
    desc = case["desc"]
    impl = case["impl"]
    muts = [m[0] for m in desc.get("mut") or []]
    Nbad = not (desc["N"] == "inf" or (isinstance(desc["N"], list) and Fraction(desc["N"][0], desc["N"][1]) >= 1))
    ckind, okind = case["circuits"][0], case["observables"][0]
    # ---- documented refusals (docstring "Raises"), decided on the canonical request itself ----
    doc = None
    if ckind == "single" and okind != "paulis":
        doc = "QuantumCircuit with observables that are not a PauliList"
    elif ckind == "dict" and okind != "dict":
        doc = "dict of circuits with observables that are not a dict"
    elif Nbad:
        doc = "num_samples is not >= 1"
    elif ckind == "dict" and okind == "dict" and all(e[2][0] == "ok" for e in case["observables"][1]):
        for e in case["circuits"][1]:
            for ins in e[2]["data"]:
                if ins["op"][0] == "qpd1" and (ins["op"][4] is None or ins["op"][4][1] is None):
                    doc = "SingleQubitQPDGate without a numeric label suffix"
    elif ckind == "single" and okind == "paulis" and case["observables"][1][0] == "ok":
        if any(ins["op"][0] == "qpd1" for ins in case["circuits"][1]["data"]):
            doc = "SingleQubitQPDGate in an unseparated circuit"
    if doc:
        return dict(violates=impl[0] != "refused", detail=f"documented ValueError class ({doc}); implementation: {impl[0]} "
                                                          f"{impl[1] if impl[0] != 'ok' else ''}")
    if impl[0] != "ok":
        wellformed = not muts or set(muts) <= {"clbits", "reverse_obs_dict", "drop_obs_label", "append_reset", "read_definition", "call_before",
                                               "alias", "fancy_suffix"}
        return dict(violates=wellformed, detail=f"implementation raised on a {'well-formed' if wellformed else 'malformed (undocumented class)'} "
                                                f"request: {impl[0]} {impl[1]}")
    # ---- the contract on a successful call ----
    problems = []
    weights = case["weights"]
    coeffs = [(Fraction(c[0][0], c[0][1]), c[1]) for c in impl[2]]
    bases = case["bases"]
    kappa = 1.0
    for b in bases:
        kappa *= sum(abs(c) for c in b["coeffs"])
    env = case["env"]
    gh, gsx = case["gh"], case["gsx"]
    is_inf = desc["N"] == "inf"

    def product(ids):
        p = 1.0
        for b, m in zip(bases, ids):
            p *= b["coeffs"][m]
        return p

    # ---- infinite budget: one coefficient per joint map of non-zero probability (up to the documented 1e-14 cut-off) ----
    if is_inf and bases:
        import itertools
        nmaps = 1
        for b in bases:
            nmaps *= len(b["coeffs"])
        if nmaps <= 60000:
            need = set()
            for ids in itertools.product(*[range(len(b["coeffs"])) for b in bases]):
                pr = abs(product(ids)) / kappa
                if pr >= 1.5e-14:          # clearly above the cut-off (binary64 noise near 1e-14 is not judged)
                    need.add(tuple(ids))
            have = {tuple(w[0]) for w in weights}
            missing = sorted(need - have)
            if len(coeffs) < len(need) or missing:
                problems.append(f"infinite budget: {len(need)} joint maps have non-zero probability (>1e-14) but {len(coeffs)} coefficients were "
                                f"returned; e.g. joint map {list(missing[0]) if missing else '?'} with probability "
                                f"{abs(product(missing[0])) / kappa if missing else '?'} is absent")
    if len(coeffs) != len(weights):
        problems.append(f"{len(coeffs)} coefficients for {len(weights)} distinct sampled joint maps")
        return dict(violates=True, detail="; ".join(problems[:6]))
    total = sum(w[1] for w in weights)

    # ---- partitions ----
    if case["circuits"][0] == "single":
        parts = [(None, case["circuits"][1], case["observables"][1], impl[1][1] if impl[1][0] == "list" else None)]
        if impl[1][0] != "list":
            problems.append("single circuit in, but no list out")
        separated = False
    else:
        separated = True
        outd = {e[1]: e[2] for e in impl[1][1]} if impl[1][0] == "dict" else {}
        if impl[1][0] != "dict":
            problems.append("dict in, but no dict out")
        circs = {e[1]: e[2] for e in case["circuits"][1]}
        parts = []
        for e in case["observables"][1]:
            parts.append((e[1], circs.get(e[1]), e[2], outd.get(e[1])))
        if set(outd) != {e[1] for e in case["observables"][1]}:
            problems.append("output keys differ from the observables' partition labels")
    usable = []
    for (l, mc, groups, got) in parts:
        if mc is None or got is None or groups[0] != "ok":
            problems.append(f"partition {l}: missing circuit/output/groups")
            continue
        G = len(groups[1])
        if len(got) != len(weights) * G:
            problems.append(f"partition {l}: {len(got)} circuits, expected #coefficients x #groups = {len(weights)} x {G}")
            continue
        usable.append((l, mc, groups[1], got, G))

    def coeff_problem(z, i):
        ids, wgt, typ = weights[i]
        p = product(ids)
        want = wgt / total * kappa * (0 if p == 0 else math.copysign(1, p))
        got = float(coeffs[z][0])
        if abs(want - got) > 1e-9 * max(1.0, kappa):
            return f"coefficient {z}: {got} but weight/total*kappa*sign = {want} for joint map {ids}"
        if p != 0 and got != 0 and (got > 0) != (p > 0):
            return f"coefficient {z} has the wrong sign for joint map {ids}"
        if coeffs[z][1] != typ:
            return f"coefficient {z} has weight type {coeffs[z][1]}, sampled entry {ids} has {typ}"
        if is_inf and abs(got - p) > 1e-9:
            return f"infinite budget: coefficient {z} = {got} but product of map coefficients = {p}"
        return None

    # id -> (name, params) of every ordinary gate that occurs in the request or in the returned circuits
    gates = {}

    def _collect(data):
        for ins in data:
            if ins["op"][0] == "gate" and len(ins["op"]) >= 4 and all(isinstance(x, (int, float)) for x in ins["op"][3]):
                gates[ins["op"][1]] = (ins["op"][2], list(ins["op"][3]))

    if case["circuits"][0] == "single":
        _collect(case["circuits"][1]["data"])
    elif case["circuits"][0] == "dict":
        for e in case["circuits"][1]:
            _collect(e[2]["data"])
    if impl[1][0] == "list":
        for mcx in impl[1][1]:
            _collect(mcx["data"])
    elif impl[1][0] == "dict":
        for e in impl[1][1]:
            for mcx in e[2]:
                _collect(mcx["data"])
    law_budget = [24]          # distribution clause on a sample of sub-experiments per case (cost)

    def block_problem(z, i):
        joint = weights[i][0]
        for (l, mc, groups, got, G) in usable:
            for j, (general, pidx) in enumerate(groups):
                g = got[z * G + j]
                try:
                    exp, nobs, nqpd = _expected_circuit(mc, env, joint, separated, general, pidx, gh, gsx)
                except Exception as ex:  # noqa: BLE001
                    return f"partition {l}: cannot rebuild: {ex}"
                gd = [_strip(x) for x in g["data"]]
                if any(x["op"][0] in ("qpd1", "qpd2", "qpd_measure") for x in gd):
                    return f"partition {l} circuit {z * G + j}: placeholder instruction left"
                why = _reset_rule(exp, gd, mc["nq"], (len(exp) - 1) if not pidx else None)
                if why:
                    return (f"partition {l} circuit {z * G + j} (sample {z}, group {j}, joint map {joint}) is not the direct splice followed "
                            f"by the measurement suffix up to removable resets: {why}")
                if law_budget[0] > 0 and mc["nq"] <= 6 and any(x["op"][0] == "reset" for x in exp):
                    law_budget[0] -= 1
                    why = _law_problem(mc["nq"], mc["nc"] + nobs + nqpd, exp, gd, gates, ignore=() if pidx else (mc["nc"],))
                    if why:
                        return (f"partition {l} circuit {z * G + j} (sample {z}, group {j}, joint map {joint}) does not behave like the "
                                f"subcircuit with the chosen maps spliced in, followed by the measurements: {why}")
                nc0 = mc["nc"]
                regs = g["cregs"]
                if (len(regs) < 2 or regs[-2] != [OBS_NAME, list(range(nc0, nc0 + nobs))]
                        or regs[-1] != [QPD_NAME, list(range(nc0 + nobs, nc0 + nobs + nqpd))] or g["nc"] != nc0 + nobs + nqpd
                        or regs[:-2] != mc["cregs"] or g["nq"] != mc["nq"]):
                    return f"partition {l} circuit {z * G + j}: classical register layout {regs} (nc0={nc0}, nobs={nobs}, nqpd={nqpd})"
        return None

    # ---- which sampled joint map does coefficient z / block z belong to?  The property fixes no order among the samples; it
    #      demands that coefficient z and the z-th block of every partition belong to the SAME joint map, each map used once.
    #      Candidates are tried in the documented order (descending weight, ties in dictionary order) first. ----
    pref = sorted(range(len(weights)), key=lambda i: weights[i][1], reverse=True)
    unused = list(pref)
    nprob = 0
    for z in range(len(weights)):
        chosen, first_why = None, None
        for i in unused:
            why = coeff_problem(z, i)
            if why is None:
                why = block_problem(z, i)
            if why is None:
                chosen = i
                break
            if first_why is None:
                first_why = why
            if abs(weights[i][1] - weights[unused[0]][1]) > 1e-12 * max(1.0, abs(weights[unused[0]][1])) and len(unused) > 64:
                break       # large cases: only the tie class of the preferred candidate is searched
        if chosen is None:
            problems.append(f"no unused sampled joint map fits coefficient {z} together with block {z} of every partition; "
                            f"for the documented candidate: {first_why}")
            nprob += 1
            unused.pop(0)
            if nprob > 3:
                break
        else:
            unused.remove(chosen)
    if len(weights) and len(problems) == 0:
        prods = [product(w[0]) for w in weights]
        if all(p != 0 for p in prods) and abs(sum(abs(float(c[0])) for c in coeffs) - kappa) > 1e-9 * max(1.0, kappa):
            problems.append(f"sum |coeff| = {sum(abs(float(c[0])) for c in coeffs)} but kappa = {kappa}")
    if case.get("side_notes"):
        problems.extend(case["side_notes"])
    return dict(violates=bool(problems), detail="; ".join(problems[:6]) if problems else "contract holds on this input")


def rerun(case):
    """Re-execute the implementation on the stored description (for --replay)."""
    _, jc, _ = run_desc(case["desc"])
    jc["group"] = case.get("group")
    return jc

"""C19 correspondence: one subexperiment of generate_cutting_experiments  vs  Model/ResetFree.v (`finish`).

Problem description (JSON, enough for `rerun`):
  desc = {nq, items, obs, flow, labels, num_samples, seed}
  items : ["g", name, [[num,den]...], [qubits]] | ["cut", q] | ["move", src, dst] | ["barrier", [qubits]]
  obs   : Pauli labels (Qiskit order, rightmost = qubit 0) on the qubits of the circuit built from `items`
  flow  : "auto"   cut_wires (markers) / cut_gates on every Move (hand-placed) -> partition_problem(labels=None)
          "labels" cut_wires (markers) -> partition_problem(partition_labels=labels)   (gates crossing partitions are cut)
          "single" cut_wires / cut_gates -> generate_cutting_experiments(circuit, PauliList)  (unseparated)
  num_samples : "inf" | int ;  seed : numpy global seed set before sampling
One CASE = one returned subexperiment (partition label, sample z, group j) of one problem.
"""
from __future__ import annotations

import json
from fractions import Fraction

import numpy as np
from qiskit.circuit import QuantumCircuit
from qiskit.circuit.library import HGate, SXGate, XGate, SGate, RXGate, RYGate, RZGate, CXGate, CZGate
from qiskit.quantum_info import PauliList

from qiskit_addon_cutting import (cut_wires, expand_observables, partition_problem, generate_cutting_experiments,
                                  cut_gates)
from qiskit_addon_cutting.instructions import CutWire, Move
from qiskit_addon_cutting.qpd import generate_qpd_weights, decompose_qpd_instructions
from qiskit_addon_cutting.utils.observable_grouping import ObservableCollection
from qiskit_addon_cutting import cutting_experiments as CE

from common import CaseWriter, Raw, Zc, coq
from circ import CircCtx, coq_circ, coq_benv

IMPORTS = "From CKT Require Import Common.Base Common.Circ Model.Measurement Model.ResetFree Corr.C19Corr."

G1 = {"h": HGate, "x": XGate, "s": SGate, "sx": SXGate, "rx": RXGate, "ry": RYGate, "rz": RZGate}
G2 = {"cx": CXGate, "cz": CZGate}


def fr(x):
    f = Fraction(x)
    return [f.numerator, f.denominator]


def unfr(p):
    return p[0] / p[1]


# --------------------------------------------------------------------------------------
# running the implementation
# --------------------------------------------------------------------------------------

def build_circuit(desc):
    qc = QuantumCircuit(desc["nq"], desc["nc"]) if desc.get("nc") else QuantumCircuit(desc["nq"])
    for it in desc["items"]:
        k = it[0]
        if k == "g":
            cls = G1.get(it[1]) or G2[it[1]]
            qc.append(cls(*[unfr(p) for p in it[2]]), it[3])
        elif k == "cut":
            qc.append(CutWire(), [it[1]])
        elif k == "move":
            qc.append(Move(), [it[1], it[2]])
        elif k == "barrier":
            qc.barrier(*it[1])
        elif k == "reset":
            qc.reset(it[1])
        elif k == "measure":
            qc.measure(it[1], it[2])
        else:
            raise ValueError(it)
    return qc


def letters_of(pauli):
    out = []
    for x, z in zip(pauli.x, pauli.z):
        out.append(2 if (x and z) else 1 if x else 3 if z else 0)
    return out


def is_move_like(cbasis):
    """canonical basis (circ.py form): every first sequence ends with a reset, every second begins with one."""
    return bool(cbasis) and all(m[0] and m[0][-1] == ["r"] and m[1] and m[1][0] == ["r"] for m in cbasis)


def run_problem(desc):
    """Execute the workflow.  Returns dict(status, ...) ; status in ok / refused / crashed."""
    qc0 = build_circuit(desc)
    obs0 = PauliList(desc["obs"])
    has_markers = any(it[0] == "cut" for it in desc["items"])
    if has_markers:
        full = cut_wires(qc0)
        obs_full = expand_observables(obs0, qc0, full)
    else:
        full, obs_full = qc0, obs0
    flow = desc["flow"]
    # the problem AS STATED (plain Move instructions, before the public cut_gates wrapper rewrites them): the judge decides
    # "no qubit is re-used" on this circuit, so that a wrapper which re-orders a placeholder's qubits cannot hide behind its
    # own output
    pctx = CircCtx()
    problem_canon = pctx.canon_circuit(full)
    problem_benv = pctx.canon_benv()
    if flow in ("auto", "single") and not has_markers:
        ids = [i for i, inst in enumerate(full.data) if inst.operation.name == "move"]
        full = cut_gates(full, ids)[0]
    fctx = CircCtx()
    full_canon = fctx.canon_circuit(full)
    full_benv = fctx.canon_benv()
    obs_full_letters = [letters_of(p) for p in obs_full]
    ns = np.inf if desc["num_samples"] == "inf" else desc["num_samples"]
    if flow == "single":
        circuits, observables = full, obs_full
        subcircuits = {"A": full}
        subobs = {"A": obs_full}
        bases, qpd_ids = CE._get_bases(full)
        ids_by = {"A": qpd_ids}
        mapsel = None
    else:
        labels = desc["labels"] if flow == "labels" else None
        pp = partition_problem(full, partition_labels=labels, observables=obs_full)
        subcircuits, subobs = pp.subcircuits, pp.subobservables
        circuits, observables = subcircuits, subobs
        ids_by, mapsel = CE._get_mapping_ids_by_partition(subcircuits)
        bases = CE._get_bases_by_partition(subcircuits, ids_by)
    if ns == np.inf:
        total = 1
        for b in bases:
            total *= len(b.maps)
        if total > 600:
            # an exact budget enumerates prod(#maps) samples per group and partition: too costly here.  Recorded in the
            # description, so that a replay runs the same finite budget.
            desc["num_samples"] = ns = 1 + desc["seed"] % 8
    np.random.seed(desc["seed"])
    subexps, coeffs = generate_cutting_experiments(circuits, observables, ns)
    if flow == "single":
        subexps = {"A": subexps}
    # replay the sampling exactly as generate_cutting_experiments does
    np.random.seed(desc["seed"])
    random_samples = generate_qpd_weights(bases, num_samples=ns)
    sorted_samples = sorted(random_samples.items(), key=lambda x: x[1][0], reverse=True)
    groups = {label: ObservableCollection(so).groups for label, so in subobs.items()}
    return dict(full=full_canon, full_benv=full_benv, problem=problem_canon, problem_benv=problem_benv,
                obs_full=obs_full_letters, subcircuits=subcircuits,
                ids_by=ids_by, mapsel=mapsel, sorted_samples=sorted_samples, groups=groups, subexps=subexps,
                ncoeff=len(coeffs))


def subexperiment_case(desc, run, label, z, j):
    """Rebuild the pre-pass pieces of one subexperiment through the private functions and canonicalise."""
    sub = run["subcircuits"][label]
    cog = run["groups"][label][j]
    map_ids = run["sorted_samples"][z][0]
    if run["mapsel"] is not None:
        map_ids = tuple(map_ids[k] for k in run["mapsel"][label])
    ids = run["ids_by"][label]
    ngroups = len(run["groups"][label])
    real = run["subexps"][label][z * ngroups + j]
    ctx = CircCtx()
    csub = ctx.canon_circuit(sub)
    benv = ctx.canon_benv()
    gh, gsx = ctx.gate_id(HGate()), ctx.gate_id(SXGate())
    new_qc = CE._append_measurement_register(sub, cog)
    decompose_qpd_instructions(new_qc, ids, map_ids, inplace=True)
    dec = ctx.canon_circuit(new_qc)
    kq = new_qc.cregs[-1].size
    # the subexperiment with NO reset removed at all: reference for "values unaffected by these removals"
    ref_qc = new_qc.copy()
    CE._append_measurement_circuit(ref_qc, cog, inplace=True)
    ref = ctx.canon_circuit(ref_qc)
    obs_bits = [new_qc.find_bit(c).index for c in new_qc.cregs[-2]]
    contracts = {
        "qpd_measurements_is_last_register": new_qc.cregs[-1].name == "qpd_measurements",
        "observable_measurements_precedes_it": len(new_qc.cregs) >= 2 and new_qc.cregs[-2].name == "observable_measurements",
        "subexperiment_has_the_same_bits": (real.num_qubits == new_qc.num_qubits and real.num_clbits == new_qc.num_clbits),
    }
    out = ctx.canon_circuit(real)
    regs = [[r.name == "observable_measurements", [sub.find_bit(c).index for c in r]] for r in sub.cregs]
    canon = dict(gh=gh, gsx=gsx, benv=benv, nq=sub.num_qubits, nc=sub.num_clbits, regs=regs, sub=csub,
                 ids=[list(g) for g in ids], ms=[int(m) for m in map_ids],
                 g=letters_of(cog.general_observable), idx=[int(i) for i in cog.pauli_indices],
                 dec=dec, kq=kq, out=out)
    case = dict(kind="subexperiment", desc=desc, pick=[_jsonable(label), z, j], canon=canon,
                ref=ref, ncl=new_qc.num_clbits, ignored_bits=([] if cog.pauli_indices else obs_bits),
                full=run["full"], full_benv=run["full_benv"], obs_full=run["obs_full"],
                problem=run["problem"], problem_benv=run["problem_benv"],
                count_ops={k: int(v) for k, v in real.count_ops().items()})
    return case, contracts


def _jsonable(label):
    return label if isinstance(label, (int, str)) else repr(label)


def coq_case(c):
    regs = [(bool(r[0]), list(r[1])) for r in c["regs"]]
    return (c["gh"], c["gsx"], coq_benv(c["benv"]), (c["nq"], c["nc"], regs), coq_circ(c["sub"]),
            [list(g) for g in c["ids"]], [Zc(m) for m in c["ms"]], (list(c["g"]), list(c["idx"])),
            coq_circ(c["dec"]), c["kq"], coq_circ(c["out"]))


# --------------------------------------------------------------------------------------
# property-level oracle (independent of the Coq model): works on the recorded canonical data only
# --------------------------------------------------------------------------------------

def moves_of(full, benv):
    out = []
    for i, d in enumerate(full):
        op = d["op"]
        if op[0] == "move" or (op[0] == "qpd2" and is_move_like(benv[op[1]])):
            out.append((i, d["qs"][0], d["qs"][1]))
    return out


def problem_has_no_reuse(full, benv, obs_full):
    """every Move writes to a qubit never used before and reads from a qubit never used afterwards
    (an observable acting non-trivially on the source is a use); the circuit has no reset of its own."""
    why = []
    for i, src, dst in moves_of(full, benv):
        if any(dst in d["qs"] for d in full[:i]):
            why.append(f"destination {dst} of the Move at {i} was used before")
        if any(src in d["qs"] for d in full[i + 1:]):
            why.append(f"source {src} of the Move at {i} is used afterwards")
        if any(o[src] != 0 for o in obs_full):
            why.append(f"an observable acts on source {src} of the Move at {i}")
    if any(d["op"][0] == "reset" for d in full):
        why.append("the circuit contains a reset of its own")
    return (not why), why



# --------------------------------------------------------------------------------------
# independent density-matrix branch simulator (numpy only; gate matrices from Operator(gate).data)
# state: {classical bit tuple: unnormalised density matrix as a tensor with 2n axes}; qubit q <-> row axis n-1-q
# --------------------------------------------------------------------------------------
SIM_MAX_QUBITS = 5
_P0 = np.array([[1, 0], [0, 0]], dtype=complex)
_P1 = np.array([[0, 0], [0, 1]], dtype=complex)
_X = np.array([[0, 1], [1, 0]], dtype=complex)
_SWAP = np.array([[1, 0, 0, 0], [0, 0, 1, 0], [0, 1, 0, 0], [0, 0, 0, 1]], dtype=complex)
_GATE_CACHE = {}


def gate_matrix(name, params):
    key = (name, tuple(params))
    if key not in _GATE_CACHE:
        from qiskit.circuit.library import get_standard_gate_name_mapping
        from qiskit.quantum_info import Operator
        g = get_standard_gate_name_mapping().get(name)
        if g is None:
            _GATE_CACHE[key] = None
        else:
            if params:
                g = type(g)(*[float(x) for x in params])
            _GATE_CACHE[key] = np.asarray(Operator(g).data, dtype=complex)
    return _GATE_CACHE[key]


def _apply(rho, M, qs, n):
    """rho -> M rho M^dagger, M a 2^k x 2^k matrix acting on qubits qs (qs[0] = least significant index of M)."""
    k = len(qs)
    Mt = M.reshape([2] * (2 * k))
    rows = [n - 1 - q for q in reversed(qs)]
    t = np.tensordot(Mt, rho, axes=(list(range(k, 2 * k)), rows))
    rho = np.moveaxis(t, list(range(k)), rows)
    cols = [n + r for r in rows]
    t = np.tensordot(Mt.conj(), rho, axes=(list(range(k, 2 * k)), cols))
    return np.moveaxis(t, list(range(k)), cols)


def _trace(rho, n):
    return float(np.real(np.trace(rho.reshape(2 ** n, 2 ** n))))


def simulate(circ, nq, ncl):
    """canonical instruction list -> {clbit tuple: probability}, or None when an operation is not simulable."""
    if nq > SIM_MAX_QUBITS:
        return None
    rho0 = np.zeros([2] * (2 * nq), dtype=complex)
    rho0[(0,) * (2 * nq)] = 1.0
    branches = {(0,) * ncl: rho0}

    def reset(br, q):
        return {b: _apply(r, _P0, [q], nq) + _apply(_apply(r, _P1, [q], nq), _X, [q], nq) for b, r in br.items()}

    for d in circ:
        op, qs = d["op"], d["qs"]
        kind = op[0]
        if kind == "barrier":
            continue
        if kind == "gate":
            U = gate_matrix(op[2], op[3])
            if U is None or U.shape[0] != 2 ** len(qs):
                return None
            branches = {b: _apply(r, U, qs, nq) for b, r in branches.items()}
        elif kind == "reset":
            branches = reset(branches, qs[0])
        elif kind == "move":                      # Move.definition: reset(1); swap(0, 1)
            branches = reset(branches, qs[1])
            branches = {b: _apply(r, _SWAP, qs, nq) for b, r in branches.items()}
        elif kind == "measure":
            c = d["cs"][0]
            new = {}
            for b, r in branches.items():
                for v, P in ((0, _P0), (1, _P1)):
                    r2 = _apply(r, P, [qs[0]], nq)
                    if _trace(r2, nq) > 1e-14:
                        b2 = b[:c] + (v,) + b[c + 1:]
                        new[b2] = new[b2] + r2 if b2 in new else r2
            branches = new
        else:
            return None
    return {b: _trace(r, nq) for b, r in branches.items()}


def marginal(dist, ignored):
    out = {}
    for b, p in dist.items():
        k = tuple(v for i, v in enumerate(b) if i not in ignored)
        out[k] = out.get(k, 0.0) + p
    return out


def values_check(case):
    """joint law of all classical bits (placeholder bit of an identity group marginalised out): final subexperiment vs
    the same subexperiment with no reset removed.  Returns (status, detail), status in ok / differs / skipped."""
    c = case["canon"]
    if "ref" not in case:
        return "skipped", "no reference circuit recorded"
    a = simulate(case["ref"], c["nq"], case["ncl"])
    b = simulate(c["out"], c["nq"], case["ncl"])
    if a is None or b is None:
        return "skipped", f"not simulated ({c['nq']} qubits or an unknown operation)"
    a, b = marginal(a, case["ignored_bits"]), marginal(b, case["ignored_bits"])
    worst = max(abs(a.get(k, 0.0) - b.get(k, 0.0)) for k in set(a) | set(b))
    if worst > 1e-9:
        k = max(set(a) | set(b), key=lambda k: abs(a.get(k, 0.0) - b.get(k, 0.0)))
        return "differs", (f"joint law of the classical bits changed by the reset removals: outcome {k} has probability "
                           f"{a.get(k, 0.0):.6f} without removals and {b.get(k, 0.0):.6f} in the returned subexperiment "
                           f"(max deviation {worst:.3e})")
    return "ok", f"classical-bit law unchanged (max deviation {worst:.1e})"

def wire_sequences(out, nq):
    return [[d["op"][0] for d in out if q in d["qs"]] for q in range(nq)]


def judge(case, _values=None):
    c = case["canon"]
    out = c["out"]
    wires = wire_sequences(out, c["nq"])
    probs = []
    for q, w in enumerate(wires):
        if w and w[0] == "reset":
            probs.append(f"qubit {q}: reset is the first operation")
        if w and w[-1] == "reset":
            probs.append(f"qubit {q}: reset is the last operation")
        if any(a == "reset" and b == "reset" for a, b in zip(w, w[1:])):
            probs.append(f"qubit {q}: two consecutive resets")
    nr, why = problem_has_no_reuse(case["full"], case["full_benv"], case["obs_full"])
    moved = ""
    if "problem" in case:
        # the antecedent is a statement about the problem as the caller stated it (Move(source, destination) instructions),
        # not about what the cut_gates wrapper made of it: if the stated problem has no re-use, clause 1 applies, and the
        # wrapper must have kept every Move's (source, destination) order
        nr_p, why_p = problem_has_no_reuse(case["problem"], case["problem_benv"], case["obs_full"])
        if nr_p and not nr:
            nr, why = True, []
            moved = (f" [stated Moves (index, source, destination) {moves_of(case['problem'], case['problem_benv'])}; after "
                     f"cut_gates {moves_of(case['full'], case['full_benv'])}]")
    nreset = sum(1 for d in out if d["op"][0] == "reset")
    if nreset != case["count_ops"].get("reset", 0):
        probs.append("canonical form and count_ops() disagree on the number of resets")
    if nr and nreset:
        probs.append(f"no qubit is re-used, yet the subexperiment (partition {case['pick'][0]}, sample {case['pick'][1]}, "
                     f"group {case['pick'][2]}, pauli_indices {c['idx']}) contains {nreset} reset(s): "
                     f"wires {wires}{moved}")
    vst, vdetail = _values if _values is not None else values_check(case)
    if vst == "differs":
        probs.append(vdetail)
    if probs:
        return dict(violates=True, detail="; ".join(probs))
    return dict(violates=False, detail=("no re-use: reset-free" if nr else "re-use (" + "; ".join(why[:2]) + "): post-conditions hold")
                + "; values: " + vdetail)


def rerun(case):
    desc = case["desc"]
    run = run_problem(desc)
    label, z, j = case["pick"]
    key = next(k for k in run["subcircuits"] if _jsonable(k) == label)
    new, _ = subexperiment_case(desc, run, key, z, j)
    return new


# --------------------------------------------------------------------------------------
# generators
# --------------------------------------------------------------------------------------

ANGLES = [0.5, 0.25, -0.75, 1.5]


def rand_gate(rng, nq, two=True):
    k = int(rng.integers(0, 9))
    q = int(rng.integers(0, nq))
    if k < 4:
        return ["g", ["h", "x", "s", "sx"][k], [], [q]]
    if k < 6:
        return ["g", ["rx", "ry", "rz"][int(rng.integers(0, 3))], [fr(ANGLES[int(rng.integers(0, 4))])], [q]]
    if nq >= 2 and two:
        a, b = (int(x) for x in rng.permutation(nq)[:2])
        return ["g", ["cx", "cz"][int(rng.integers(0, 2))], [], [a, b]]
    return ["g", "h", [], [q]]


def rand_obs(rng, n, style):
    """observable labels on n qubits (Qiskit order)."""
    def lab(letters):
        return "".join("IXYZ"[l] for l in reversed(letters))
    k = int(rng.integers(1, 4))
    out = []
    for _ in range(k):
        if style == "sparse":
            letters = [0] * n
            letters[int(rng.integers(0, n))] = int(rng.integers(1, 4))
        elif style == "identity":
            letters = [0] * n
        else:
            letters = [int(rng.integers(0, 4)) for _ in range(n)]
        out.append(lab(letters))
    # PauliList of unique labels keeps things small
    seen = []
    for o in out:
        if o not in seen:
            seen.append(o)
    return seen


def gen_markers(rng):
    """circuit on 1..4 qubits, 1..3 CutWire markers (first / last / interleaved on a wire, also interleaved ACROSS qubits:
    a, b, a)."""
    nq = int(rng.integers(1, 5))
    ncut = int(rng.integers(1, 4))
    # choose marker qubits as contiguous runs (distinct qubits per run)
    order = [int(x) for x in rng.permutation(nq)]
    qs = []
    for pos, q in enumerate(order):
        left = ncut - len(qs)
        if left <= 0:
            break
        run = left if pos == len(order) - 1 else int(rng.integers(1, left + 1))
        qs.extend([q] * run)
    if rng.integers(0, 3) == 0:
        qs = [qs[int(i)] for i in rng.permutation(len(qs))]      # markers of different qubits interleaved (a, b, a)
    ngates = int(rng.integers(0, 7))
    gates = [rand_gate(rng, nq) for _ in range(ngates)]
    # make every qubit non-idle
    used = {q for g in gates for q in g[3]}
    for q in range(nq):
        if q not in used:
            gates.insert(int(rng.integers(0, len(gates) + 1)), ["g", "h", [], [q]])
    # interleave markers (in their list order) with the gates
    slots = sorted(int(rng.integers(0, len(gates) + 1)) for _ in qs)
    items = []
    mi = 0
    for pos in range(len(gates) + 1):
        while mi < len(qs) and slots[mi] == pos:
            items.append(["cut", qs[mi]])
            mi += 1
        if pos < len(gates):
            items.append(gates[pos])
    return nq, items


def gen_moves(rng, reuse, descending=False):
    """hand-placed Moves.  reuse=False: every Move goes onto a fresh qubit from a qubit that is then abandoned.
    reuse=True: a chain that moves back onto abandoned qubits (and keeps using sources).
    descending (reuse=False only): qubits are numbered in reverse order of first use, so EVERY Move goes from a higher onto a
    lower index (Move(source, destination) with source > destination) - the opposite of what cut_wires produces."""
    nq = int(rng.integers(2, 5))
    items = []
    if not reuse:
        live = [0]
        fresh = list(range(1, nq))
        dead = []
        # non-live qubits that are never a destination get their own gates later
        nmoves = int(rng.integers(1, min(3, len(fresh)) + 1))
        for _ in range(int(rng.integers(1, 3))):
            items.append(["g", ["h", "sx", "x"][int(rng.integers(0, 3))], [], [0]])
        extra = []
        for m in range(nmoves):
            src = live[int(rng.integers(0, len(live)))]
            dst = fresh.pop(0)
            items.append(["move", src, dst])
            live.remove(src)
            dead.append(src)
            live.append(dst)
            for _ in range(int(rng.integers(0, 3))):
                q = live[int(rng.integers(0, len(live)))]
                items.append(["g", ["h", "sx", "s"][int(rng.integers(0, 3))], [], [q]])
            if len(live) >= 2 and rng.integers(0, 2):
                a, b = (live[int(x)] for x in rng.permutation(len(live))[:2])
                items.append(["g", "cx", [], [a, b]])
        # remaining fresh qubits become ordinary live qubits (used only from now on)
        for q in fresh:
            items.append(["g", "h", [], [q]])
            live.append(q)
            if rng.integers(0, 2):
                a = live[int(rng.integers(0, len(live) - 1))]
                items.append(["g", "cx", [], [a, q]])
        if descending:
            pi = [nq - 1 - q for q in range(nq)]        # before relabelling every Move has source < destination
        else:
            pi = [int(x) for x in rng.permutation(nq)]      # sources/destinations in any index order
        return nq, relabel_items(items, pi), [pi[q] for q in dead]
    # re-use chain
    items.append(["g", "h", [], [0]])
    cur = 0
    nmoves = int(rng.integers(2, 5))
    for m in range(nmoves):
        dst = (cur + 1) % nq if rng.integers(0, 2) else int(rng.choice([q for q in range(nq) if q != cur]))
        items.append(["move", cur, dst])
        if rng.integers(0, 2):
            items.append(["g", "x", [], [cur]])      # keep using the source
        items.append(["g", ["h", "s", "sx"][int(rng.integers(0, 3))], [], [dst]])
        cur = dst
    for q in range(nq):
        if not any(q in (it[3] if it[0] == "g" else it[1:3]) for it in items):
            items.append(["g", "h", [], [q]])
    return nq, items, []


def relabel_items(items, pi):
    out = []
    for it in items:
        k = it[0]
        if k == "g":
            out.append(["g", it[1], it[2], [pi[q] for q in it[3]]])
        elif k == "move":
            out.append(["move", pi[it[1]], pi[it[2]]])
        elif k == "cut":
            out.append(["cut", pi[it[1]]])
        elif k == "barrier":
            out.append(["barrier", [pi[q] for q in it[1]]])
        elif k == "reset":
            out.append(["reset", pi[it[1]]])
        elif k == "measure":
            out.append(["measure", pi[it[1]], it[2]])
        else:
            raise ValueError(it)
    return out


def sprinkle(rng, items, nq, kinds, nc=0, count=None):
    """insert random barrier / user reset / mid-circuit measure items."""
    items = list(items)
    for _ in range(int(rng.integers(1, 4)) if count is None else count):
        kind = kinds[int(rng.integers(0, len(kinds)))]
        q = int(rng.integers(0, nq))
        if kind == "barrier":
            m = 1 if rng.integers(0, 3) else int(rng.integers(1, nq + 1))
            it = ["barrier", sorted({q} | {int(x) for x in rng.permutation(nq)[:m - 1]})]
        elif kind == "reset":
            it = ["reset", q]
        else:
            if not nc:
                continue
            it = ["measure", q, int(rng.integers(0, nc))]
        items.insert(int(rng.integers(0, len(items) + 1)), it)
    return items


def identity_on(obs, qubits):
    out = []
    for o in obs:
        ls = list(o)
        for q in qubits:
            ls[len(ls) - 1 - q] = "I"
        out.append("".join(ls))
    return list(dict.fromkeys(out))


def crossing_labels(rng, items, nq, alphabet):
    mv = [x for x in items if x[0] == "move"]
    labels = None
    for _ in range(12):
        labels = [alphabet[int(rng.integers(0, len(alphabet)))] for _ in range(nq)]
        if any(labels[m[1]] != labels[m[2]] for m in mv):
            break
    if all(isinstance(x, str) for x in labels):
        return "".join(labels)
    return labels


def gen_reuse_target(rng):
    """a -- control, b -- wire that moves away (b -> c) and comes back (c -> b); after the second Move qubit b is touched only as
    the second operand of two-qubit gates and no observable acts on it: the reset prepared on b is NOT final."""
    nq = 3 + int(rng.integers(0, 2))
    a, b, c = 0, 1, 2
    items = [rand_gate(rng, 1)]
    if rng.integers(0, 2):
        items.append(["g", "cx", [], [a, b]])
    items.append(["g", ["rx", "ry"][int(rng.integers(0, 2))], [fr(ANGLES[int(rng.integers(0, 4))])], [b]])
    items.append(["move", b, c])
    for _ in range(int(rng.integers(0, 2))):
        items.append(["g", ["ry", "rx"][int(rng.integers(0, 2))], [fr(ANGLES[int(rng.integers(0, 4))])], [c]])
    items.append(["move", c, b])
    ctrl = [a] + ([3] if nq == 4 else [])
    if nq == 4:
        items.insert(0, ["g", "h", [], [3]])
    for _ in range(int(rng.integers(1, 4))):
        items.append(["g", ["cx", "cz"][int(rng.integers(0, 2))], [], [ctrl[int(rng.integers(0, len(ctrl)))], b]])
        if rng.integers(0, 3) == 0:
            items.append(["g", ["h", "s", "sx"][int(rng.integers(0, 3))], [], [a]])
    pi = [int(x) for x in rng.permutation(nq)]
    return nq, relabel_items(items, pi), [pi[b], pi[c]], pi


FIXED = [
    # the F2 witness of DESIGN section 6
    dict(nq=2, items=[["g", "h", [], [0]], ["g", "cx", [], [0, 1]], ["cut", 0], ["g", "rx", [fr(0.5)], [0]],
                      ["g", "ry", [fr(0.25)], [1]]], obs=["IZ"], flow="auto", labels=None, num_samples="inf", seed=1),
    # marker first on its wire / last on its wire
    dict(nq=1, items=[["cut", 0], ["g", "h", [], [0]]], obs=["Z", "X"], flow="auto", labels=None, num_samples="inf", seed=2),
    dict(nq=1, items=[["g", "h", [], [0]], ["cut", 0]], obs=["Y"], flow="auto", labels=None, num_samples="inf", seed=3),
    dict(nq=2, items=[["g", "h", [], [0]], ["g", "cx", [], [0, 1]], ["cut", 0], ["cut", 0], ["g", "rx", [fr(0.5)], [0]]],
         obs=["II", "ZZ"], flow="single", labels=None, num_samples=5, seed=4),
    # a re-use chain: move 0->1, keep using 0, move back
    dict(nq=2, items=[["g", "h", [], [0]], ["move", 0, 1], ["g", "x", [], [0]], ["g", "s", [], [1]], ["move", 1, 0],
                      ["g", "h", [], [0]]], obs=["ZI", "IX"], flow="single", labels=None, num_samples="inf", seed=5),
    # observables that are NOT the identity on a Move source (qubit 1), which no gate touches after the Move
    dict(nq=3, items=[["g", "ry", [fr(0.7)], [0]], ["g", "cx", [], [0, 1]], ["g", "ry", [fr(0.4)], [1]], ["move", 1, 2],
                      ["g", "ry", [fr(0.3)], [2]]], obs=["ZZI", "ZZZ", "XZZ", "ZXZ", "ZYI"], flow="labels", labels="AAB",
         num_samples="inf", seed=6),
    dict(nq=2, items=[["g", "h", [], [0]], ["move", 0, 1], ["g", "s", [], [1]]], obs=["ZX", "IY"], flow="single", labels=None,
         num_samples="inf", seed=7),
    # ping-pong chains: two (three) separate runs of doubled resets in ONE circuit, so _consolidate_resets deletes several
    dict(nq=2, items=[["g", "h", [], [0]], ["move", 0, 1], ["g", "s", [], [1]], ["move", 1, 0], ["g", "h", [], [0]],
                      ["move", 0, 1], ["g", "sx", [], [1]]], obs=["ZI", "XZ"], flow="single", labels=None, num_samples="inf", seed=8),
    dict(nq=3, items=[["g", "h", [], [0]], ["move", 0, 1], ["move", 1, 2], ["g", "cx", [], [2, 0]], ["move", 2, 1],
                      ["move", 1, 0], ["g", "h", [], [2]]], obs=["ZZZ", "IXI"], flow="single", labels=None, num_samples=6, seed=9),
    # markers interleaved ACROSS qubits: cut 0; cut 1; cut 0
    dict(nq=2, items=[["g", "h", [], [0]], ["cut", 0], ["g", "cx", [], [0, 1]], ["cut", 1], ["g", "h", [], [1]], ["cut", 0],
                      ["g", "x", [], [0]]], obs=["II", "IZ"], flow="auto", labels=None, num_samples=6, seed=10),
    dict(nq=2, items=[["cut", 0], ["cut", 1], ["cut", 0], ["g", "cx", [], [0, 1]]], obs=["ZZ", "II"], flow="single", labels=None,
         num_samples=4, seed=11),
    # unseparated, own classical register, mid-circuit measurement, a user reset, identity group (dummy measurement)
    dict(nq=2, nc=1, items=[["g", "h", [], [0]], ["measure", 0, 0], ["g", "cx", [], [0, 1]], ["cut", 0], ["g", "x", [], [0]],
                            ["reset", 1], ["g", "h", [], [1]]], obs=["II", "ZI"], flow="single", labels=None, num_samples="inf", seed=12),
    # a barrier before anything else, then a cut: the destination's leading reset comes after an early barrier elsewhere
    dict(nq=2, items=[["barrier", [1]], ["g", "h", [], [0]], ["cut", 0], ["g", "cx", [], [0, 1]]], obs=["ZI", "II"], flow="single",
         labels=None, num_samples="inf", seed=13),
    # re-use 1 -> 2 -> 1; afterwards qubit 1 is only the TARGET of two-qubit gates and carries the identity: the reset that
    # the second Move prepares on it (bare [Reset] for maps 0 and 6) is not final
    dict(nq=3, items=[["g", "ry", [fr(0.7)], [0]], ["g", "cx", [], [0, 1]], ["g", "rx", [fr(0.4)], [1]], ["move", 1, 2],
                      ["g", "ry", [fr(0.9)], [2]], ["move", 2, 1], ["g", "cx", [], [0, 1]], ["g", "cx", [], [0, 1]],
                      ["g", "cz", [], [0, 1]]], obs=["IIX", "IIY"], flow="labels", labels="AAB", num_samples="inf", seed=15),
    dict(nq=3, items=[["g", "h", [], [0]], ["g", "ry", [fr(0.5)], [1]], ["move", 1, 2], ["move", 2, 1], ["g", "cx", [], [0, 1]]],
         obs=["IIZ", "IIX"], flow="single", labels=None, num_samples="inf", seed=16),
    # hand-placed fresh Move, three explicit labels, idle qubit 3
    dict(nq=4, items=[["g", "h", [], [2]], ["move", 2, 0], ["g", "cx", [], [0, 1]]], obs=["IIZZ", "IIXI"], flow="labels",
         labels="ACBA", num_samples="inf", seed=14),
]


# fresh Moves from a HIGHER onto a LOWER qubit index, cut through the public cut_gates wrapper (flows single / auto), identity on
# the sources: no re-use, so no reset may survive.  Emitted after all random streams (keeps their random numbers unchanged).
FIXED_DESCENDING = [
    dict(nq=3, items=[["g", "h", [], [2]], ["g", "cx", [], [2, 1]], ["move", 2, 0], ["g", "sx", [], [0]], ["g", "cx", [], [0, 1]]],
         obs=["IZZ", "IXI"], flow="single", labels=None, num_samples="inf", seed=17),
    # a chain 3 -> 1 -> 0 (qubit 1 is a destination, then a source), qubit 2 ordinary
    dict(nq=4, items=[["g", "ry", [fr(0.5)], [3]], ["g", "h", [], [2]], ["move", 3, 1], ["g", "cx", [], [1, 2]], ["move", 1, 0],
                      ["g", "rx", [fr(0.25)], [0]]], obs=["IZIX", "IXIZ", "IIII"], flow="auto", labels=None, num_samples=5, seed=18),
    # mixed: one ascending, one descending Move in the same circuit
    dict(nq=4, items=[["g", "h", [], [1]], ["g", "h", [], [2]], ["move", 1, 3], ["move", 2, 0], ["g", "cx", [], [0, 3]]],
         obs=["ZIIZ", "XIIY"], flow="single", labels=None, num_samples="inf", seed=19),
]


def pick_triples(rng, run, per_problem, nz_pick=2):
    triples = []
    nz = len(run["sorted_samples"])
    for label, groups in run["groups"].items():
        for j in range(len(groups)):
            zs = sorted({int(z) for z in rng.integers(0, nz, size=nz_pick)} | {0})
            for z in zs:
                triples.append((label, z, j))
    if len(triples) > per_problem:
        keep = sorted(int(i) for i in rng.permutation(len(triples))[:per_problem])
        # always keep at least one triple per (label, group) with an empty pauli_indices: the dummy measurement
        must = [i for i, (l, z, j) in enumerate(triples) if not run["groups"][l][j].pauli_indices and z == 0]
        keep = sorted(set(keep) | set(must))
        triples = [triples[i] for i in keep]
    return triples


def emit_problem(w, rng, stream, desc, per_problem, nz_pick=2):
    ncuts = sum(1 for x in desc["items"] if x[0] in ("cut", "move"))
    if stream != "fixed" and desc["num_samples"] == "inf" and (ncuts >= 4 or (ncuts == 3 and rng.integers(0, 4))):
        desc["num_samples"] = int(rng.integers(1, 9))     # 8^k samples x groups x partitions: keep the exact budget for small k
    try:
        run = run_problem(desc)
    except ValueError as e:
        w.count(stream + ".problem", "refused")
        w.count(stream + ".refusal", str(e)[:60])
        return 0
    except Exception as e:  # noqa: BLE001
        w.count(stream + ".problem", "crashed:" + type(e).__name__)
        w.notes.append(f"{stream}: workflow crashed with {type(e).__name__}: {str(e)[:120]} on {desc}")
        return 0
    w.count(stream + ".problem", "ok")
    nr, _ = problem_has_no_reuse(run["full"], run["full_benv"], run["obs_full"])
    w.count(stream + ".no_reuse", nr)
    w.count(stream + ".flow+no_reuse", f"{desc['flow']}/{nr}")
    w.count(stream + ".flow", desc["flow"])
    w.count(stream + ".budget", desc["num_samples"])
    w.count(stream + ".cuts", len(moves_of(run["full"], run["full_benv"])))
    w.count(stream + ".partitions", len(run["subcircuits"]))
    # every experiment: (#samples x #groups) per partition, one coefficient per sample
    ok_shape = all(len(run["subexps"][l]) == len(run["sorted_samples"]) * len(run["groups"][l]) for l in run["groups"])
    w.contract("experiments_are_samples_x_groups_per_partition", ok_shape and run["ncoeff"] == len(run["sorted_samples"]))
    n = 0
    for (label, z, j) in pick_triples(rng, run, per_problem, nz_pick):
        try:
            case, contracts = subexperiment_case(desc, run, label, z, j)
        except Exception as e:  # noqa: BLE001  (e.g. a private helper was renamed: report, do not crash the generator)
            w.contract("prepass_circuit_can_be_rebuilt_through_the_private_functions", False)
            w.notes.append(f"{stream}: rebuilding the pre-pass circuit failed with {type(e).__name__}: {str(e)[:120]}")
            continue
        w.contract("prepass_circuit_can_be_rebuilt_through_the_private_functions", True)
        for k, v in contracts.items():
            w.contract(k, v)
        c = case["canon"]
        vres = values_check(case)
        verdict = judge(case, _values=vres)
        # every generated case is judged, also when model and implementation agree
        w.contract("judge_accepts_clean_case", not verdict["violates"])
        if verdict["violates"] and len(w.notes) < 20:
            w.notes.append(f"{stream}: judge flags {json.dumps(desc)} pick {[_jsonable(label), z, j]}: {verdict['detail'][:200]}")
        nreset = sum(1 for d in c["out"] if d["op"][0] == "reset")
        ndec = sum(1 for d in c["dec"] if d["op"][0] == "reset")
        w.add(stream, "chk_subexperiment", coq_case(c), case, nontrivial=ndec > 0)
        w.count(stream + ".values_check", vres[0])
        w.count(stream + ".dummy_measurement", not c["idx"])
        w.count(stream + ".resets_before_passes", min(ndec, 4))
        w.count(stream + ".resets_left", min(nreset, 3))
        w.count(stream + ".placeholders", sum(1 for d in c["sub"] if d["op"][0] in ("qpd1", "qpd2")))
        n += 1
    return n


def generate(rng, tier, outdir):
    w = CaseWriter(outdir, IMPORTS, case_types={"chk_subexperiment": "c19_case"})
    quick = tier == "quick"
    n_markers = 34 if quick else 460
    n_onsrc = 10 if quick else 140
    n_fresh = 8 if quick else 100
    n_fresh_labels = 10 if quick else 140
    n_dynamic = 12 if quick else 160
    n_reuse = 10 if quick else 120
    n_reuse_target = 8 if quick else 100
    per_problem = 8 if quick else 12

    for desc in FIXED:
        emit_problem(w, rng, "fixed", dict(desc), 64)

    # hand-placed Moves onto fresh qubits, observables NON-identity on the abandoned source qubits (a use of the
    # source: resets may survive; post-conditions and the classical-bit law must hold)
    for it in range(n_onsrc):
        nq, items, dead = gen_moves(rng, reuse=False)
        obs = []
        for o in rand_obs(rng, nq, ["dense", "sparse"][it % 2]):
            ls = list(o)
            for q in dead:
                if ls[len(ls) - 1 - q] == "I" and (it % 4 or q == dead[0]):
                    ls[len(ls) - 1 - q] = "XYZ"[int(rng.integers(0, 3))]
            obs.append("".join(ls))
        obs = list(dict.fromkeys(obs))
        flow = ["labels", "auto", "single"][it % 3]
        labels = None
        if flow == "labels":
            mv = [x for x in items if x[0] == "move"]
            for _ in range(8):
                labels = "".join("AB"[int(rng.integers(0, 2))] for _ in range(nq))
                if any(labels[m[1]] != labels[m[2]] for m in mv):
                    break
        ns = "inf" if it % 3 else int(rng.integers(1, 7))
        desc = dict(nq=nq, items=items, obs=obs, flow=flow, labels=labels, num_samples=ns, seed=int(rng.integers(0, 2**31)))
        emit_problem(w, rng, "moves_obs_on_source", desc, per_problem)

    for it in range(n_markers):
        nq, items = gen_markers(rng)
        style = ["dense", "sparse", "identity", "dense", "sparse"][it % 5]
        obs = rand_obs(rng, nq, style)
        flow = ["auto", "auto", "single", "labels"][it % 4]
        labels = None
        if it % 5 == 0:
            items = sprinkle(rng, items, nq, ["barrier"], count=1)
        if flow == "labels":
            full_n = nq + sum(1 for x in items if x[0] == "cut")
            alpha = "AB" if it % 8 else "ABC"
            labels = "".join(alpha[int(rng.integers(0, len(alpha)))] for _ in range(full_n))
        ns = "inf" if it % 3 else int(rng.integers(1, 7))
        desc = dict(nq=nq, items=items, obs=obs, flow=flow, labels=labels, num_samples=ns, seed=int(rng.integers(0, 2**31)))
        emit_problem(w, rng, "markers", desc, per_problem)

    for it in range(n_fresh):
        nq, items, dead = gen_moves(rng, reuse=False)
        style = ["dense", "sparse", "identity"][it % 3]
        obs = rand_obs(rng, nq, style)
        if it % 2 == 0:
            # identity on every abandoned (source) qubit, as expand_observables would produce
            obs2 = []
            for o in obs:
                ls = list(o)
                for q in dead:
                    ls[len(ls) - 1 - q] = "I"
                obs2.append("".join(ls))
            obs = list(dict.fromkeys(obs2))
        flow = ["auto", "single"][it % 2]
        ns = "inf" if it % 3 else int(rng.integers(1, 7))
        desc = dict(nq=nq, items=items, obs=obs, flow=flow, labels=None, num_samples=ns, seed=int(rng.integers(0, 2**31)))
        emit_problem(w, rng, "moves_fresh", desc, per_problem)

    # hand-placed fresh Moves, explicit labels (2-3 letters / ints), identity on every abandoned qubit (no re-use),
    # optional barriers and an idle qubit
    for it in range(n_fresh_labels):
        nq, items, dead = gen_moves(rng, reuse=False)
        idle = []
        if it % 3 == 0:
            idle = [nq]
            nq += 1
        if it % 2 == 0:
            items = sprinkle(rng, items, nq - len(idle), ["barrier"], count=1)
        obs = identity_on(rand_obs(rng, nq, ["dense", "sparse", "identity"][it % 3]), dead + idle)
        alphabet = [["A", "B"], ["A", "B", "C"], [0, 1, 2]][it % 3]
        flow = "labels" if it % 4 else "auto"
        labels = crossing_labels(rng, items, nq, alphabet) if flow == "labels" else None
        ns = "inf" if it % 3 else int(rng.integers(1, 7))
        desc = dict(nq=nq, items=items, obs=obs, flow=flow, labels=labels, num_samples=ns, seed=int(rng.integers(0, 2**31)))
        emit_problem(w, rng, "moves_fresh_labels", desc, per_problem)

    # unseparated circuits with own classical bits, mid-circuit measurements, user resets, barriers
    for it in range(n_dynamic):
        if it % 2:
            nq, items = gen_markers(rng)
            dead = []
        else:
            nq, items, dead = gen_moves(rng, reuse=bool(it % 4))
        nc = int(rng.integers(1, 3)) if it % 2 else 0        # cut_gates refuses circuits with classical registers
        items = sprinkle(rng, items, nq, ["reset", "measure", "measure", "barrier"] if nc else ["reset", "barrier"], nc=nc)
        obs = rand_obs(rng, nq, ["dense", "identity", "sparse"][it % 3])
        if it % 3 == 0:
            obs = identity_on(obs, dead)
        ns = "inf" if it % 3 else int(rng.integers(1, 7))
        desc = dict(nq=nq, nc=nc, items=items, obs=obs, flow="single", labels=None, num_samples=ns, seed=int(rng.integers(0, 2**31)))
        emit_problem(w, rng, "dynamic_unseparated", desc, per_problem)

    # re-use chains whose re-used qubit is afterwards only the second operand of two-qubit gates, identity on it
    for it in range(n_reuse_target):
        nq, items, quiet, pi = gen_reuse_target(rng)
        obs = identity_on(rand_obs(rng, nq, ["dense", "sparse"][it % 2]), quiet)
        flow = ["labels", "single", "auto"][it % 3]
        labels = None
        if flow == "labels":
            lab = ["A"] * nq
            lab[pi[2]] = "B"                      # the temporary qubit alone: both Moves are cut
            labels = "".join(lab)
        desc = dict(nq=nq, items=items, obs=obs, flow=flow, labels=labels, num_samples="inf", seed=int(rng.integers(0, 2**31)))
        emit_problem(w, rng, "moves_reuse_target", desc, per_problem + 4, nz_pick=5)

    for it in range(n_reuse):
        nq, items, _ = gen_moves(rng, reuse=True)
        obs = rand_obs(rng, nq, ["dense", "sparse", "identity"][it % 3])
        flow = ["single", "auto"][it % 2]
        ns = "inf" if it % 2 else int(rng.integers(1, 7))
        desc = dict(nq=nq, items=items, obs=obs, flow=flow, labels=None, num_samples=ns, seed=int(rng.integers(0, 2**31)))
        emit_problem(w, rng, "moves_reuse", desc, per_problem)

    # fresh Moves that all point from a higher onto a lower qubit index (never produced by cut_wires), cut through the public
    # cut_gates wrapper, identity on every source: the judge decides no-re-use on the STATED problem (plain Moves)
    for it in range(6 if quick else 80):
        nq, items, dead = gen_moves(rng, reuse=False, descending=True)
        obs = identity_on(rand_obs(rng, nq, ["dense", "sparse", "identity"][it % 3]), dead)
        flow = ["single", "auto"][it % 2]
        ns = "inf" if it % 3 else int(rng.integers(1, 7))
        desc = dict(nq=nq, items=items, obs=obs, flow=flow, labels=None, num_samples=ns, seed=int(rng.integers(0, 2**31)))
        emit_problem(w, rng, "moves_fresh_descending", desc, per_problem)
    for desc in FIXED_DESCENDING:
        emit_problem(w, rng, "fixed", dict(desc), 64)

    return w.finish(
        rule="problems: (markers) random circuits on 1..4 qubits, 0..6 gates, 1..3 CutWire markers at any position (first/last "
        "on a wire, several on one wire), through cut_wires + "
        "expand_observables; (moves_fresh) hand-placed Moves onto fresh qubits from abandoned qubits; (moves_obs_on_source) the same with "
        "observables that are NOT the identity on the abandoned source qubits (counts as a use); (moves_fresh_labels) fresh Moves with explicit 2-3 letter / integer labels, identity on "
        "abandoned qubits, optional barrier and idle qubit; (dynamic_unseparated) unseparated circuits with own classical bits, "
        "mid-circuit measurements, user resets and barriers; (moves_reuse) Move chains that re-use qubits; (moves_fresh_descending, and three fixed problems) fresh Moves that all go from a higher onto a lower qubit index, cut through "
        "the public cut_gates wrapper (unseparated / automatic partitions), identity on the sources - the judge decides 'no re-use' on the problem as STATED (plain Moves), not on cut_gates' output; (moves_reuse_target) chains b->c->b after which "
        "the re-used qubit is only the second operand of two-qubit gates and carries the identity (exact budget, 6 samples per group). Markers may be interleaved "
        "across qubits (a, b, a). EVERY generated case is judged (contract judge_accepts_clean_case). Observables: 1..3 Pauli strings, dense / single-letter / identity-only (identity on whole partitions); "
        "flows: partition_problem with automatic labels, with explicit random A/B labels (crossing gates are cut too), and the "
        "unseparated call; budgets inf and 1..6. Per problem the sampling is replayed under the same numpy seed and for up to "
        "8 (thorough 12) (partition, sample, group) triples - every (partition, group) at least once, every identity group - the "
        "pre-pass circuit is rebuilt through _append_measurement_register / decompose_qpd_instructions(inplace=True) and "
        "compared, together with the returned subexperiment, with Model/ResetFree.v. The judge additionally simulates (own numpy "
        "density-matrix branch simulator, <= 5 qubits, histogram *.values_check) the returned subexperiment and the same "
        "subexperiment with no reset removed and demands the same joint law of all classical bits (placeholder bit of an "
        "identity group marginalised out). distinct = distinct Coq case literal; "
        "non-trivial = the decomposed circuit contains at least one reset"
    )

"""Shared helpers for the correspondence harnesses (run under /venv/bin/python).

Every harness module harness/cNN.py exposes
    generate(rng, tier, budget_mult) -> Harness result written through CaseWriter
    judge(case_json)  -> dict(violates: bool, detail: str)   (property-level oracle)
and is driven by  harness/driver.py.
"""
from __future__ import annotations

import json
import os
import sys
import time
import traceback
from fractions import Fraction

# ----------------------------------------------------------------------------
# Coq literal emission
# ----------------------------------------------------------------------------


class Raw:
    def __init__(self, s):
        self.s = s


class Zc:  # Z literal
    def __init__(self, v):
        self.v = int(v)


class Nc:  # N literal
    def __init__(self, v):
        self.v = int(v)


class Qc:  # Q literal (exact)
    def __init__(self, v):
        self.v = Fraction(v)


class Opt:
    def __init__(self, v=None, some=None):
        self.v = v
        self.some = (v is not None) if some is None else some


class Res:
    def __init__(self, kind, v=None):
        assert kind in ("ok", "refused", "crashed")
        self.kind = kind
        self.v = v


def coq(v) -> str:
    if isinstance(v, Raw):
        return v.s
    if isinstance(v, bool):
        return "true" if v else "false"
    if isinstance(v, int):
        assert v >= 0, "nat literal must be non-negative"
        assert v < 5000, f"nat literal too large: {v}"
        return str(v)
    if isinstance(v, Zc):
        return f"({v.v})%Z"
    if isinstance(v, Nc):
        return f"({v.v})%N"
    if isinstance(v, Qc):
        return f"(Qmake ({v.v.numerator})%Z ({v.v.denominator})%positive)"
    if isinstance(v, Fraction):
        return coq(Qc(v))
    if isinstance(v, Opt):
        return f"(Some {coq(v.v)})" if v.some else "None"
    if isinstance(v, Res):
        if v.kind == "ok":
            return f"(Ok {coq(v.v)})"
        return "Refused" if v.kind == "refused" else "Crashed"
    if isinstance(v, tuple):
        return "(" + ", ".join(coq(x) for x in v) + ")"
    if isinstance(v, list):
        return "[" + "; ".join(coq(x) for x in v) + "]"
    raise TypeError(f"cannot emit Coq literal for {type(v)}: {v!r}")


# ----------------------------------------------------------------------------
# Canonicalising exceptions
# ----------------------------------------------------------------------------


def call_canon(f, *a, **k):
    """Run f; return ('ok', value) | ('refused', msg) | ('crashed', 'Type: msg')."""
    try:
        return ("ok", f(*a, **k))
    except ValueError as e:
        return ("refused", str(e)[:200])
    except Exception as e:  # noqa: BLE001
        return ("crashed", f"{type(e).__name__}: {str(e)[:200]}")


# ----------------------------------------------------------------------------
# Case writer
# ----------------------------------------------------------------------------


class CaseWriter:
    """Collects cases per checker; writes sharded .v files + meta.json.

    add(group, checker, coq_case, json_case, nontrivial=bool, key=hashable)
    group   : free name (stream), e.g. 'restrict'
    checker : Coq function  case -> bool  defined in the Corr file
    """

    SHARD = 300

    def __init__(self, outdir, imports, case_types=None):
        self.outdir = outdir
        self.imports = imports
        self.groups = {}  # group -> dict(checker, cases=[(coq, json)], ...)
        self.case_types = case_types or {}
        self.hist = {}
        self.contract_checks = {}
        self.notes = []
        self.t0 = time.time()

    def add(self, group, checker, coq_case, json_case, nontrivial=True, key=None):
        g = self.groups.setdefault(
            group, dict(checker=checker, cases=[], keys=set(), nontrivial_keys=set())
        )
        assert g["checker"] == checker
        k = key if key is not None else coq(coq_case)
        g["cases"].append((coq_case, json_case))
        g["keys"].add(k)
        if nontrivial:
            g["nontrivial_keys"].add(k)

    def count(self, name, key):
        h = self.hist.setdefault(name, {})
        key = str(key)
        h[key] = h.get(key, 0) + 1

    def contract(self, name, ok):
        c = self.contract_checks.setdefault(name, dict(checked=0, failed=0))
        c["checked"] += 1
        if not ok:
            c["failed"] += 1

    def finish(self, rule, extra=None):
        os.makedirs(self.outdir, exist_ok=True)
        files = []
        total = 0
        distinct_nontrivial = 0
        samples = []
        fileno = 0
        for gname, g in self.groups.items():
            cases = g["cases"]
            total += len(cases)
            distinct_nontrivial += len(g["nontrivial_keys"])
            if cases:
                samples.append({"group": gname, "case": cases[len(cases) // 2][1]})
            for s in range(0, len(cases), self.SHARD):
                shard = cases[s : s + self.SHARD]
                fname = f"cases_{fileno:03d}.v"
                fileno += 1
                with open(os.path.join(self.outdir, fname), "w") as f:
                    f.write(self.imports + "\n")
                    ty = self.case_types.get(g["checker"])
                    tyann = f" : list ({ty})" if ty else ""
                    f.write(f"Definition cs{tyann} := [\n")
                    f.write(";\n".join("  " + coq(c[0]) for c in shard))
                    f.write("\n].\n")
                    f.write(f"Eval vm_compute in tally (map {g['checker']} cs).\n")
                jname = fname[:-2] + ".json"
                with open(os.path.join(self.outdir, jname), "w") as f:
                    json.dump([c[1] for c in shard], f)
                files.append(dict(file=fname, json=jname, group=gname, checker=g["checker"], n=len(shard)))
        meta = dict(
            evaluations=total,
            distinct_nontrivial=distinct_nontrivial,
            rule=rule,
            samples=samples,
            histograms=self.hist,
            oracle_contract_checks=self.contract_checks,
            files=files,
            notes=self.notes,
            harness_wall_s=round(time.time() - self.t0, 2),
        )
        if extra:
            meta.update(extra)
        with open(os.path.join(self.outdir, "meta.json"), "w") as f:
            json.dump(meta, f, indent=1, default=str)
        return meta


# ----------------------------------------------------------------------------
# Interning of hashables as nat labels (Python ==/hash classes, like dict keys)
# ----------------------------------------------------------------------------


class Interner:
    def __init__(self):
        self.d = {}

    def __call__(self, x):
        if x not in self.d:
            self.d[x] = len(self.d)
        return self.d[x]


def tagged(x):
    """JSON-able tagged form of a label."""
    if x is None:
        return ["none"]
    if isinstance(x, bool):
        return ["bool", x]
    if isinstance(x, int):
        return ["int", x]
    if isinstance(x, float):
        return ["float", x]
    if isinstance(x, str):
        return ["str", x]
    if isinstance(x, tuple):
        return ["tuple", [tagged(y) for y in x]]
    if isinstance(x, frozenset):
        return ["frozenset", sorted((tagged(y) for y in x), key=str)]
    return ["repr", repr(x)]


def untag(t):
    k = t[0]
    if k == "none":
        return None
    if k in ("bool", "int", "float", "str"):
        return t[1]
    if k == "tuple":
        return tuple(untag(y) for y in t[1])
    if k == "frozenset":
        return frozenset(untag(y) for y in t[1])
    raise ValueError(t)

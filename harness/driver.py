"""Entry point executed under /venv/bin/python (PYTHONPATH=/repo, PYTHONHASHSEED=0).

  driver.py gen    <module> --seed S --tier T --out DIR
  driver.py judge  <module> --cases FILE.json --index I --out REPLAY.json
  driver.py replay <module> --file REPLAY.json
  driver.py witness <module> --name FID          (known-finding witness: prints JSON {fails: bool, detail})
"""
from __future__ import annotations

import argparse
import importlib
import json
import os
import sys
import warnings

sys.path.insert(0, os.path.dirname(os.path.abspath(__file__)))
warnings.filterwarnings("ignore")


def main():
    ap = argparse.ArgumentParser()
    ap.add_argument("cmd", choices=["gen", "judge", "judgeall", "replay", "witness"])
    ap.add_argument("module")
    ap.add_argument("--seed", type=int, default=0)
    ap.add_argument("--tier", default="quick")
    ap.add_argument("--out")
    ap.add_argument("--cases")
    ap.add_argument("--index", type=int)
    ap.add_argument("--file")
    ap.add_argument("--name")
    ap.add_argument("--dir")
    ap.add_argument("--max", type=int, default=600)
    a = ap.parse_args()
    import numpy as np

    mod = importlib.import_module(a.module)
    if a.cmd == "gen":
        rng = np.random.default_rng(a.seed)
        meta = mod.generate(rng, a.tier, a.out)
        print(json.dumps(dict(evaluations=meta["evaluations"], files=len(meta["files"]))))
    elif a.cmd == "judge":
        cases = json.load(open(a.cases))
        case = cases[a.index]
        verdict = mod.judge(case)
        out = dict(case=case, verdict=verdict)
        json.dump(out, open(a.out, "w"), indent=1, default=str)
        print(json.dumps(verdict, default=str))
    elif a.cmd == "judgeall":
        # search step when a proof obligation or the correspondence is broken: run the property-level oracle on the
        # implementation's recorded outputs of (a spread sample of) ALL generated cases, stop at the first violation
        import glob
        import time

        t0 = time.time()
        files = sorted(glob.glob(os.path.join(a.dir, "cases_*.json")))
        allc = []
        for f in files:
            cs = json.load(open(f))
            allc.extend((f, i, c) for i, c in enumerate(cs))
        step = max(1, len(allc) // max(1, a.max))
        judged = 0
        found = None
        # first a spread sample of --max cases, then (time permitting) every remaining case
        first = allc[::step]
        chosen = set(range(0, len(allc), step))
        rest = [x for k, x in enumerate(allc) if k not in chosen]
        for f, i, c in first + rest:
            if time.time() - t0 > 600:
                break
            try:
                v = mod.judge(c)
            except Exception as e:  # noqa: BLE001
                v = dict(violates=None, detail=f"judge raised {type(e).__name__}: {e}")
            judged += 1
            if v.get("violates"):
                found = dict(case=c, verdict=v, file=os.path.basename(f), index=i)
                break
        if found and a.out:
            json.dump(found, open(a.out, "w"), indent=1, default=str)
        print(json.dumps(dict(judged=judged, total=len(allc), found=bool(found), detail=(found or {}).get("verdict", {}).get("detail", "")[:300]), default=str))
    elif a.cmd == "replay":
        rep = json.load(open(a.file))
        case = rep.get("canonical_input") or rep.get("case")
        if case is None:
            print(json.dumps(dict(violates=None, detail="replay names a broken obligation/correspondence; no input to re-run")))
            return
        case = mod.rerun(case)
        verdict = mod.judge(case)
        print(json.dumps(dict(case=case, verdict=verdict), indent=1, default=str))
        sys.exit(1 if verdict.get("violates") else 0)
    elif a.cmd == "witness":
        r = mod.witness(a.name)
        print(json.dumps(r, default=str))


if __name__ == "__main__":
    main()

"""C07 correspondence: qiskit_addon_cutting.find_cuts (and the objects it leaves behind: final
DisjointSubcircuitsState, greedy state, SearchStats, SimpleGateList after export_cuts)  vs  Model/CutFinder.v.

The numpy Generator of the best-first priority queue is the only source of randomness; its outputs are
recorded (seed None included) by wrapping numpy.random.default_rng while find_cuts runs, and handed to the
model as the tape.  `judge` is an independent re-analysis of the recorded output from the property text
(own wire-segment union-find, own marker arithmetic, own feasibility search); it never looks at the Coq model.
"""
from __future__ import annotations

import os
from fractions import Fraction

import numpy as np
from qiskit.circuit import QuantumCircuit, QuantumRegister, Instruction, Gate, ClassicalRegister
from qiskit.circuit.library import (CXGate, CZGate, iSwapGate, DCXGate, SwapGate, HGate, TGate, RXGate, SXGate, CCXGate,
                                    RZZGate, CPhaseGate, CYGate, CHGate, ECRGate, CSGate, CSdgGate, CSXGate,
                                    RXXGate, RYYGate, RZXGate, CRXGate, CRYGate, CRZGate)

import qiskit_addon_cutting.automated_cut_finding as acf
from qiskit_addon_cutting.automated_cut_finding import find_cuts, OptimizationParameters, DeviceConstraints
from qiskit_addon_cutting.qpd import QPDBasis, TwoQubitQPDGate

from common import CaseWriter, Raw, coq
from circ import CircCtx, coq_circ, coq_op, circuit_registers

IMPORTS = ("From Coq Require Import QArith.\nFrom CKT Require Import Model.CutFinder Corr.C07Corr.\n"
           "Close Scope Q_scope.")
STRICT = os.environ.get("CKT_C07_STRICT", "0") == "1"

TWO_Q = {"cx": CXGate, "cz": CZGate, "iswap": iSwapGate, "dcx": DCXGate, "swap": SwapGate}
ONE_Q = {"h": HGate, "t": TGate, "sx": SXGate}
# further supported families (judge-only stream: kappa is not an exact integer in general)
TWO_Q_FIXED = {"cy": CYGate, "ch": CHGate, "ecr": ECRGate, "cs": CSGate, "csdg": CSdgGate, "csx": CSXGate}
TWO_Q_ANGLE = {"rzz": RZZGate, "rxx": RXXGate, "ryy": RYYGate, "rzx": RZXGate, "crx": CRXGate, "cry": CRYGate,
               "crz": CRZGate, "cp": CPhaseGate}
ACODE = {"CutTwoQubitGate": 1, "CutLeftWire": 2, "CutRightWire": 3, "CutBothWires": 4}


# ----------------------------------------------------------------------------------------
# circuits from a JSON description
# ----------------------------------------------------------------------------------------
def build_circuit(nq, ops, ncl=0, regs=None, global_phase=0.0):
    """regs: optional list of quantum register sizes (sum = nq); default one register"""
    if regs:
        assert sum(regs) == nq
        qc = QuantumCircuit(*[QuantumRegister(sz, f"r{k}") for k, sz in enumerate(regs)], global_phase=global_phase)
    else:
        qc = QuantumCircuit(nq, global_phase=global_phase)
    if ncl:
        qc.add_register(ClassicalRegister(ncl, "c"))
    for o in ops:
        n, qs = o["name"], o["qs"]
        lab = o.get("label")
        if n in TWO_Q:
            qc.append(TWO_Q[n](label=lab) if lab else TWO_Q[n](), qs)
        elif n in TWO_Q_FIXED:
            qc.append(TWO_Q_FIXED[n](), qs)
        elif n in TWO_Q_ANGLE:
            qc.append(TWO_Q_ANGLE[n](o["params"][0]), qs)
        elif n in ONE_Q:
            qc.append(ONE_Q[n](), qs)
        elif n == "rx":
            qc.append(RXGate(o["params"][0]), qs)
        elif n == "barrier":
            qc.barrier(*qs, label=lab) if lab else qc.barrier(*qs)
        elif n == "opaque2":            # a 2-qubit Instruction that is not a Gate: gamma None, cannot be gate-cut
            qc.append(Instruction("opaque2", 2, 0, []), qs)
        elif n == "ccx":
            qc.append(CCXGate(), qs)
        else:
            raise ValueError(n)
    return qc


# ----------------------------------------------------------------------------------------
# running the implementation with the random tape recorded / replayed and the optimizer captured
# ----------------------------------------------------------------------------------------
class TapeGen:
    def __init__(self, gen, tape, replay):
        self.gen, self.tape, self.replay = gen, tape, list(replay or [])

    def random(self):
        real = self.gen.random()
        v = self.replay.pop(0) if self.replay else real
        self.tape.append(float(v))
        return v


def run_impl(qc, W, gate_lo, wire_lo, max_gamma, max_backjumps, seed, replay=None):
    """-> dict(status, out_circuit, metadata, optimizer, interface, tape, error)"""
    tape = []
    captured = []
    real_rng = np.random.default_rng
    real_opt = acf.LOCutsOptimizer

    def fake_rng(s=None):
        return TapeGen(real_rng(s), tape, replay)

    class Capt(real_opt):
        def __init__(self, *a, **k):
            super().__init__(*a, **k)
            captured.append(self)

    res = dict(tape=tape, optimizer=None)
    np.random.default_rng = fake_rng
    acf.LOCutsOptimizer = Capt
    try:
        try:
            cons = DeviceConstraints(W)
            params = OptimizationParameters(seed=seed, max_gamma=max_gamma, max_backjumps=max_backjumps,
                                            gate_lo=gate_lo, wire_lo=wire_lo)
            out, md = find_cuts(qc, params, cons)
            res.update(status="ok", out=out, md=md)
        except ValueError as e:
            res.update(status="refused", error=str(e)[:200])
        except Exception as e:  # noqa: BLE001
            res.update(status="crashed", error=f"{type(e).__name__}: {str(e)[:200]}")
    finally:
        np.random.default_rng = real_rng
        acf.LOCutsOptimizer = real_opt
    if captured:
        res["optimizer"] = captured[-1]
    return res


def state_view(st):
    """canonical, compression-independent view of a DisjointSubcircuitsState"""
    if st is None:
        return None
    c = st.copy()
    n = int(c.uptree.shape[0])
    roots = [int(c.find_wire_root(w)) for w in range(n)]
    widths = [int(st.width[r]) for r in range(n) if roots[r] == r]
    acts = []
    for a in st.actions:
        raw = a.args[0] if a.action.get_name() == "CutTwoQubitGate" else a.args   # gate cut: (((1,w1),(2,w2)),)
        args = [[int(x) for x in t] for t in raw]
        acts.append([ACODE[a.action.get_name()], int(a.gate_spec.instruction_id), args])
    return dict(wiremap=[int(x) for x in st.wiremap], num_wires=int(st.num_wires), roots=roots, widths=widths,
                no_merge=[[int(a), int(b)] for a, b in st.no_merge],
                gamma=str(Fraction(float(st.gamma_UB))), actions=acts,
                level=(None if st.level is None else int(st.level)))


def stats_view(s):
    return None if s is None else [int(s.states_visited), int(s.next_states_generated), int(s.states_enqueued), int(s.backjumps)]


def iface_view(itf):
    new = []
    for e in itf.new_circuit:
        if isinstance(e, str):
            new.append(["bar"])
        elif isinstance(e, list):
            new.append(["move", int(e[1]), int(e[2])])
        else:
            new.append(["el", 0 if e.name == "barrier" else 1, [int(q) for q in e.qubits],
                        None if e.gamma is None else str(Fraction(float(e.gamma)))])
    return dict(new=new, cut_type=[c is not None for c in itf.cut_type], map=[int(x) for x in itf.new_gate_id_map],
                out_wires=[int(x) for x in itf.output_wires],
                subs=sorted(sorted(int(w) for w in s) for s in itf.subcircuits))


def pipeline_width(out):
    """second half of the observation point: the package's own cut_wires + partition_problem (automatic labels) on the
    returned circuit; only meaningful for barrier-free circuits (DESIGN O1: automatic labels treat barriers as connectivity).
    -> max subcircuit width, or a string describing an exception"""
    from qiskit_addon_cutting import cut_wires, partition_problem
    try:
        pp = partition_problem(circuit=cut_wires(out))
        return max([sc.num_qubits for sc in pp.subcircuits.values()] or [0])
    except Exception as e:  # noqa: BLE001
        return f"{type(e).__name__}: {str(e)[:120]}"


def analyse(case):
    """run the implementation on case['input']; fill case['impl'] (JSON-able) and return the Coq literal pieces"""
    inp = case["input"]
    qc = build_circuit(inp["nq"], inp["ops"], inp.get("ncl", 0), inp.get("regs"), inp.get("global_phase", 0.0))
    ctx = CircCtx()
    cin = ctx.canon_circuit(qc)
    # gate table: kappa and canonical wrapped form for every 2-qubit Gate instance
    gtab = {}
    for inst in qc.data:
        op = inst.operation
        if isinstance(op, Gate) and len(inst.qubits) == 2 and op.name != "barrier":
            g = ctx.gate_id(op)
            if g not in gtab:
                try:
                    kappa = Fraction(float(QPDBasis.from_instruction(op).kappa))
                    gtab[g] = (kappa, ctx.canon_op(TwoQubitQPDGate.from_instruction(op)))
                except ValueError:
                    pass        # unsupported 2-qubit Gate: qc_to_cco_circuit itself raises ValueError (outside the domain)
    r = run_impl(qc, inp["W"], inp["gate_lo"], inp["wire_lo"], inp["max_gamma"], inp["max_backjumps"], inp["seed"],
                 replay=case.get("replay_tape"))
    impl = dict(status=r["status"], error=r.get("error"), tape=[str(Fraction(t)) for t in r["tape"]])
    opt = r["optimizer"]
    visited = 0
    if opt is not None and opt.cut_optimization is not None:
        st = opt.cut_optimization.get_stats()
        visited = int(st.states_visited)
        impl["stats"] = stats_view(st)
        impl["pen_stats"] = stats_view(opt.cut_optimization.get_stats(penultimate=True))
        impl["greedy"] = state_view(opt.cut_optimization.greedy_goal_state)
        impl["minimum_reached_engine"] = bool(opt.cut_optimization.minimum_reached())
    case["shape_in"] = dict(circuit_registers(qc), global_phase=float(qc.global_phase))
    if r["status"] == "ok":
        impl["out"] = ctx.canon_circuit(r["out"])
        impl["shape_out"] = dict(circuit_registers(r["out"]), global_phase=float(r["out"].global_phase))
        impl["pipeline"] = pipeline_width(r["out"]) if inp.get("pipeline") else None
        # the QPD bases actually placed in the returned circuit vs the basis of the INPUT gate at the same position
        placed = []
        j = 0
        for pos, ci in enumerate(r["out"].data):
            if ci.operation.name == "cut_wire":
                continue
            if isinstance(ci.operation, TwoQubitQPDGate) and j < len(qc.data) and not isinstance(qc.data[j].operation, TwoQubitQPDGate):
                try:
                    want = QPDBasis.from_instruction(qc.data[j].operation)
                    same = bool(ci.operation.basis == want)
                    kin = str(Fraction(float(want.kappa)))
                except Exception as e:  # noqa: BLE001
                    same, kin = False, f"{type(e).__name__}"
                placed.append([pos, str(Fraction(float(ci.operation.basis.kappa))), kin, same])
            j += 1
        impl["placed"] = placed
        md = r["md"]
        impl["cuts"] = [[k, int(i)] for k, i in md["cuts"]]
        impl["overhead"] = str(Fraction(float(md["sampling_overhead"])))
        impl["minimum_reached"] = bool(md["minimum_reached"])
        impl["best"] = state_view(opt.best_result)
        impl["iface"] = iface_view(opt.circuit_interface)
    case["impl"] = impl
    case["canon_in"] = cin
    case["gtab"] = {str(g): [str(k), w] for g, (k, w) in gtab.items()}
    case["fuel"] = visited + len(r["tape"]) + 20
    return case


# ----------------------------------------------------------------------------------------
# Coq literals
# ----------------------------------------------------------------------------------------
def natlit(n):
    n = int(n)
    return str(n) if n < 4000 else f"(N.to_nat {n}%N)"


def qlit(fr):
    fr = Fraction(fr)
    return f"(Qmake ({fr.numerator})%Z ({fr.denominator})%positive)"


def lst(items):
    return "[" + "; ".join(items) + "]"


def tape_lit(tape):
    out = []
    for t in tape:
        fr = Fraction(t)
        k = fr * (1 << 53)
        assert k.denominator == 1
        out.append(f"T {int(k)}")
    return "(tape_of " + lst(out) + ")"


def sview_lit(v):
    acts = lst(["(%d, %s, %s)" % (a[0], natlit(a[1]), lst([lst([natlit(x) for x in t]) for t in a[2]])) for a in v["actions"]])
    return ("(mkSV %s %s %s %s %s %s %s %s)" % (
        lst([natlit(x) for x in v["wiremap"]]), natlit(v["num_wires"]), lst([natlit(x) for x in v["roots"]]),
        lst([natlit(x) for x in v["widths"]]), lst(["(%s, %s)" % (natlit(a), natlit(b)) for a, b in v["no_merge"]]),
        qlit(v["gamma"]), acts, natlit(v["level"])))


def stats_lit(s):
    return "(mkSt %s %s %s %s)" % tuple(natlit(x) for x in s)


def nelem_lit(e):
    if e[0] == "bar":
        return "NBar"
    if e[0] == "move":
        return f"(NMove {natlit(e[1])} {natlit(e[2])})"
    g = "None" if e[3] is None else f"(Some {qlit(e[3])})"
    return f"(NEl {e[1]} {lst([natlit(q) for q in e[2]])} {g})"


def case_lit(case):
    inp, impl = case["input"], case["impl"]
    gt = lst(["(%s, (%s, %s))" % (g, qlit(v[0]), coq_op(v[1])) for g, v in case["gtab"].items()])
    mb = "None" if inp["max_backjumps"] is None else f"(Some ({int(inp['max_backjumps'])})%Z)"
    fin = "(mkIn %d %d %s %s %d %s %s %s %s %s)" % (
        inp["nq"], inp.get("ncl", 0), coq(coq_circ(case["canon_in"])), gt, max(0, inp["W"]),
        coq(bool(inp["gate_lo"])), coq(bool(inp["wire_lo"])), qlit(Fraction(inp["max_gamma"])), mb, tape_lit(impl["tape"]))
    if impl["status"] == "ok":
        cuts = lst(["(%s, %s)" % ("GateCut" if k == "Gate Cut" else "WireCut", natlit(i)) for k, i in impl["cuts"]])
        itf = impl["iface"]
        ex = "(Ok (mkEx %s %s %s %s %s %s %s %s %s %s %s %s %s %s))" % (
            coq(coq_circ(impl["out"])), cuts, qlit(impl["overhead"]), coq(impl["minimum_reached"]),
            sview_lit(impl["best"]), ("None" if impl["greedy"] is None else "(Some %s)" % sview_lit(impl["greedy"])),
            stats_lit(impl["stats"]), stats_lit(impl["pen_stats"]), natlit(len(impl["tape"])),
            lst([nelem_lit(e) for e in itf["new"]]), lst([coq(bool(b)) for b in itf["cut_type"]]),
            lst([natlit(x) for x in itf["map"]]), lst([natlit(x) for x in itf["out_wires"]]),
            lst([lst([natlit(x) for x in s]) for s in itf["subs"]]))
    elif impl["status"] == "refused":
        ex = "Refused"
    else:
        ex = "Crashed"
    return Raw("(mkCase %s %s %s %s)" % (fin, natlit(case["fuel"]), coq(STRICT), ex))


# ----------------------------------------------------------------------------------------
# generators
# ----------------------------------------------------------------------------------------
def rand_ops(rng, nq, n2q, kinds2, p_idle=0.2, p_barrier=0.15, p_1q=0.4, opaque=False):
    active = [q for q in range(nq) if rng.random() > p_idle]
    if len(active) < 2:
        active = [int(x) for x in rng.permutation(nq)[:2]]
    ops = []
    left = n2q
    while left > 0 or (rng.random() < 0.2 and len(ops) < 40):
        u = rng.random()
        if u < p_1q:
            q = int(rng.choice(active))
            k = int(rng.integers(0, 4))
            if k == 3:
                ops.append(dict(name="rx", params=[float(rng.integers(1, 8)) / 8.0], qs=[q]))
            else:
                ops.append(dict(name=["h", "t", "sx"][k], qs=[q]))
        elif u < p_1q + p_barrier:
            if rng.random() < 0.4:
                ops.append(dict(name="barrier", qs=list(range(nq))))          # full barrier
            else:
                m = int(rng.integers(1, nq)) if nq > 1 else 1
                qs = [int(x) for x in rng.permutation(nq)[:m]]                 # partial barrier (may touch idle qubits)
                ops.append(dict(name="barrier", qs=qs))
        elif left > 0:
            a, b = [int(x) for x in rng.permutation(len(active))[:2]]
            nm = str(rng.choice(kinds2))
            if opaque and rng.random() < 0.25:
                nm = "opaque2"
            ops.append(dict(name=nm, qs=[active[a], active[b]]))
            left -= 1
    return ops


MAX_GAMMAS = [1, 2, 3, 9, 49, 1024]
BACKJUMPS = [0, 1, 5, 10000, None]
LO = [(True, False), (False, True), (True, True)]


def settings(rng, nq):
    # all widths 1..n occur; small widths (where cuts are forced) are favoured
    u = rng.random()
    if u < 0.4:
        W = int(rng.integers(1, nq + 1))
    elif u < 0.85:
        W = int(rng.integers(2, max(2, nq // 2 + 1) + 1))
    else:
        W = 1
    W = min(W, nq)
    gl, wl = LO[int(rng.integers(0, 3))]
    mg = MAX_GAMMAS[int(rng.choice(len(MAX_GAMMAS), p=[0.1, 0.1, 0.1, 0.15, 0.2, 0.35]))]
    if rng.random() < 0.12:          # non-integer and very large limits (dyadic, so exact in binary64 and in Q)
        mg = [1.5, 2.5, 10.75, 1e6][int(rng.integers(0, 4))]
    mb = BACKJUMPS[int(rng.choice(len(BACKJUMPS), p=[0.1, 0.15, 0.2, 0.3, 0.25]))]
    u = rng.random()
    seed = None if u < 0.3 else (int(rng.integers(2 ** 32, 2 ** 40)) if u < 0.36 else int(rng.integers(0, 1000)))
    return dict(W=W, gate_lo=gl, wire_lo=wl, max_gamma=mg, max_backjumps=mb, seed=seed)


def exactness(impl):
    """binary64 is exact for the search as long as the greedy gamma stays below 2^53 (all enqueued costs are then
    exact integers); returns False when that is not guaranteed"""
    g = impl.get("greedy")
    if g is None:
        return True
    return Fraction(g["gamma"]) < (1 << 53)


def generate(rng, tier, outdir):
    w = CaseWriter(outdir, IMPORTS, case_types={"chk_fc": "fc_case"})
    w.SHARD = 40
    quick = tier == "quick"
    n_main = 330 if quick else 2500
    n_small = 0 if quick else 900
    n_mal = 40 if quick else 300
    max2q = 10 if quick else 25
    visit_cap = 2000 if quick else 2000

    flagged = []      # cases the oracle rejects: written to cases_-flagged.json so that run.py's search step reports them

    def judged(case, contract="judge_accepts_clean_case"):
        # the property-level oracle must accept every case generated on the unchanged tree (a flagged case is either a real
        # finding or a false alarm of the oracle; both must surface on a green run, not only after some unrelated mismatch)
        try:
            v = judge(case)
        except Exception as e:  # noqa: BLE001
            v = dict(violates=True, detail=f"judge raised {type(e).__name__}: {e}")
        w.contract(contract, not v.get("violates"))
        if v.get("violates") and len(flagged) < 20:
            flagged.append(case)
        if v.get("violates") and len(w.notes) < 5:
            w.notes.append(dict(contract=contract, detail=v["detail"][:400], input=case["input"],
                                impl={k: case["impl"].get(k) for k in ("status", "error", "cuts", "overhead", "out")}))
        return v

    def emit(group, inp, nontrivial=None, thin=False):
        inp.setdefault("pipeline", True)
        case = dict(kind=group, input=inp)
        analyse(case)
        impl = case["impl"]
        judged(case)
        if thin:
            # keep only a fraction of the uninformative outcomes (no cut needed / immediate refusal)
            if impl["status"] == "ok" and not impl["cuts"] and rng.random() > 0.2:
                return None
            if impl["status"] == "refused" and rng.random() > 0.35:
                return None
        w.count(group + ".status", impl["status"])
        if not exactness(impl):
            w.count(group + ".skipped", "greedy gamma >= 2^53 (binary64 inexact)")
            return None
        if impl.get("stats") and impl["stats"][0] > visit_cap:
            w.count(group + ".skipped", f"more than {visit_cap} states visited (model evaluation budget)")
            return None
        if impl["status"] == "ok":
            nw = sum(1 for k, _ in impl["cuts"] if k == "Wire Cut")
            ng = len(impl["cuts"]) - nw
            w.count(group + ".gate_cuts", min(ng, 6))
            w.count(group + ".wire_cuts", min(nw, 6))
            w.count(group + ".minimum_reached", impl["minimum_reached"])
            w.count(group + ".visited_log2", int(impl["stats"][0]).bit_length())
            w.count(group + ".returned", "same as greedy" if impl["best"] == impl["greedy"] else "search improved on greedy")
            # oracle contracts: the tape values are in [0,1); one draw per push of the heap
            w.contract("tape values in [0,1)", all(0 <= Fraction(t) < 1 for t in impl["tape"]))
            w.contract("draws >= enqueued states", len(impl["tape"]) >= impl["stats"][2])
        nt = (impl["status"] == "ok" and len(impl["cuts"]) > 0) if nontrivial is None else nontrivial
        w.add(group, "chk_fc", case_lit(case), case, nontrivial=nt)
        return case

    # ---- main stream ----
    kept = 0
    while kept < n_main:
        nq = int(rng.integers(2, 9))
        n2q = int(rng.integers(0, max2q + 1)) if rng.random() < 0.8 else int(rng.integers(0, 4))
        if rng.random() < 0.5:
            kinds = ["cx", "cz", "iswap", "dcx", "swap"]
        else:
            kinds = [["cx"], ["cx", "swap"], ["iswap", "cz"]][int(rng.integers(0, 3))]
        ops = rand_ops(rng, nq, n2q, kinds, opaque=(rng.random() < 0.08))
        inp = dict(nq=nq, ops=ops, **settings(rng, nq))
        if emit("main", inp, thin=True) is None:
            continue
        kept += 1
        w.count("main.nq", nq)
        w.count("main.n2q", n2q)
        w.count("main.W", inp["W"])
        w.count("main.cut_kinds", f"gate={inp['gate_lo']},wire={inp['wire_lo']}")
        w.count("main.max_gamma", inp["max_gamma"])
        w.count("main.max_backjumps", inp["max_backjumps"])
        w.count("main.seed", "None" if inp["seed"] is None else "int")

    # ---- targeted corner cases (every tier) ----
    targeted = [
        # greedy pass dead-ends (opaque gate cannot be cut, greedy applied cx before) but the search finds a plan
        (3, [dict(name="cx", qs=[0, 1]), dict(name="opaque2", qs=[1, 2])]),
        (4, [dict(name="cx", qs=[2, 0]), dict(name="h", qs=[3]), dict(name="opaque2", qs=[0, 1]), dict(name="cx", qs=[1, 2])]),
        # the F3 witness of DESIGN section 6
        (3, [dict(name="cx", qs=[0, 1]), dict(name="swap", qs=[1, 2])]),
        # no instruction / barriers only / one-qubit gates only / partial barrier touching an idle qubit
        (2, []),
        (3, [dict(name="barrier", qs=[0, 1, 2]), dict(name="barrier", qs=[2, 0])]),
        (3, [dict(name="h", qs=[2]), dict(name="rx", params=[0.25], qs=[0])]),
        (4, [dict(name="barrier", qs=[3, 1]), dict(name="cx", qs=[1, 2]), dict(name="barrier", qs=[0, 1, 2, 3]), dict(name="swap", qs=[2, 0]),
             dict(name="cx", qs=[1, 2])]),
        # the same pair cut repeatedly: both-wire cuts inside one subcircuit
        (2, [dict(name="cx", qs=[0, 1]), dict(name="cx", qs=[1, 0]), dict(name="iswap", qs=[0, 1])]),
        # repeated pairs (ApplyGate on two qubits that already share a subcircuit) followed by gates that force wire cuts
        (3, [dict(name="cx", qs=[0, 1]), dict(name="cx", qs=[0, 1]), dict(name="cx", qs=[0, 2]), dict(name="cx", qs=[0, 1])]),
        (4, [dict(name="cx", qs=[2, 3]), dict(name="cz", qs=[3, 2]), dict(name="cx", qs=[2, 3]), dict(name="cx", qs=[1, 2]),
             dict(name="cx", qs=[2, 3]), dict(name="cx", qs=[1, 0]), dict(name="cx", qs=[0, 1]), dict(name="cx", qs=[0, 3])]),
        (3, [dict(name="cx", qs=[1, 2]), dict(name="cx", qs=[1, 2]), dict(name="cx", qs=[2, 1]), dict(name="cx", qs=[0, 1]),
             dict(name="cx", qs=[1, 2]), dict(name="cx", qs=[1, 2]), dict(name="cx", qs=[0, 2])]),
    ]
    for nq, ops in targeted:
        for W in range(1, nq + 1):
            for gl, wl in LO:
                for mg, mb in ((1024, 10000), (2, None), (9, 0)):
                    inp = dict(nq=nq, ops=[dict(o) for o in ops], W=W, gate_lo=gl, wire_lo=wl, max_gamma=mg, max_backjumps=mb,
                               seed=int(rng.integers(0, 100)))
                    emit("targeted", inp, nontrivial=True)

    # ---- all widths x all cut-kind combinations on the same small circuit (thorough) ----
    for it in range(n_small):
        nq = int(rng.integers(2, 6))
        ops = rand_ops(rng, nq, int(rng.integers(1, 7)), ["cx", "swap"], p_idle=0.15)
        W = 1 + it % nq
        gl, wl = LO[(it // nq) % 3]
        inp = dict(nq=nq, ops=ops, W=W, gate_lo=gl, wire_lo=wl, max_gamma=MAX_GAMMAS[int(rng.integers(0, 6))],
                   max_backjumps=BACKJUMPS[int(rng.integers(0, 5))], seed=int(rng.integers(0, 50)))
        emit("small", inp)

    # ---- malformed stream ----
    for it in range(n_mal):
        nq = int(rng.integers(3, 7))
        mode = it % 5
        ops = rand_ops(rng, nq, int(rng.integers(0, 5)), ["cx", "swap"], p_idle=0.0)
        inp = dict(nq=nq, ops=ops, **settings(rng, nq))
        if mode in (0, 1):      # a 3-qubit gate somewhere
            pos = int(rng.integers(0, len(ops) + 1))
            ops.insert(pos, dict(name="ccx", qs=[int(x) for x in rng.permutation(nq)[:3]]))
        elif mode == 2:         # invalid settings
            u = rng.random()
            if u < 0.35:
                inp["max_gamma"] = 0.5
            elif u < 0.7:
                inp["max_backjumps"] = -1
            else:
                inp["W"] = 0
        elif mode == 3:         # no cut kind allowed at all
            inp["gate_lo"] = False
            inp["wire_lo"] = False
        else:                   # classical bits present: cut_gates refuses
            inp["ncl"] = 1
        w.count("malformed.mode", ["ccx", "ccx", "bad-settings", "no-cut-kinds", "clbits"][mode])
        emit("malformed", inp, nontrivial=True)

    # ---- judge-only stream (no model comparison): the part of the quantifier the exact model comparison cannot take ----
    # all registered gate families with random angles (kappa not dyadic), 9-10 qubits, up to 25 two-qubit gates,
    # several quantum registers, global phase, labelled gates/barriers; big searches and gammas beyond 2^53 are kept
    n_wide = 90 if quick else 700
    fam_fixed = list(TWO_Q) + list(TWO_Q_FIXED)
    fam_angle = list(TWO_Q_ANGLE)
    for it in range(n_wide):
        nq = int(rng.integers(2, 11))
        n2q = int(rng.integers(1, 15)) if (quick or rng.random() < 0.6) else int(rng.integers(15, 26))
        ops = rand_ops(rng, nq, n2q, ["cx"], p_idle=0.15)
        for o in ops:
            if len(o["qs"]) == 2 and o["name"] == "cx":
                if rng.random() < 0.5:
                    o["name"] = fam_angle[int(rng.integers(0, len(fam_angle)))]
                    o["params"] = [float(rng.uniform(0.05, 3.1))]
                else:
                    o["name"] = fam_fixed[int(rng.integers(0, len(fam_fixed)))]
                    if o["name"] in TWO_Q and rng.random() < 0.1:
                        o["label"] = "lbl"
            elif o["name"] == "barrier" and rng.random() < 0.3:
                o["label"] = "sep"
        regs = None
        if rng.random() < 0.6 and nq >= 2:
            k = int(rng.integers(1, nq))
            regs = [k, nq - k] if rng.random() < 0.7 or nq - k < 2 else [k, 1, nq - k - 1]
        inp = dict(nq=nq, ops=ops, regs=regs, global_phase=float(rng.integers(0, 8)) / 4.0, pipeline=True, **settings(rng, nq))
        case = dict(kind="wide", input=inp)
        analyse(case)
        v = judged(case, contract="wide_stream_judge_ok")
        w.count("wide.status", case["impl"]["status"])
        w.count("wide.nq", nq)
        w.count("wide.regs", "one" if not regs else len(regs))
        if case["impl"]["status"] == "ok":
            w.count("wide.cuts", min(len(case["impl"]["cuts"]), 8))
    # ---- judge-only: several gate cuts of ONE parametrised family with DIFFERENT angles (each cut gate must carry the basis of
    # ITS input gate; overhead = product over the bases actually placed) ----
    n_fam = 24 if quick else 150
    for it in range(n_fam):
        fam = fam_angle[it % len(fam_angle)]
        k = int(rng.integers(2, 4))                      # k pairs joined in a ring by k gates of the family; W = 2, gate cuts only
        nq = 2 * k
        ops = []
        for a in range(k):
            ops.append(dict(name="cx", qs=[2 * a, 2 * a + 1]))
        angles = [float(x) for x in rng.permutation([0.25, 0.6, 1.1, 1.7, 2.0, 2.6])[:k]]
        for a in range(k):
            ops.append(dict(name=fam, params=[angles[a]], qs=[2 * a + 1, (2 * a + 2) % nq]))
            if rng.random() < 0.4:
                ops.append(dict(name="h", qs=[int(rng.integers(0, nq))]))
        inp = dict(nq=nq, ops=ops, W=2, gate_lo=True, wire_lo=bool(rng.random() < 0.3), max_gamma=1024,
                   max_backjumps=[10000, None, 0][int(rng.integers(0, 3))], seed=int(rng.integers(0, 1000)), pipeline=True)
        case = dict(kind="families", input=inp)
        analyse(case)
        judged(case, contract="families_stream_judge_ok")
        w.count("families.family", fam)
        w.count("families.gate_cuts", sum(1 for kd, _ in (case["impl"].get("cuts") or []) if kd == "Gate Cut"))

    # observation (outside the model: Q has no infinity): max_gamma = inf with a dead-ended greedy pass -> OverflowError
    for ops, W, gl, wl in (([dict(name="cx", qs=[0, 1])], 1, False, True),
                           ([dict(name="cx", qs=[0, 1]), dict(name="opaque2", qs=[1, 2])], 2, True, False),
                           ([dict(name="cx", qs=[0, 1]), dict(name="swap", qs=[1, 2])], 2, True, True)):
        case = dict(kind="obs", input=dict(nq=3, ops=ops, W=W, gate_lo=gl, wire_lo=wl, max_gamma=float("inf"),
                                           max_backjumps=10, seed=1))
        analyse(case)
        w.count("observation.max_gamma_inf", f"{case['impl']['status']}: {str(case['impl'].get('error'))[:60]}")

    if flagged:
        os.makedirs(outdir, exist_ok=True)
        import json as _json
        with open(os.path.join(outdir, "cases_-flagged.json"), "w") as f:
            _json.dump(flagged, f, default=str)

    return w.finish(
        rule="random circuits on 2..8 qubits with up to %d two-qubit gates from {cx,cz: gamma 3; iswap,dcx,swap: gamma 7} (exact in "
             "binary64), one-qubit gates, idle qubits, arbitrary first use, partial and full barriers, occasionally an opaque 2-qubit "
             "non-Gate instruction; W in 1..n, cut kinds {gate, wire, both}, max_gamma in {1,2,3,9,49,1024}, max_backjumps in "
             "{0,1,5,10000,None}, seed None or int with the queue's random tape recorded; malformed stream: 3-qubit gate, invalid "
             "settings (max_gamma < 1, negative max_backjumps, W = 0), no cut kind, classical bits; targeted corner cases; boundary "
             "settings (non-integer and huge max_gamma, seeds >= 2^32); a judge-only stream (no model comparison: all gate families with "
             "random angles, 9-10 qubits, several registers, global phase, labels) and a monitored contract that the property-level "
             "oracle accepts every generated case. Compared: output instruction list, cuts, overhead, minimum_reached, final and greedy "
             "state (wiremap, roots, widths, no_merge, gamma_UB, actions, level), SearchStats (+penultimate), tape consumption, "
             "SimpleGateList after export_cuts. non-trivial = at least one cut made." % max2q,
        extra=dict(extra=dict(strict=STRICT)))


# ----------------------------------------------------------------------------------------
# property-level oracle (independent of the Coq model)
# ----------------------------------------------------------------------------------------
class _UF:
    def __init__(self):
        self.p = {}

    def find(self, x):
        self.p.setdefault(x, x)
        while self.p[x] != x:
            self.p[x] = self.p[self.p[x]]
            x = self.p[x]
        return x

    def union(self, a, b):
        a, b = self.find(a), self.find(b)
        if a != b:
            self.p[a] = b

    def sizes(self):
        s = {}
        for x in list(self.p):
            r = self.find(x)
            s[r] = s.get(r, 0) + 1
        return s


def _is_multi(d):
    return d["op"][0] not in ("barrier", "cut_wire", "qpd2") and len(d["qs"]) >= 2


def _segments_ok(out, W):
    """independent wire-segment analysis of the OUTPUT circuit"""
    seg = {}
    uf = _UF()

    def cur(q):
        return (q, seg.get(q, 0))

    for d in out:
        k = d["op"][0]
        for q in d["qs"]:
            uf.find(cur(q))
        if k == "cut_wire":
            q = d["qs"][0]
            seg[q] = seg.get(q, 0) + 1
            uf.find(cur(q))
        elif _is_multi(d):
            for q in d["qs"][1:]:
                uf.union(cur(d["qs"][0]), cur(q))
    sz = uf.sizes()
    worst = max(sz.values()) if sz else 0
    return worst <= W, worst


def _feasible_exists(gates, W, gate_lo, wire_lo, budget=2_000_000):
    """is there an assignment leave/gate/left/right/both (permitted kinds only) with all components <= W ?
    gates: list of (q1, q2, cuttable).  Depth-first over all assignments, pruned as soon as a component exceeds W
    (components never shrink)."""
    nodes = [0]

    def rec(i, seg, parent, size):
        nodes[0] += 1
        if nodes[0] > budget:
            raise RuntimeError("budget")
        if i == len(gates):
            return True
        q1, q2, cuttable = gates[i]
        kinds = ["leave"]
        if gate_lo and cuttable:
            kinds.append("gate")
        if wire_lo:
            kinds += ["left", "right", "both"]

        def find(p, x):
            while p[x] != x:
                x = p[x]
            return x

        for kind in kinds:
            seg2, p2, s2 = dict(seg), dict(parent), dict(size)

            def node(q):
                n = (q, seg2.get(q, 0))
                if n not in p2:
                    p2[n] = n
                    s2[n] = 1
                return n

            node(q1), node(q2)
            if kind == "gate":
                ok = True
            else:
                if kind in ("left", "both"):
                    seg2[q1] = seg2.get(q1, 0) + 1
                if kind in ("right", "both"):
                    seg2[q2] = seg2.get(q2, 0) + 1
                a, b = find(p2, node(q1)), find(p2, node(q2))
                if a != b:
                    p2[a] = b
                    s2[b] += s2[a]
                ok = s2[find(p2, b)] <= W
            if ok and rec(i + 1, seg2, p2, s2):
                return True
        return False

    return rec(0, {}, {}, {})


def _in_domain(case):
    """the property's quantifier = the hypotheses of the C07 theorems: one- and two-qubit GATES of supported families
    (every two-qubit instruction has a QPD basis, i.e. is cuttable) and barriers, no classical bits, W >= 1,
    finite max_gamma >= 1, max_backjumps None or >= 0, seed None or a non-negative integer"""
    inp, cin, gtab = case["input"], case["canon_in"], case["gtab"]
    reasons = []
    for d in cin:
        k = d["op"][0]
        if k == "barrier":
            continue
        if k != "gate":
            reasons.append(f"non-gate instruction {d['op']}")
        elif len(d["qs"]) > 2:
            reasons.append("gate on more than two qubits")
        elif len(d["qs"]) == 2 and str(d["op"][1]) not in gtab:
            reasons.append(f"two-qubit instruction {d['op'][2]} without a QPD basis (not a supported gate)")
    if inp.get("ncl", 0) != 0:
        reasons.append("classical bits")
    mg = inp["max_gamma"]
    if not (mg >= 1) or mg == float("inf"):
        reasons.append(f"max_gamma={mg}")
    if not (inp["max_backjumps"] is None or inp["max_backjumps"] >= 0):
        reasons.append("negative max_backjumps")
    if inp["W"] < 1:
        reasons.append("W < 1")
    if not (inp["seed"] is None or inp["seed"] >= 0):
        reasons.append("negative seed")
    return reasons


def judge(case):
    inp, impl = case["input"], case["impl"]
    W = inp["W"]
    cin = case["canon_in"]
    gtab = case["gtab"]
    outside = _in_domain(case)
    in_domain = not outside
    if impl["status"] != "ok":
        if not in_domain:
            return dict(violates=False, detail=f"input outside the property's domain ({'; '.join(outside)}); implementation answered "
                        f"{impl['status']}: {impl.get('error')}")
        if impl["status"] == "crashed":
            return dict(violates=True, detail=f"non-ValueError exception on a valid request: {impl.get('error')}")
        gates = []
        for d in cin:
            if d["op"][0] != "barrier" and len(d["qs"]) == 2:
                cuttable = d["op"][0] == "gate" and str(d["op"][1]) in gtab
                gates.append((d["qs"][0], d["qs"][1], cuttable))
        try:
            feas = _feasible_exists(gates, W, inp["gate_lo"], inp["wire_lo"])
        except RuntimeError:
            return dict(violates=False, detail="feasibility search budget exhausted; undecided")
        return dict(violates=bool(feas), detail=f"ValueError raised ({impl.get('error')}); a feasible assignment of permitted cut kinds "
                    + ("EXISTS" if feas else "does not exist"))
    out = impl["out"]
    problems = []
    # (0) the output circuit has the shape of the input: qubits, registers, classical bits, global phase
    if "shape_in" in case and "shape_out" in impl and case["shape_in"] != impl["shape_out"]:
        problems.append(f"circuit shape changed: {case['shape_in']} -> {impl['shape_out']}")
    # (1) only markers added
    stripped = [d for d in out if d["op"][0] != "cut_wire"]
    if len(stripped) != len(cin):
        problems.append(f"output without CutWire has {len(stripped)} instructions, input has {len(cin)}")
    else:
        for i, (a, b) in enumerate(zip(stripped, cin)):
            if a["qs"] != b["qs"] or a["cs"] != b["cs"]:
                problems.append(f"instruction {i}: qubits changed {b['qs']} -> {a['qs']}")
            elif a["op"][0] == "qpd2" and b["op"][0] != "qpd2":
                ent = gtab.get(str(b["op"][1])) if b["op"][0] == "gate" else None
                if ent is None or ent[1] != a["op"] or len(b["qs"]) != 2:
                    problems.append(f"instruction {i}: cut gate is not the wrapped form of the input gate {b['op']}")
            elif a["op"] != b["op"]:
                problems.append(f"instruction {i}: operation changed {b['op']} -> {a['op']}")
    # (2) every CutWire sits directly before the (uncut) two-qubit gate it refers to, on one of its qubits, in input order
    i = 0
    while i < len(out):
        if out[i]["op"][0] == "cut_wire":
            j = i
            qs = []
            while j < len(out) and out[j]["op"][0] == "cut_wire":
                qs.append(out[j]["qs"][0])
                j += 1
            if j == len(out) or out[j]["op"][0] != "gate" or len(out[j]["qs"]) != 2:
                problems.append(f"CutWire run at {i} is not followed by an uncut two-qubit gate")
            else:
                gq = out[j]["qs"]
                if len(set(qs)) != len(qs) or any(q not in gq for q in qs):
                    problems.append(f"CutWire run at {i} on qubits {qs} does not match the inputs {gq} of the following gate")
                elif [gq.index(q) for q in qs] != sorted(gq.index(q) for q in qs):
                    problems.append(f"CutWire run at {i}: markers not in input order")
            i = j
        else:
            i += 1
    # (3) metadata = positions and kinds of the markers
    want = [["Gate Cut" if d["op"][0] == "qpd2" else "Wire Cut", i] for i, d in enumerate(out) if d["op"][0] in ("qpd2", "cut_wire")]
    if want != impl["cuts"]:
        problems.append(f"metadata cuts {impl['cuts']} != markers in the output {want}")
    # (4) width: own segment analysis, and (when recorded) the package's own cut_wires + partition_problem
    ok, worst = _segments_ok(out, W)
    if not ok:
        problems.append(f"a subcircuit needs {worst} qubits > {W}")
    pw = impl.get("pipeline")
    if pw is not None and not any(d["op"][0] == "barrier" for d in out):
        if not isinstance(pw, int):
            problems.append(f"cut_wires + partition_problem failed on the returned circuit: {pw}")
        elif pw > W:
            problems.append(f"cut_wires + partition_problem gives a subcircuit of {pw} qubits > {W}")
    # (5) accounting: exact where binary64 is (integer kappas, product below 2^52), relative 1e-9 otherwise
    prod = Fraction(1)
    exact = True
    if len(stripped) == len(cin):
        for a, b in zip(stripped, cin):
            if a["op"][0] == "qpd2" and b["op"][0] == "gate" and str(b["op"][1]) in gtab:
                kap = Fraction(gtab[str(b["op"][1])][0])
                exact = exact and kap.denominator == 1
                prod *= kap ** 2
    prod *= Fraction(16) ** sum(1 for d in out if d["op"][0] == "cut_wire")
    # (5b) every cut gate carries the QPD basis of the input gate at its position (same maps/coefficients, same kappa), and the
    # reported overhead is the product over the bases ACTUALLY in the returned circuit
    if impl.get("placed") is not None:
        prod2 = Fraction(16) ** sum(1 for d in out if d["op"][0] == "cut_wire")
        for pos, kout, kin, same in impl["placed"]:
            if not same:
                problems.append(f"cut gate at output position {pos} does not carry the QPD basis of the input gate there "
                                f"(kappa {float(Fraction(kout)):.6g} instead of {kin if '/' not in kin else float(Fraction(kin)):.6g})"
                                if "/" in kin or kin.isdigit() else f"cut gate at {pos}: basis of the input gate unavailable ({kin})")
            prod2 *= Fraction(kout) ** 2
        if abs(Fraction(impl["overhead"]) - prod2) > prod2 * Fraction(1, 10 ** 9):
            problems.append(f"reported overhead {float(Fraction(impl['overhead'])):.9g} != product over the cut gates and markers actually "
                            f"in the returned circuit {float(prod2):.9g}")
    got = Fraction(impl["overhead"])
    if exact and prod <= 2 ** 52:
        acc_ok = got == prod
    else:
        acc_ok = abs(got - prod) <= prod * Fraction(1, 10 ** 9)
    if not acc_ok:
        problems.append(f"reported overhead {got} != product over the cuts present {prod}")
    if not in_domain:
        return dict(violates=False, detail=f"input outside the property's domain ({'; '.join(outside)}); " + "; ".join(problems))
    return dict(violates=bool(problems), detail="; ".join(problems) or "output consistent with the property")


def rerun(case):
    case = dict(case)
    if case.get("impl") and case["impl"].get("tape"):
        case["replay_tape"] = [float(Fraction(t)) for t in case["impl"]["tape"]]
    analyse(case)
    case.pop("replay_tape", None)
    return case

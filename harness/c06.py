"""C06 correspondence: reconstruct_expectation_values, _process_outcome, _process_outcome_v2,
_outcome_to_int  vs  Model/Reconstruct.v.

Every case is first a JSON *spec* (plain data); `execute(spec)` builds the Qiskit objects, runs the
implementation, and reads what the model needs (groups / bitmasks / lookup from the real
ObservableCollection, dict items after QuasiDistribution construction, BitArray rows).  The same
`execute` serves `rerun`.  All quasi-probabilities / coefficients are dyadic and shot counts are powers
of two, so binary64 arithmetic is exact and results are compared as exact rationals.
"""
from __future__ import annotations

import collections
import types
from fractions import Fraction

import numpy as np
from qiskit.primitives import BitArray, DataBin, PrimitiveResult, SamplerPubResult, SamplerResult
from qiskit.quantum_info import Pauli, PauliList
from qiskit.result import QuasiDistribution

from qiskit_addon_cutting import reconstruct_expectation_values
from qiskit_addon_cutting.cutting_decomposition import decompose_observables
from qiskit_addon_cutting.cutting_reconstruction import _outcome_to_int, _process_outcome, _process_outcome_v2
from qiskit_addon_cutting.qpd import WeightType
from qiskit_addon_cutting.utils.observable_grouping import CommutingObservableGroup, ObservableCollection

from common import CaseWriter, Interner, Nc, Opt, Qc, Raw, Res, Zc, call_canon, coq, tagged, untag

IMPORTS = ("From Coq Require Import QArith String. "
           "From CKT Require Import Common.Base Model.Observables Model.Grouping Model.Reconstruct Corr.C06Corr. "
           "Close Scope Q_scope. Open Scope nat_scope.")
CASE_TYPES = {
    "chk_reconstruct": "robj * list Q * oobj * res (list Q)",
    "chk_outcome_to_int": "key * option N",
    "chk_pyint0": "string * option N",
    "chk_process_outcome": "nat * list N * key * res (list Z)",
    "chk_process_outcome_v2": "list N * N * N * list Z",
    "chk_from_bytes": "list N * N",
    "chk_reconstruct_tol": "robj * list Q * oobj * res (list Q)",
    "chk_cog": "letters * list letters * list nat * list N",
    "chk_lookup": "list lgroup * list letters * list (list (nat * nat))",
    "chk_collection_part": "list pauli * list pauli * list (list pauli) * list (nat * list N) * list (list (nat * nat))",
}
LETTER = {"I": 0, "X": 1, "Y": 2, "Z": 3}


def letters(label):
    """Pauli label (big-endian text) -> one letter code per qubit index"""
    return [LETTER[c] for c in reversed(label)]


def derive_cog(general, members):
    """(pauli_indices, bitmasks) straight from the labels: measured = non-identity qubits of the general observable,
    ascending; bit i of a member's mask <=> the member is non-identity on the i-th measured qubit."""
    n = len(general)
    idx = [q for q in range(n) if general[n - 1 - q] != "I"]
    masks = [sum(1 << i for i, q in enumerate(idx) if m[n - 1 - q] != "I") for m in members]
    return idx, masks


def derive_lookup(groups, label):
    return [(m, k) for m, g in enumerate(groups) for k, x in enumerate(g["members"]) if x == label]
LABEL_POOL = [0, 1, 2, "A", "B", "foo", (1, 2), ("a", 0), None, 3.5, True, frozenset([1]), -7, "", "0b1"]
SAFE = set("0123456789abcdefABCDEFxXoOgGzZ _")


# ----------------------------------------------------------------------------------------------
# small helpers
# ----------------------------------------------------------------------------------------------

def fr(x):
    """exact [num, den] of a number"""
    f = Fraction(x)
    return [f.numerator, f.denominator]


def unfr(p):
    return Fraction(p[0], p[1])


def mk_pauli(phase, label):
    p = Pauli(label)
    p.phase = phase
    return p


def mk_plist(items):
    return PauliList([mk_pauli(ph, lab) for ph, lab in items])


def coq_str(s):
    assert set(s) <= SAFE, s
    return Raw(f'"{s}"%string')


def coq_key(k):
    if isinstance(k, int):
        return Raw(f"(KI {coq(Nc(k))})")
    return Raw(f"(KS {coq_str(k).s})")


def key_json(k):
    return ["int", int(k)] if isinstance(k, int) else ["str", k]


def key_unjson(t):
    return int(t[1]) if t[0] == "int" else t[1]


# ----------------------------------------------------------------------------------------------
# building objects from a spec
# ----------------------------------------------------------------------------------------------

def mk_bitarray(samples, num_bits):
    """Qiskit's own packing of integer samples (from_samples); the degenerate shapes directly."""
    if num_bits == 0 or not samples:
        return BitArray(np.zeros((len(samples), (num_bits + 7) // 8), dtype=np.uint8), num_bits=num_bits)
    return BitArray.from_samples(samples, num_bits=num_bits)


def build_data(d):
    """spec data -> result object (SamplerResult | PrimitiveResult)"""
    if d["v"] == 1:
        dists = []
        for items in d["dists"]:
            dd = {key_unjson(k): float(unfr(p)) for k, p in items}
            dists.append(QuasiDistribution(dd) if d["container"] == "quasi" else dd)
        return SamplerResult(quasi_dists=dists, metadata=[{} for _ in dists])
    pubs = []
    for ob_bits, qp_bits, shots in zip(d["obs_bits"], d["qpd_bits"], d["pubs"]):
        ob = mk_bitarray([s[0] for s in shots], ob_bits)
        qp = mk_bitarray([s[1] for s in shots], qp_bits)
        regs = {}
        if d.get("extra"):  # an unrelated register of the same shot count, listed first
            regs["meas"] = mk_bitarray([(s[0] * 7 + s[1] + 1) % 8 for s in shots], 3)
        if d.get("order", "obs_first") == "qpd_first":  # the order real subexperiments have
            regs["qpd_measurements"] = qp
            regs["observable_measurements"] = ob
        else:
            regs["observable_measurements"] = ob
            regs["qpd_measurements"] = qp
        pubs.append(SamplerPubResult(DataBin(shape=(), **regs)))
    return PrimitiveResult(pubs)


def wrap_mapping(d, how):
    if how == "ordered":
        return collections.OrderedDict(d)
    if how == "proxy":
        return types.MappingProxyType(d)
    return d


def build_results(r):
    if r["type"] == "leaf":
        return build_data(r["data"])
    if r["type"] == "map":
        return wrap_mapping({untag(l): build_data(d) for l, d in r["items"]}, r.get("mapping"))
    return {"none": None, "list": [1, 2], "str": "results"}[r["what"]]


def build_obs(o):
    if o["type"] == "paulilist":
        return mk_plist(o["paulis"])
    if o["type"] == "map":
        return wrap_mapping({untag(l): mk_plist(ps) for l, ps in o["items"]}, o.get("mapping"))
    return {"none": None, "list": ["ZZ", "XX"], "str": "ZZ"}[o["what"]]


def build_coeffs(cs, container="list"):
    out = [(float(unfr(c)), WeightType[w]) for c, w in cs]
    return tuple(out) if container == "tuple" else out


# ----------------------------------------------------------------------------------------------
# reading the model input from the real objects
# ----------------------------------------------------------------------------------------------

class Monitor:
    def __init__(self, w=None):
        self.w = w

    def contract(self, name, ok):
        if self.w is not None:
            self.w.contract(name, ok)


def part_of(label_id, plist, mon):
    """(coq literal, aux json) of one partition from its sub-observable PauliList.

    Only the GROUP STRUCTURE (which observables share a group, the group's general observable) is read from the real
    ObservableCollection; the model recomputes pauli_indices, bitmasks and lookup from the letters.  The real values are
    compared with label-derived ones by monitors here and by the `cog` / `lookup` correspondence streams."""
    phases = [int(p.phase) for p in plist]
    if any(phases):
        # ObservableCollection cannot be built; the implementation refuses before it needs one
        return Raw(f"(PL {label_id} {coq(phases)} [] [])"), dict(groups=None)
    oc = ObservableCollection(plist)
    aux_groups = []
    for g in oc.groups:
        gen = g.general_observable.to_label()
        members = [p.to_label() for p in g.commuting_observables]
        mon.contract("group_labels_have_phase_0", g.general_observable.phase == 0 and all(p.phase == 0 for p in g.commuting_observables))
        union = "".join(next((m[i] for m in members if m[i] != "I"), "I") for i in range(len(gen)))
        mon.contract("general_observable_is_union_of_members", gen == union)
        idx, masks = derive_cog(gen, members)
        mon.contract("pauli_indices_are_the_measured_qubits", [int(i) for i in g.pauli_indices] == idx)
        mon.contract("bitmasks_match_labels", [int(m) for m in g.pauli_bitmasks] == masks)
        aux_groups.append(dict(general=gen, members=members, impl_indices=[int(i) for i in g.pauli_indices],
                               impl_masks=[int(m) for m in g.pauli_bitmasks]))
    sub_labels = [p.to_label() for p in plist]
    impl_lookup = []
    for k in range(len(plist)):
        locs = [(int(m), int(n)) for m, n in oc.lookup[plist[k]]]
        mon.contract("lookup_matches_labels", locs == derive_lookup(aux_groups, sub_labels[k]))
        mon.contract("lookup_has_exactly_one_location", len(locs) == 1)
        impl_lookup.append(locs)
    groups_lit = [(letters(g["general"]), [letters(m) for m in g["members"]]) for g in aux_groups]
    lit = Raw(f"(PL {label_id} {coq(phases)} {coq(groups_lit)} {coq([letters(x) for x in sub_labels])})")
    return lit, dict(groups=aux_groups, subobs=sub_labels, impl_lookup=impl_lookup)


def data_lit(obj, d, mon):
    """coq literal of a result object as the implementation sees it."""
    if isinstance(obj, SamplerResult):
        dists = []
        for qd in obj.quasi_dists:
            items = []
            for k, p in qd.items():
                if isinstance(qd, QuasiDistribution):
                    mon.contract("quasidistribution_keys_are_ints", isinstance(k, int))
                items.append(Raw(f"({coq_key(k if isinstance(k, str) else int(k)).s}, {coq(Qc(Fraction(float(p))))})"))
            dists.append(items)
        return Raw(f"(DV1 {coq(dists)})")
    pubs = []
    for j, pub in enumerate(obj):
        oa = pub.data.observable_measurements.array
        qa = pub.data.qpd_measurements.array
        shots = []
        for s in range(qa.shape[0]):
            orow = [int(b) for b in oa[s]]
            qrow = [int(b) for b in qa[s]]
            if d is not None:
                want = d["pubs"][j][s]
                mon.contract("bitarray_rows_are_big_endian",
                             int.from_bytes(bytes(orow), "big") == want[0] and int.from_bytes(bytes(qrow), "big") == want[1])
            shots.append(([Nc(b) for b in orow], [Nc(b) for b in qrow]))
        pubs.append(shots)
    return Raw(f"(DV2 {coq(pubs)})")


def canon_impl(r):
    if r[0] == "ok":
        return ["ok", [fr(float(x)) for x in r[1]]]
    return [r[0], r[1]]


def execute(spec, mon=None):
    """Run the implementation on a spec.  Returns (impl canonical result, coq case tuple, aux)."""
    mon = mon or Monitor()
    ids = Interner()
    obs = build_obs(spec["obs"])
    results = build_results(spec["results"])
    coeffs = build_coeffs(spec["coeffs"], spec.get("coeff_container", "list"))
    r = call_canon(reconstruct_expectation_values, results, coeffs, obs)
    impl = canon_impl(r)
    aux = {}
    # ---- observables side ----
    o = spec["obs"]
    if o["type"] == "paulilist":
        phases = [int(p.phase) for p in obs]
        sub = decompose_observables(obs, "A" * len(obs[0]))["A"]
        if any(phases):
            olit = Raw(f"(OList (PL 0 {coq(phases)} [] []))")
            aux["parts"] = [dict(groups=None)]
        else:
            plit, a = part_of(0, sub, mon)
            olit = Raw(f"(OList {plit.s})")
            aux["parts"] = [a]
    elif o["type"] == "map":
        parts = []
        aux["parts"] = []
        for l, pl in obs.items():
            plit, a = part_of(ids(l), pl, mon)
            parts.append(plit)
            aux["parts"].append(a)
        olit = Raw(f"(OMap {coq(parts)})")
    else:
        olit = Raw("OOther")
    # ---- results side ----
    rs = spec["results"]
    if rs["type"] == "leaf":
        rlit = Raw(f"(RLeaf {data_lit(results, rs['data'] if rs['data']['v'] == 2 else None, mon).s})")
    elif rs["type"] == "map":
        items = []
        for (l, robj), (_, d) in zip(results.items(), rs["items"]):
            items.append((ids(l), data_lit(robj, d if d["v"] == 2 else None, mon)))
        rlit = Raw(f"(RMap {coq(items)})")
    else:
        rlit = Raw("ROther")
    exp = Res("ok", [Qc(unfr(x)) for x in impl[1]]) if impl[0] == "ok" else Res(impl[0])
    case = (rlit, [Qc(unfr(c)) for c, _ in spec["coeffs"]], olit, exp)
    return impl, case, aux


# ----------------------------------------------------------------------------------------------
# generators
# ----------------------------------------------------------------------------------------------

def rand_subobs(rng, n, nobs):
    """nobs Pauli labels on n qubits: several commuting groups, identity, duplicates."""
    mode = int(rng.integers(0, 7))
    labs = []
    if mode >= 5:  # every observable in its own basis on a shared qubit: as many groups as distinct observables
        q = int(rng.integers(0, n))
        for j in range(nobs):
            base = list(rng.choice(list("IXYZ"), size=n))
            base[q] = "XYZ"[j % 3] if j < 3 else str(rng.choice(list("XYZ")))
            labs.append("".join(base))
    elif mode == 0:  # one Z/I family: a single group with up to n measured bits
        for _ in range(nobs):
            labs.append("".join(rng.choice(list("IZ"), size=n, p=[0.3, 0.7])))
    elif mode == 1:  # fully random letters: several groups
        for _ in range(nobs):
            labs.append("".join(rng.choice(list("IXYZ"), size=n)))
    elif mode == 2:  # two dense general observables and random restrictions of them
        gens = ["".join(rng.choice(list("XYZ"), size=n)) for _ in range(2)]
        for _ in range(nobs):
            g = gens[int(rng.integers(0, 2))]
            keep = rng.integers(0, 4, size=n) > 0
            labs.append("".join(c if k else "I" for c, k in zip(g, keep)))
    elif mode == 3:  # all identity / mostly identity
        for _ in range(nobs):
            labs.append("I" * n if rng.integers(0, 2) else "".join(rng.choice(list("IIIZX"), size=n)))
    else:  # dense single general observable, all measured
        g = "".join(rng.choice(list("XYZ"), size=n))
        for _ in range(nobs):
            keep = rng.integers(0, 3, size=n) > 0
            labs.append("".join(c if k else "I" for c, k in zip(g, keep)))
    # identity and duplicates
    if nobs >= 2 and rng.integers(0, 3) == 0:
        labs[int(rng.integers(0, nobs))] = "I" * n
    if nobs >= 2 and rng.integers(0, 3) == 0:
        a, b = rng.integers(0, nobs, size=2)
        labs[int(a)] = labs[int(b)]
    return labs


def dyadic(rng, den_log, bound):
    """k / 2^den_log with |value| <= bound, either sign"""
    k = int(rng.integers(-bound * (1 << den_log), bound * (1 << den_log) + 1))
    return Fraction(k, 1 << den_log)


def fmt_key(rng, o, width, fmt):
    if fmt == "int":
        return o
    if fmt in ("0b", "0B"):
        return fmt + format(o, "b").zfill(int(rng.integers(1, width + 2)))
    if fmt in ("0x", "0X"):
        s = format(o, "x")
        return fmt + (s.upper() if rng.integers(0, 4) == 0 else s)
    if fmt == "bin":
        return format(o, "b").zfill(width)
    if fmt == "bin_sp":  # binary with spaces (only reaches _outcome_to_int through a plain dict)
        s = format(o, "b").zfill(width)
        cut = int(rng.integers(0, len(s) + 1))
        return s[:cut] + " " + s[cut:]
    raise ValueError(fmt)


def rand_v1(rng, nexp, nbits_of_exp, w, den_log=6, bound=2):
    container = "quasi" if rng.integers(0, 5) < 3 else "dict"
    dists = []
    for e in range(nexp):
        nb = nbits_of_exp(e)
        nq = int(rng.integers(0, 13))
        width = nb + nq
        nout = int(rng.integers(1, min(8, 1 << width) + 1))
        outs = set()
        while len(outs) < nout:
            o = int(rng.integers(0, 1 << width))
            if rng.integers(0, 3) == 0:
                o |= 1 << (width - 1)  # make the top QPD bit matter
            outs.add(o)
        if container == "quasi":
            f = ["int", "0b", "0x", "bin"][int(rng.integers(0, 4))]
            fmts = [f] * nout
        else:
            fmts = [["int", "0b", "0x", "bin", "bin_sp", "0B", "0X"][int(rng.integers(0, 7))] for _ in range(nout)]
        items = []
        for o, f in zip(sorted(outs, key=lambda _: rng.random()), fmts):
            p = dyadic(rng, den_log, bound)
            items.append([key_json(fmt_key(rng, o, width, f)), fr(p)])
            w.count("v1.key_format", f)
            w.count("v1.quasi_prob_sign", "neg" if p < 0 else "zero" if p == 0 else "pos")
        w.count("v1.obs_bits", nb)
        w.count("v1.qpd_bits", nq)
        dists.append(items)
    w.count("v1.container", container)
    return dict(v=1, container=container, dists=dists)


def rand_v2(rng, nexp, nbits_of_exp, w, tier, min_qpd=0, odd_shots=False):
    obs_bits, qpd_bits, pubs = [], [], []
    nq = int(rng.integers(min_qpd, 13)) if (min_qpd or rng.integers(0, 8)) else 0
    for e in range(nexp):
        nb = nbits_of_exp(e)
        if odd_shots:
            shots = int(rng.choice([3, 5, 6, 7, 10, 12]))
            if rng.integers(0, 12) == 0:
                shots = 100
            if tier != "quick" and rng.integers(0, 25) == 0 and nexp <= 6:
                shots = 1000
        else:
            shots = 1 << int(rng.integers(0, 5 if tier == "quick" else 7))
            if rng.integers(0, 40) == 0:
                shots = 64
        pubs.append([[int(rng.integers(0, 1 << nb)) | ((1 << (nb - 1)) if rng.integers(0, 3) == 0 else 0),
                      (int(rng.integers(0, 1 << nq)) | ((1 << (nq - 1)) if rng.integers(0, 3) == 0 else 0)) if nq else 0]
                     for _ in range(shots)])
        obs_bits.append(nb)
        qpd_bits.append(nq)
        w.count("v2.pub_has_repeated_shot", len({tuple(x) for x in pubs[-1]}) < len(pubs[-1]))
        w.count("v2.obs_bits", nb)
        w.count("v2.qpd_bits", nq)
        w.count("v2.shots", shots)
        w.count("v2.both_registers_cross_a_byte", nb >= 9 and nq >= 9)
    order = "qpd_first" if rng.integers(0, 3) else "obs_first"
    extra = bool(rng.integers(0, 4) == 0)
    w.count("v2.databin_order", order + ("+extra" if extra else ""))
    return dict(v=2, obs_bits=obs_bits, qpd_bits=qpd_bits, pubs=pubs, order=order, extra=extra)


def v1_twin(d):
    """V1 data describing the same shots as the V2 data d (key qpd*2^nb + obs, weight count/shots)."""
    dists = []
    for nb, shots in zip(d["obs_bits"], d["pubs"]):
        acc = {}
        for ob, qp in shots:
            k = (qp << nb) + ob
            acc[k] = acc.get(k, 0) + 1
        dists.append([[["int", k], fr(Fraction(c, len(shots)))] for k, c in acc.items()])
    return dict(v=1, container="quasi", dists=dists)


def groups_of(labels):
    """number of groups and measured bits per group for a list of phase-0 labels (from the real code)."""
    oc = ObservableCollection(PauliList(labels))
    return [max(1, len(g.pauli_indices)) for g in oc.groups]


def gen_valid_spec(rng, w, tier, force_bits=None, odd_shots=False):
    """A well-formed spec.  Exactness of binary64 on it (not for odd_shots): every E is a multiple of 2^-b1 bounded by 2^b2
    with b1+b2 <= 10 (<= 3 partitions) resp. 7 (4-5 partitions); coefficients are multiples of 1/8 bounded by 2; so every
    intermediate product/sum needs at most 5*7+4+3 = 42 < 53 mantissa bits."""
    nparts = int(rng.integers(1, 4)) if rng.integers(0, 5) else int(rng.integers(4, 6))
    nobs = int(rng.integers(1, 5)) if rng.integers(0, 5) else int(rng.integers(5, 7))
    ncoeff = int(rng.integers(1, 7))
    if nparts >= 4:
        ncoeff = min(ncoeff, 3)
    den_log, bound = (6, 2) if nparts <= 3 else (4, 1)
    coeffs = []
    for _ in range(ncoeff):
        c = dyadic(rng, 3, 2)
        coeffs.append([fr(c), "EXACT" if rng.integers(0, 2) else "SAMPLED"])
        w.count("coeff.sign", "neg" if c < 0 else "zero" if c == 0 else "pos")
    pool = [LABEL_POOL[i] for i in rng.permutation(len(LABEL_POOL))]
    labels, seen = [], Interner()
    for l in pool:  # distinct as dict keys (True == 1 etc.)
        before = len(seen.d)
        seen(l)
        if len(seen.d) > before:
            labels.append(l)
        if len(labels) == nparts:
            break
    form = "list" if (nparts == 1 and rng.integers(0, 2)) else "map"
    obs_items, res_items, twin_items = [], [], []
    any_v2 = False
    for l in labels:
        n = force_bits or int(rng.choice([1, 2, 3, 4, 6, 9, 10, 12]))
        labs = rand_subobs(rng, n, nobs)
        nbs = groups_of(labs)
        G = len(nbs)
        nexp = ncoeff * G
        if odd_shots or rng.integers(0, 2) == 0:
            d = rand_v2(rng, nexp, lambda e: nbs[e % G], w, tier, min_qpd=9 if force_bits else 0, odd_shots=odd_shots)
            t = v1_twin(d)
            any_v2 = True
        else:
            d = rand_v1(rng, nexp, lambda e: nbs[e % G], w, den_log, bound)
            t = d
        obs_items.append([tagged(l), [[0, s] for s in labs]])
        res_items.append([tagged(l), d])
        twin_items.append([tagged(l), t])
        w.count("part.ngroups", G)
        w.count("part.nqubits", n)
    w.count("nparts", nparts)
    w.count("nobs", nobs)
    w.count("ncoeff", ncoeff)
    w.count("call_form", form)
    cc = "tuple" if rng.integers(0, 4) == 0 else "list"
    if form == "list":
        spec = dict(kind="reconstruct", obs=dict(type="paulilist", paulis=obs_items[0][1]),
                    results=dict(type="leaf", data=res_items[0][1]), coeffs=coeffs, coeff_container=cc)
        twin = dict(spec, results=dict(type="leaf", data=twin_items[0][1]))
    else:
        # the results dict is ordered independently of the observables dict
        perm = [int(i) for i in rng.permutation(nparts)] if rng.integers(0, 2) else list(range(nparts))
        w.count("results_dict_order", "same" if perm == sorted(perm) else "permuted")
        maps = ["dict", "dict", "ordered", "proxy"]
        om, rm = maps[int(rng.integers(0, 4))], maps[int(rng.integers(0, 4))]
        w.count("mapping_types", om + "/" + rm)
        spec = dict(kind="reconstruct", obs=dict(type="map", items=obs_items, mapping=om),
                    results=dict(type="map", items=[res_items[i] for i in perm], mapping=rm), coeffs=coeffs, coeff_container=cc)
        twin = dict(spec, results=dict(type="map", items=[twin_items[i] for i in perm], mapping=rm))
    if odd_shots:
        spec["exact"] = False
        twin["exact"] = False
    return spec, (twin if any_v2 else None)


def corrupt(rng, spec, w):
    """Turn a valid spec into a malformed one; returns the name of the defect."""
    import copy
    s = copy.deepcopy(spec)
    kinds = ["count", "phase", "types", "badkey"] + (["keyset"] if s["obs"]["type"] == "map" else [])
    kind = kinds[int(rng.integers(0, len(kinds)))]

    def datas():
        r = s["results"]
        return [r["data"]] if r["type"] == "leaf" else [d for _, d in r["items"]]

    if kind == "count":
        ds = datas()
        d = ds[int(rng.integers(0, len(ds)))]
        seq = d["dists"] if d["v"] == 1 else d["pubs"]
        cols = [seq] + ([d["obs_bits"], d["qpd_bits"]] if d["v"] == 2 else [])
        ncoeff = max(1, len(s["coeffs"]))
        G = max(1, len(seq) // ncoeff)
        how = ["drop1", "add1", "dropG", "addG", "double"][int(rng.integers(0, 5))]
        if how in ("drop1", "dropG") and len(seq) > 0:
            for _ in range(min(len(seq), 1 if how == "drop1" else G)):
                j = int(rng.integers(0, len(seq)))
                for c in cols:  # the same index from the data and from both width lists
                    c.pop(j)
        else:
            L0 = len(seq)
            extra = 1 if how in ("add1", "drop1") else G if how in ("addG", "dropG") else max(1, L0)
            for t in range(extra):  # duplicate existing experiments (same index in all three lists)
                for c in cols:
                    c.append(c[t % L0] if L0 else ([] if c is seq else 1))
        w.count("malformed.count_how", how)
    elif kind == "phase":
        pls = [s["obs"]["paulis"]] if s["obs"]["type"] == "paulilist" else [ps for _, ps in s["obs"]["items"]]
        pl = pls[int(rng.integers(0, len(pls)))]
        pl[int(rng.integers(0, len(pl)))][0] = int(rng.integers(1, 4))
    elif kind == "types":
        t = int(rng.integers(0, 4))
        if t == 0:  # observables of an unsupported type
            s["obs"] = dict(type="other", what=["none", "list", "str"][int(rng.integers(0, 3))])
        elif t == 1:  # results of an unsupported type
            s["results"] = dict(type="other", what=["none", "list", "str"][int(rng.integers(0, 3))])
        elif s["obs"]["type"] == "paulilist":  # PauliList with a dict of results
            s["results"] = dict(type="map", items=[[tagged("A"), s["results"]["data"]]])
        else:  # dict of observables with a bare result
            s["results"] = dict(type="leaf", data=s["results"]["items"][0][1])
    elif kind == "keyset":
        t = int(rng.integers(0, 3))
        if t == 0:
            s["results"]["items"].append([tagged("extra"), s["results"]["items"][0][1]])
        elif t == 1 and len(s["results"]["items"]) > 1:
            s["results"]["items"].pop()
        else:
            s["results"]["items"][0][0] = tagged("renamed")
    elif kind == "badkey":
        v1 = [d for d in datas() if d["v"] == 1]
        if not v1:
            return corrupt(rng, spec, w)
        d = v1[int(rng.integers(0, len(v1)))]
        d["container"] = "dict"
        bad = ["", "2", "0xg", "0b", "0b12", "1g", "g1", "0o9", "z", "012", "0x"][int(rng.integers(0, 11))]
        e = int(rng.integers(0, len(d["dists"])))
        d["dists"][e].append([["str", bad], fr(Fraction(1, 4))])
        kind = "badkey:" + bad
    return s, kind


KEY_ALPHABET = list("0011 01") + list("01xXbBoO29afAFgz ")


def rand_key_string(rng):
    mode = int(rng.integers(0, 6))
    if mode == 0:
        return "".join(rng.choice(list("01"), size=int(rng.integers(0, 14))))
    if mode == 1:
        return "0b" + "".join(rng.choice(list("01 "), size=int(rng.integers(0, 14))))
    if mode == 2:
        return "0x" + "".join(rng.choice(list("0123456789abcdefABCDEF "), size=int(rng.integers(0, 5))))
    if mode == 3:
        return "".join(rng.choice(list("0123456789"), size=int(rng.integers(1, 6))))
    if mode == 4:
        return "".join(rng.choice(list("01 "), size=int(rng.integers(0, 16))))
    return "".join(rng.choice(KEY_ALPHABET, size=int(rng.integers(0, 7))))


def rand_cog(rng):
    n = int(rng.choice([1, 2, 3, 5, 8, 9, 12]))
    g = "".join(rng.choice(list("IXYZ"), size=n, p=[0.15, 0.25, 0.25, 0.35]))
    if rng.integers(0, 10) == 0:
        g = "I" * n
    subs = []
    for _ in range(int(rng.integers(1, 5))):
        keep = rng.integers(0, 3, size=n) > 0
        subs.append("".join(c if k else "I" for c, k in zip(g, keep)))
    return g, subs, CommutingObservableGroup(Pauli(g), [Pauli(s) for s in subs])


def pyint0_canon(s):
    try:
        v = int(s, 0)
    except ValueError:
        return None
    return v


# ----------------------------------------------------------------------------------------------
# generate
# ----------------------------------------------------------------------------------------------

def add_cog(w, general, members, impl_idx, impl_masks, nontrivial=True):
    w.add("cog", "chk_cog", (letters(general), [letters(m) for m in members], list(impl_idx), [Nc(m) for m in impl_masks]),
          dict(kind="cog", general=general, members=members, impl=[list(impl_idx), list(impl_masks)]),
          nontrivial=nontrivial and "I" in general.lstrip("I"))
    n = len(general)
    gap = any(general[n - 1 - q] == "I" and any(general[n - 1 - r] != "I" for r in range(q + 1, n)) for q in range(n))
    w.count("cog.general_has_gap_below_a_measured_qubit", gap)


def add_reconstruct(w, group, spec, mon, nontrivial_if_ok=True, extra=None, checker="chk_reconstruct", side=False):
    impl, case, aux = execute(spec, mon)
    js = dict(spec, impl=impl, aux=aux)
    if extra:
        js.update(extra)
    w.add(group, checker, case, js, nontrivial=(impl[0] == "ok" and nontrivial_if_ok))
    w.count(group + ".outcome", impl[0])
    if side:  # the real masks / lookup of every partition of this case against the letters
        for a in aux.get("parts", []):
            if not a.get("groups"):
                continue
            for g in a["groups"]:
                add_cog(w, g["general"], g["members"], g["impl_indices"], g["impl_masks"])
            gl = [(letters(g["general"]), [letters(m) for m in g["members"]]) for g in a["groups"]]
            w.add("lookup", "chk_lookup", (gl, [letters(x) for x in a["subobs"]], [list(map(tuple, l)) for l in a["impl_lookup"]]),
                  dict(kind="lookup", groups=[dict(general=g["general"], members=g["members"]) for g in a["groups"]],
                       subobs=a["subobs"], impl=a["impl_lookup"]),
                  nontrivial=len(a["groups"]) > 1)
            # the same partition through C11's model of ObservableCollection (bridge theorem c06_grouping_bridge)
            pp = lambda lab: Raw(f"(PP 0 {coq(letters(lab))})")  # noqa: E731
            uniq = list(dict.fromkeys(a["subobs"]))
            w.add("collection_part", "chk_collection_part",
                  ([pp(x) for x in a["subobs"]], [pp(x) for x in uniq], [[pp(x) for x in g["members"]] for g in a["groups"]],
                   [(len(g["impl_indices"]), [Nc(m) for m in g["impl_masks"]]) for g in a["groups"]],
                   [list(map(tuple, l)) for l in a["impl_lookup"]]),
                  dict(kind="lookup", groups=[dict(general=g["general"], members=g["members"]) for g in a["groups"]],
                       subobs=a["subobs"], impl=a["impl_lookup"]),
                  nontrivial=len(a["groups"]) > 1)
    return impl, js


def generate(rng, tier, outdir):
    w = CaseWriter(outdir, IMPORTS, case_types=CASE_TYPES)
    w.SHARD = 100
    mon = Monitor(w)
    quick = tier == "quick"
    n_valid = 330 if quick else 4000
    n_bad = 150 if quick else 1500
    n_keys = 600 if quick else 6000
    n_proc = 400 if quick else 5000
    n_tol = 16 if quick else 400

    # ---- valid stream (+ V1 twins of every case that contains V2 data) ----
    valid_specs = []
    for it in range(n_valid):
        spec, twin = gen_valid_spec(rng, w, tier, force_bits=12 if it % 11 == 0 else None)
        valid_specs.append(spec)
        twin_impl = None
        if twin is not None:
            twin_impl, _ = add_reconstruct(w, "reconstruct_twin", twin, mon, extra=dict(twin_of=it))
        add_reconstruct(w, "reconstruct", spec, mon, side=(it % 3 == 0),
                        extra=dict(twin=twin, twin_impl=twin_impl) if twin is not None else None)

    # ---- shot counts that are not powers of two: binary64 is inexact, compared within 1e-9 ----
    for it in range(n_tol):
        spec, twin = gen_valid_spec(rng, w, tier, odd_shots=True)
        twin_impl, _ = add_reconstruct(w, "reconstruct_tol", twin, mon, checker="chk_reconstruct_tol", extra=dict(twin_of=it))
        add_reconstruct(w, "reconstruct_tol", spec, mon, checker="chk_reconstruct_tol", extra=dict(twin=twin, twin_impl=twin_impl))

    # ---- malformed stream ----
    for it in range(n_bad):
        base = valid_specs[int(rng.integers(0, len(valid_specs)))]
        spec, kind = corrupt(rng, base, w)
        add_reconstruct(w, "malformed", spec, mon, nontrivial_if_ok=False, extra=dict(defect=kind))
        w.count("malformed.defect", kind.split(":")[0])

    # ---- _outcome_to_int and int(s, 0) ----
    for it in range(n_keys):
        if it % 6 == 0:
            k = int(rng.integers(0, 1 << int(rng.integers(1, 25))))
        else:
            k = rand_key_string(rng)
        r = call_canon(_outcome_to_int, k)
        assert r[0] in ("ok", "refused"), (k, r)
        exp = Opt(Nc(r[1])) if r[0] == "ok" else Opt()
        if r[0] == "ok":
            assert r[1] >= 0
        w.add("outcome_to_int", "chk_outcome_to_int", (coq_key(k), exp),
              dict(kind="outcome_to_int", key=key_json(k), impl=[r[0], r[1] if r[0] == "ok" else None]),
              nontrivial=isinstance(k, str))
        w.count("outcome_to_int.outcome", r[0] if isinstance(k, str) else "int-key")
        if isinstance(k, str):
            s = k.replace(" ", "")
            for t in {s, "0b" + s}:
                v = pyint0_canon(t)
                w.add("pyint0", "chk_pyint0", (coq_str(t), Opt(Nc(v)) if v is not None else Opt()),
                      dict(kind="pyint0", s=t, impl=v), nontrivial=v is not None)

    # ---- _process_outcome / _process_outcome_v2 / from_bytes ----
    for it in range(n_proc):
        g, subs, cog = rand_cog(rng)
        npi = len(cog.pauli_indices)
        nb = max(1, npi)
        masks = [Nc(int(m)) for m in cog.pauli_bitmasks]
        nq = int(rng.integers(0, 13))
        ob = int(rng.integers(0, 1 << nb))
        qp = int(rng.integers(0, 1 << nq)) | ((1 << (nq - 1)) if nq and rng.integers(0, 2) else 0)
        if it % 2 == 0:
            o = (qp << nb) | ob
            f = ["int", "0b", "0x", "bin", "bin_sp", "0B", "0X"][int(rng.integers(0, 7))]
            k = fmt_key(rng, o, nb + nq, f)
            r = call_canon(_process_outcome, cog, k)
            exp = Res("ok", [Zc(int(x)) for x in r[1]]) if r[0] == "ok" else Res(r[0])
            if r[0] == "ok":
                assert all(float(x) == int(x) for x in r[1])
            w.add("process_outcome", "chk_process_outcome", (npi, masks, coq_key(k), exp),
                  dict(kind="process_outcome", general=g, subs=subs, key=key_json(k),
                       impl=[r[0], [int(x) for x in r[1]] if r[0] == "ok" else r[1]]),
                  nontrivial=(r[0] == "ok" and npi > 0))
            w.count("process_outcome.key_format", f)
        else:
            r = _process_outcome_v2(cog, ob, qp)
            assert all(float(x) == int(x) for x in r)
            w.add("process_outcome_v2", "chk_process_outcome_v2", (masks, Nc(ob), Nc(qp), [Zc(int(x)) for x in r]),
                  dict(kind="process_outcome_v2", general=g, subs=subs, obs=ob, qpd=qp, impl=[int(x) for x in r]),
                  nontrivial=npi > 0)
            ba = BitArray.from_samples([qp], num_bits=max(nq, 1))
            row = [int(b) for b in ba.array[0]]
            v = int.from_bytes(ba.array[0], "big")
            w.contract("bitarray_rows_are_big_endian", v == qp)
            w.add("from_bytes", "chk_from_bytes", ([Nc(b) for b in row], Nc(v)),
                  dict(kind="from_bytes", row=row, impl=v), nontrivial=len(row) > 1)
        w.count("process.measured_bits", nb)
        w.count("process.qpd_bits", nq)
        add_cog(w, g, subs, [int(i) for i in cog.pauli_indices], [int(m) for m in cog.pauli_bitmasks])

    # ---- the property-level oracle must accept every case of an unchanged tree (false-alarm monitor) ----
    allc = [js for g in w.groups.values() for _, js in g["cases"]]
    step = 1 if quick else max(1, len(allc) // 3000)
    for js in allc[::step]:
        try:
            v = judge(js)
        except Exception as e:  # noqa: BLE001
            v = dict(violates=True, detail=f"judge raised {type(e).__name__}: {e}")
        w.contract("judge_accepts_clean_case", not v.get("violates"))
        if v.get("violates") and len(w.notes) < 5:
            w.notes.append(f"judge flags a generated case ({js.get('kind')}): {v.get('detail')}"[:400])

    return w.finish(
        rule="reconstruct: 1-5 partitions with exotic labels (dict form with independently ordered results dict, dict / OrderedDict / "
        "MappingProxyType containers, list or tuple coefficients; or the bare PauliList form for one partition), 1-6 observables per "
        "partition on 1-12 qubits drawn from 6 families (one Z/I family, random letters, restrictions of two dense general "
        "observables, identity-heavy, one dense all-measured observable, one-basis-per-observable = many groups) with forced identity / "
        "duplicate entries, 1-6 dyadic coefficients of either sign, per partition V1 (QuasiDistribution or plain dict; int, 0b, 0B, 0x, 0X, "
        "binary and spaced-binary keys; 0-12 QPD bits; dyadic quasi-probabilities of either sign) or V2 (BitArray via from_samples, "
        "1-64 shots, 0-12 QPD bits, DataBin with qpd_measurements first or second and sometimes an unrelated extra register; every "
        "11th case has 12-qubit partitions with >= 9 QPD bits); every case holding V2 data is also run on the equivalent V1 data (twin). "
        "reconstruct_tol: the same with 3..1000 shots (not powers of two), compared within 1e-9. malformed: count (+-1, +-#groups, x2) / "
        "phase / type / key-set / unparsable-key defects injected into valid specs. Direct streams for _outcome_to_int, int(s,0), "
        "_process_outcome, _process_outcome_v2, the big-endian row read, CommutingObservableGroup masks (cog) and "
        "ObservableCollection.lookup (lookup). The model is fed Pauli LETTERS (group membership and general observable from the real "
        "ObservableCollection); masks, measured qubits and lookup are recomputed by the model and compared with the real ones. "
        "judge() is run on every generated case (monitor judge_accepts_clean_case). distinct = distinct Coq case literal; "
        "non-trivial = successful call (reconstruct), string key, non-empty measured set, gap in the general observable (cog), "
        ">1 group (lookup)",
    )


# ----------------------------------------------------------------------------------------------
# property-level oracle (independent of the Coq model): the estimator straight from the property text
# ----------------------------------------------------------------------------------------------

def parse_key(k):
    """integer / binary-string / hex-string outcome keys; None = not one of the documented shapes"""
    if isinstance(k, int):
        return k
    s = k.replace(" ", "")
    try:
        if s[:2] in ("0x", "0X"):
            return int(s[2:], 16) if "_" not in s else None
        if s[:2] in ("0b", "0B"):
            return int(s[2:], 2) if "_" not in s else None
        return int(s, 2) if s and set(s) <= {"0", "1"} else None
    except ValueError:
        return None


def par(x):
    return bin(x).count("1") & 1


def reference(parts, coeffs, nobs):
    """parts: list of (sub-observable labels, groups aux, data).  Returns list of Fractions or None (silent)."""
    out = []
    for k in range(nobs):
        total = Fraction(0)
        for i, c in enumerate(coeffs):
            prod = Fraction(1)
            for labs, groups, d in parts:
                P, n, G = labs[k], len(labs[k]), len(groups)
                vals = []
                for m, g in enumerate(groups):
                    if P not in g["members"]:
                        continue
                    meas = [q for q in range(n) if g["general"][n - 1 - q] != "I"] or [0]
                    acts = sum(1 << j for j, q in enumerate(meas) if P[n - 1 - q] != "I")
                    E = Fraction(0)
                    if d["v"] == 1:
                        for key, p in d["dists"][i * G + m]:
                            o = parse_key(key_unjson(key))
                            if o is None:
                                return None
                            E += unfr(p) * (-1) ** par(o >> len(meas)) * (-1) ** par((o % (1 << len(meas))) & acts)
                    else:
                        shots = d["pubs"][i * G + m]
                        if not shots:
                            return None
                        for ob, qp in shots:
                            E += Fraction(1, len(shots)) * (-1) ** par(qp) * (-1) ** par(ob & acts)
                    vals.append(E)
                prod *= sum(vals) / len(vals)
            total += c * prod
        out.append(total)
    return out


def judge_reconstruct(case):
    o, r, impl = case["obs"], case["results"], case["impl"]
    coeffs = [unfr(c) for c, _ in case["coeffs"]]

    def must_refuse(why):
        return dict(violates=impl[0] != "refused", detail=f"{why}: expected a refusal, implementation gave {impl[0]}")

    if o["type"] == "other":
        return must_refuse("observables neither PauliList nor dict")
    if o["type"] == "paulilist":
        if r["type"] != "leaf":
            return must_refuse("PauliList observables with non-result `results`")
        obs_parts = [(None, o["paulis"])]
        datas = [r["data"]]
    else:
        if r["type"] != "map":
            return must_refuse("dict observables with non-dict `results`")
        lo = [untag(l) for l, _ in o["items"]]
        lr = [untag(l) for l, _ in r["items"]]
        if set(lo) != set(lr):
            return must_refuse("label sets differ")
        rd = {untag(l): d for l, d in r["items"]}
        obs_parts = [(untag(l), ps) for l, ps in o["items"]]
        datas = [rd[l] for l, _ in obs_parts]
    if any(ph != 0 for _, ps in obs_parts for ph, _ in ps):
        return must_refuse("observable with phase != 0")
    parts = []
    for (l, ps), d, a in zip(obs_parts, datas, case["aux"]["parts"]):
        groups = a["groups"]
        n = len(d["dists"]) if d["v"] == 1 else len(d["pubs"])
        if n != len(coeffs) * len(groups):
            return must_refuse(f"partition {l!r}: {n} results for {len(coeffs)} coefficients x {len(groups)} groups")
        parts.append(([lab for _, lab in ps], groups, d))
    nobs = len(parts[0][0])
    ref = reference(parts, coeffs, nobs)
    if ref is None:
        return dict(violates=False, detail="an outcome key is not an integer / binary / hex string (or an experiment has no shots); property silent")
    if impl[0] != "ok":
        return dict(violates=True, detail=f"well-formed input answered with {impl}")
    got = [unfr(x) for x in impl[1]]
    if len(got) != len(ref):
        return dict(violates=True, detail=f"length {len(got)} != {len(ref)}")
    tol = Fraction(0) if case.get("exact", True) else Fraction(1, 10**9)  # dyadic data: binary64 is exact, compare exactly
    bad = [k for k in range(nobs) if abs(got[k] - ref[k]) > tol]
    if bad:
        return dict(violates=True, detail=f"observable {bad[0]}: estimator {ref[bad[0]]} but implementation returned {got[bad[0]]}")
    ti = case.get("twin_impl")
    if ti is not None:
        same = ti[0] == "ok" and len(ti[1]) == len(got) and all(abs(unfr(a) - b) <= tol for a, b in zip(ti[1], got))
        if not same:
            return dict(violates=True, detail=f"V2 data gave {impl} but the equivalent V1 data gave {ti}")
    return dict(violates=False, detail="matches the reference estimator" + (" and its V1 twin" if case.get("twin_impl") else ""))


def judge(case):
    k = case["kind"]
    if k == "reconstruct":
        return judge_reconstruct(case)
    if k == "outcome_to_int":
        key = key_unjson(case["key"])
        want = parse_key(key)
        if want is None:
            return dict(violates=False, detail="not an integer / binary / hex key; property silent")
        ok = case["impl"][0] == "ok" and case["impl"][1] == want
        return dict(violates=not ok, detail=f"key {key!r} denotes {want}, implementation: {case['impl']}")
    if k == "pyint0":
        return dict(violates=False, detail="oracle contract stream (Python int(s,0) vs reference instance); not a property of /repo")
    if k in ("process_outcome", "process_outcome_v2"):
        g, subs = case["general"], case["subs"]
        n = len(g)
        meas = [q for q in range(n) if g[n - 1 - q] != "I"] or [0]
        if k == "process_outcome":
            o = parse_key(key_unjson(case["key"]))
            if o is None:
                return dict(violates=False, detail="undocumented key shape")
            ob, qp = o % (1 << len(meas)), o >> len(meas)
        else:
            ob, qp = case["obs"], case["qpd"]
        want = []
        for s in subs:
            acts = sum(1 << j for j, q in enumerate(meas) if s[n - 1 - q] != "I")
            want.append((-1) ** par(qp) * (-1) ** par(ob & acts))
        got = case["impl"][1] if k == "process_outcome" else case["impl"]
        ok = (case["impl"][0] == "ok" and got == want) if k == "process_outcome" else got == want
        return dict(violates=not ok, detail=f"want {want} got {case['impl']}")
    if k == "cog":
        idx, masks = derive_cog(case["general"], case["members"])
        ok = case["impl"] == [idx, masks]
        return dict(violates=not ok, detail=f"general {case['general']} members {case['members']}: measured qubits / masks should be "
                                            f"{[idx, masks]}, implementation has {case['impl']}")
    if k == "lookup":
        want = [[list(t) for t in derive_lookup(case["groups"], x)] for x in case["subobs"]]
        got = [[list(t) for t in l] for l in case["impl"]]
        return dict(violates=want != got, detail=f"lookup should be {want}, implementation has {got}")
    if k == "from_bytes":
        want = 0
        for b in case["row"]:
            want = want * 256 + b
        return dict(violates=want != case["impl"], detail=f"row {case['row']} -> {case['impl']}, big-endian value {want}")
    raise ValueError(k)


def rerun(case):
    """Re-execute the implementation on a stored case (for --replay)."""
    k = case["kind"]
    if k == "reconstruct":
        impl, _, aux = execute(case)
        case["impl"], case["aux"] = impl, aux
        if case.get("twin"):
            case["twin_impl"] = execute(case["twin"])[0]
    elif k == "outcome_to_int":
        r = call_canon(_outcome_to_int, key_unjson(case["key"]))
        case["impl"] = [r[0], r[1] if r[0] == "ok" else None]
    elif k == "pyint0":
        case["impl"] = pyint0_canon(case["s"])
    elif k in ("process_outcome", "process_outcome_v2"):
        cog = CommutingObservableGroup(Pauli(case["general"]), [Pauli(s) for s in case["subs"]])
        if k == "process_outcome":
            r = call_canon(_process_outcome, cog, key_unjson(case["key"]))
            case["impl"] = [r[0], [int(x) for x in r[1]] if r[0] == "ok" else r[1]]
        else:
            case["impl"] = [int(x) for x in _process_outcome_v2(cog, case["obs"], case["qpd"])]
    elif k == "from_bytes":
        case["impl"] = int.from_bytes(bytes(case["row"]), "big")
    elif k == "cog":
        cog = CommutingObservableGroup(Pauli(case["general"]), [Pauli(s) for s in case["members"]])
        case["impl"] = [[int(i) for i in cog.pauli_indices], [int(m) for m in cog.pauli_bitmasks]]
    elif k == "lookup":
        oc = ObservableCollection(PauliList(case["subobs"]))
        case["groups"] = [dict(general=g.general_observable.to_label(), members=[p.to_label() for p in g.commuting_observables])
                          for g in oc.groups]
        case["impl"] = [[[int(m), int(n)] for m, n in oc.lookup[Pauli(x)]] for x in case["subobs"]]
    return case

"""C03 correspondence: cut_wires, _transform_cuts_to_moves (+ expand_observables on their output)
vs Model/CutWires.v, and the property-level oracle (independent numpy branch simulator).

Program (JSON, re-executable):
  {"qspec": [["reg", name, size] | ["loose", n] | ["alias", name, [qubit indices]] ...],
   "cspec": [["reg", name, size] | ["loose", n] ...],
   "instrs": [[name, [params], [qubit indices], [clbit indices]] ...]}
  names: standard gate names, "cut_wire", "measure", "reset", "barrier", "move", "qpd_cx".
"""
from __future__ import annotations

import itertools
import json

import numpy as np
from qiskit.circuit import QuantumCircuit, QuantumRegister, ClassicalRegister, Qubit, Clbit
from qiskit.circuit import library as lib
from qiskit.quantum_info import Pauli, PauliList

from qiskit_addon_cutting.instructions import CutWire, Move
from qiskit_addon_cutting.qpd import QPDBasis, TwoQubitQPDGate
from qiskit_addon_cutting.wire_cutting_transforms import cut_wires, _transform_cuts_to_moves, expand_observables

from common import CaseWriter, Res, Raw, Interner, call_canon
from circ import CircCtx, coq_circ

IMPORTS = ("From CKT Require Import Common.Base Common.Circ Model.Observables Model.CutWires Corr.C03Corr.")
FUNCS = {"cut_wires": cut_wires, "moves": _transform_cuts_to_moves}

GATES = {
    "h": lib.HGate, "x": lib.XGate, "y": lib.YGate, "z": lib.ZGate, "s": lib.SGate, "sdg": lib.SdgGate,
    "t": lib.TGate, "tdg": lib.TdgGate, "sx": lib.SXGate, "rx": lib.RXGate, "ry": lib.RYGate, "rz": lib.RZGate,
    "p": lib.PhaseGate, "cx": lib.CXGate, "cz": lib.CZGate, "swap": lib.SwapGate, "rzz": lib.RZZGate,
    "rxx": lib.RXXGate, "crx": lib.CRXGate, "ch": lib.CHGate, "ccx": lib.CCXGate,
}
LET = {(False, False): 0, (True, False): 1, (True, True): 2, (False, True): 3}
LETTERS = "IXYZ"


# ----------------------------------------------------------------------------------------------
# programs <-> circuits
# ----------------------------------------------------------------------------------------------

def prog_nq(prog):
    return sum(s[2] if s[0] == "reg" else s[1] for s in prog["qspec"] if s[0] in ("reg", "loose"))


def prog_nc(prog):
    return sum(s[2] if s[0] == "reg" else s[1] for s in prog["cspec"])


def build_circuit(prog):
    qc = QuantumCircuit()
    for s in prog["qspec"]:
        if s[0] == "reg":
            qc.add_register(QuantumRegister(s[2], s[1]))
        elif s[0] == "loose":
            qc.add_bits([Qubit() for _ in range(s[1])])
    for s in prog["qspec"]:
        if s[0] == "alias":  # a second register over already present qubits
            qc.add_register(QuantumRegister(name=s[1], bits=[qc.qubits[i] for i in s[2]]))
    for s in prog["cspec"]:
        if s[0] == "reg":
            qc.add_register(ClassicalRegister(s[2], s[1]))
        else:
            qc.add_bits([Clbit() for _ in range(s[1])])
    for name, params, qs, cs in prog["instrs"]:
        if name == "cut_wire":
            qc.append(CutWire(), qs)
        elif name == "measure":
            qc.measure(qs[0], cs[0])
        elif name == "reset":
            qc.reset(qs[0])
        elif name == "barrier":
            qc.barrier(*qs)
        elif name == "move":
            qc.append(Move(), qs)
        elif name == "qpd_cx":
            qc.append(TwoQubitQPDGate.from_instruction(lib.CXGate()), qs)
        else:
            qc.append(GATES[name](*params), qs)
    return qc


def canon_pauli(p):
    return [int(p.phase), [LET[(bool(a), bool(b))] for a, b in zip(p.x, p.z)]]


def mk_pauli(phase, lets):
    p = Pauli("".join(LETTERS[l] for l in reversed(lets)))
    p.phase = phase
    return p


def coq_pauli(c):
    return Raw(f"(P {c[0]} [{'; '.join(str(l) for l in c[1])}])")


class Canon:
    """Per-case canonicaliser: qubit/clbit identity tags, register names, gate ids."""

    def __init__(self, qc):
        self.ctx = CircCtx()
        self.move_basis = self.ctx.basis_id(QPDBasis.from_instruction(Move()))
        self.cut_move_label = self.ctx.qlabel("cut_move")
        self.qids = Interner()
        self.cids = Interner()
        self.names = Interner()
        for q in qc.qubits:
            self.qids(q)
        for c in qc.clbits:
            self.cids(c)

    def circuit(self, qc):
        data = self.ctx.canon_circuit(qc)
        for d, inst in zip(data, qc.data):
            if d["op"][0] == "qpd2" and d["op"][1] == self.move_basis:
                d["as"] = "move"  # a Move wrapped for cutting: executed as a Move by the oracle
        return dict(
            qubits=[self.qids(q) for q in qc.qubits],
            qregs=[[self.names(("q", r.name)), [self.qids(q) for q in r]] for r in qc.qregs],
            nc=qc.num_clbits,
            # the identity order of circuit.clbits is carried as a pseudo register in front
            cregs=[[self.names(("c", "<clbits>")), [self.cids(c) for c in qc.clbits]]]
            + [[self.names(("c", r.name)), [self.cids(c) for c in r]] for r in qc.cregs],
            qreg_names=[[r.name, r.size] for r in qc.qregs],
            creg_names=[[r.name, r.size] for r in qc.cregs],
            data=data,
        )

    def factory(self, fn):
        if fn == "moves":
            return Raw("Move")
        l = self.cut_move_label
        return Raw(f"(Qpd2 {self.move_basis} None (Some ({l[0]}, None)))")


def coq_regs(regs):
    return [(r[0], list(r[1])) for r in regs]


def coq_result(c):
    return Raw("(mkCR " + " ".join(
        [_c(list(c["qubits"])), _c(coq_regs(c["qregs"])), str(c["nc"]), _c(coq_regs(c["cregs"])), _c(coq_circ(c["data"]))]) + ")")


def _c(v):
    from common import coq
    return coq(v)


def run_case(prog, fn, paulis):
    """Execute the implementation; return the JSON case (input, recorded output, expanded paulis)."""
    qc = build_circuit(prog)
    cn = Canon(qc)
    cin = cn.circuit(qc)
    r = call_canon(FUNCS[fn], qc)
    case = dict(kind="cut", fn=fn, prog=prog, input=cin, paulis=paulis,
                factory=cn.factory(fn).s)
    if r[0] == "ok":
        out = r[1]
        case["impl"] = ["ok", cn.circuit(out)]
        if paulis is not None:
            pl = PauliList([mk_pauli(ph, lets) for ph, lets in paulis])
            e = call_canon(expand_observables, pl, qc, out)
            case["expanded"] = [e[0], [canon_pauli(p) for p in e[1]] if e[0] == "ok" else e[1]]
    else:
        case["impl"] = [r[0], r[1]]
        case["expanded"] = None
    return case, cn


def pack(case):
    """Stored form of a case: the re-executable input in clear, the recorded canonical data as one JSON string
    (json.dump of deeply nested lists is the dominant cost of the harness otherwise)."""
    rest = {k: v for k, v in case.items() if k not in ("kind", "fn", "prog", "paulis")}
    return dict(kind=case["kind"], fn=case["fn"], prog=case["prog"], paulis=case.get("paulis"), recorded=json.dumps(rest))


def unpack(case):
    if "recorded" in case:
        c = dict(case)
        c.update(json.loads(c.pop("recorded")))
        return c
    return case


def emit(w, stream, case, cn, nontrivial):
    cin = case["input"]
    impl = case["impl"]
    exp = Res("ok", coq_result(impl[1])) if impl[0] == "ok" else Res(impl[0])
    w.add(f"{stream}.cut", "chk_cut",
          (cn.factory(case["fn"]), len(cin["qubits"]), cin["nc"], coq_regs(cin["qregs"]), coq_regs(cin["cregs"]),
           coq_circ(cin["data"]), exp),
          pack(case), nontrivial=nontrivial)
    if case.get("paulis") is not None and case.get("expanded") is not None:
        e = case["expanded"]
        eexp = Res("ok", [coq_pauli(c) for c in e[1]]) if e[0] == "ok" else Res(e[0])
        w.add(f"{stream}.expand", "chk_cut_expand",
              (len(cin["qubits"]), coq_circ(cin["data"]), [coq_pauli(c) for c in case["paulis"]], eexp),
              pack(dict(case, kind="expand")), nontrivial=nontrivial)


# ----------------------------------------------------------------------------------------------
# generators
# ----------------------------------------------------------------------------------------------

def rand_paulis(rng, n, k):
    out = []
    for j in range(k):
        lets = [int(rng.integers(0, 4)) for _ in range(n)]
        if j == 0:  # one full-weight string so that every wire is read
            lets = [int(rng.integers(1, 4)) for _ in range(n)]
        out.append([int(rng.integers(0, 4)), lets])
    return out


def rand_qspec(rng, n):
    spec = []
    left = n
    ri = 0
    while left > 0:
        s = int(rng.integers(1, left + 1))
        if rng.integers(0, 3) == 0:
            spec.append(["loose", s])
        else:
            spec.append(["reg", f"r{ri}", s])
            ri += 1
        left -= s
    return spec


def rand_cspec(rng, allow=True):
    spec = []
    if not allow or rng.integers(0, 2) == 0:
        return spec
    for i in range(int(rng.integers(0, 3))):
        spec.append(["reg", f"c{i}", int(rng.integers(1, 3))])
    if rng.integers(0, 2):
        spec.append(["loose", int(rng.integers(1, 3))])
    return spec


ANGLES = [0.3, 0.7, 1.1, 1.9, 2.3, -0.9]


def rand_gate(rng, n):
    r = int(rng.integers(0, 10))
    if n >= 3 and r == 0:
        qs = [int(q) for q in rng.permutation(n)[:3]]
        return ["ccx", [], qs, []]
    if n >= 2 and r < 5:
        qs = [int(q) for q in rng.permutation(n)[:2]]
        name = ["cx", "cz", "rzz", "crx", "swap", "ch", "rxx"][int(rng.integers(0, 7))]
        params = [ANGLES[int(rng.integers(0, len(ANGLES)))]] if name in ("rzz", "crx", "rxx") else []
        return [name, params, qs, []]
    name = ["h", "sx", "t", "s", "x", "rx", "ry", "rz", "y", "tdg"][int(rng.integers(0, 10))]
    params = [ANGLES[int(rng.integers(0, len(ANGLES)))]] if name in ("rx", "ry", "rz") else []
    return [name, params, [int(rng.integers(0, n))], []]


def gen_exhaustive(maxlen):
    alphabet = [["h", [], [0], []], ["sx", [], [1], []], ["cx", [], [0, 1], []],
                ["cut_wire", [], [0], []], ["cut_wire", [], [1], []]]
    for L in range(0, maxlen + 1):
        for p in itertools.product(range(5), repeat=L):
            yield dict(qspec=[["reg", "q", 2]], cspec=[], instrs=[alphabet[i] for i in p])


def gen_skeletons(rng):
    for n in range(1, 5):
        for k in range(0, 5):
            for seq in itertools.product(range(n), repeat=k):
                instrs = []
                if rng.integers(0, 10) < 7:
                    for q in range(n):
                        instrs.append(["ry", [0.4 + 0.5 * q], [q], []])
                for q in seq:
                    for _ in range(int(rng.integers(0, 3))):
                        instrs.append(rand_gate(rng, n))
                    instrs.append(["cut_wire", [], [q], []])
                for _ in range(int(rng.integers(0, 3))):
                    instrs.append(rand_gate(rng, n))
                yield dict(qspec=rand_qspec(rng, n), cspec=rand_cspec(rng, allow=bool(rng.integers(0, 2))), instrs=instrs)


def gen_random(rng):
    n = int(rng.integers(1, 5))
    prog = dict(qspec=rand_qspec(rng, n), cspec=rand_cspec(rng), instrs=[])
    nc = prog_nc(prog)
    L = int(rng.integers(3, 15))
    markers = 0
    maxm = int(rng.integers(0, 5))
    branching = 0
    for _ in range(L):
        r = int(rng.integers(0, 20))
        if r < 6 and markers < maxm:
            # bias towards re-cutting an already cut qubit after touching another one
            prog["instrs"].append(["cut_wire", [], [int(rng.integers(0, n))], []])
            markers += 1
        elif r == 6 and nc > 0 and branching < 3:
            prog["instrs"].append(["measure", [], [int(rng.integers(0, n))], [int(rng.integers(0, nc))]])
            branching += 1
        elif r == 7 and branching < 3:
            prog["instrs"].append(["reset", [], [int(rng.integers(0, n))], []])
            branching += 1
        elif r == 8:
            m = int(rng.integers(1, n + 1))
            prog["instrs"].append(["barrier", [], [int(q) for q in rng.permutation(n)[:m]], []])
        elif r == 9 and n >= 2 and branching < 3:
            prog["instrs"].append(["move", [], [int(q) for q in rng.permutation(n)[:2]], []])
            branching += 1
        else:
            prog["instrs"].append(rand_gate(rng, n))
    return prog


def gen_edge(rng):
    cut = lambda q: ["cut_wire", [], [q], []]  # noqa: E731
    yield dict(qspec=[], cspec=[], instrs=[])
    yield dict(qspec=[], cspec=[["reg", "c", 2]], instrs=[])
    yield dict(qspec=[["loose", 1]], cspec=[], instrs=[])
    yield dict(qspec=[["loose", 1]], cspec=[], instrs=[cut(0)])
    yield dict(qspec=[["loose", 1]], cspec=[], instrs=[cut(0), cut(0), cut(0), cut(0)])
    yield dict(qspec=[["loose", 2], ["reg", "a", 1]], cspec=[["loose", 2]],
               instrs=[cut(2), ["measure", [], [2], [1]], cut(0), cut(2), ["h", [], [2], []], ["measure", [], [0], [0]]])
    # markers first / last on a wire
    yield dict(qspec=[["reg", "a", 2]], cspec=[], instrs=[cut(0), ["h", [], [0], []], ["cx", [], [0, 1], []], cut(1)])
    # overlapping registers
    yield dict(qspec=[["reg", "a", 3], ["alias", "b", [2, 0]]], cspec=[],
               instrs=[["h", [], [0], []], cut(0), ["cx", [], [0, 2], []], cut(2), cut(0), ["x", [], [1], []]])
    # pre-placed gate cut and a labelled barrier travel along
    yield dict(qspec=[["reg", "a", 2], ["reg", "b", 1]], cspec=[],
               instrs=[["h", [], [0], []], ["qpd_cx", [], [0, 1], []], cut(1), ["barrier", [], [0, 1, 2], []],
                       ["qpd_cx", [], [1, 2], []], cut(0), cut(1)])
    # the DESIGN section 6 witness (F1) on two registers
    yield dict(qspec=[["reg", "a", 1], ["reg", "b", 1]], cspec=[],
               instrs=[["h", [], [0], []], cut(0), ["cx", [], [0, 1], []], cut(1), ["h", [], [1], []], cut(0), ["x", [], [0], []]])
    # measurement into a late classical bit (F8)
    yield dict(qspec=[["reg", "a", 2]], cspec=[["reg", "c", 3]],
               instrs=[["h", [], [0], []], cut(0), ["measure", [], [0], [2]], ["measure", [], [1], [1]]])


def generate(rng, tier, outdir):
    w = CaseWriter(outdir, IMPORTS, case_types={
        "chk_cut": "op * nat * nat * regs * regs * circ * res cut_result",
        "chk_cut_expand": "nat * circ * list pauli * res (list pauli)"})
    quick = tier == "quick"
    w.SHARD = 300 if quick else 1500
    maxlen = 5 if quick else 6
    n_random = 500 if quick else 6000
    skel_rounds = 1 if quick else 4
    numeric_budget = [10**9 if quick else 60000]

    def do(stream, prog, fns=("moves", "cut_wires"), with_paulis=True):
        n = prog_nq(prog)
        k = sum(1 for i in prog["instrs"] if i[0] == "cut_wire")
        paulis = rand_paulis(rng, n, 3) if (with_paulis and n > 0) else None
        for j, fn in enumerate(fns):
            case, cn = run_case(prog, fn, paulis)
            # cheap independent cross-check of the whole pipeline (model assumption M1) on a budget
            if numeric_budget[0] > 0:
                numeric_budget[0] -= 1
                v = judge(case)
                case["numeric"] = v["violates"]
                w.count("oracle.verdict_on_generated_case", "violates" if v["violates"] else "holds")
            emit(w, stream, case, cn, nontrivial=(k > 0))
            w.count(f"{stream}.outcome.{fn}", case["impl"][0])
        w.count(f"{stream}.markers", k)
        w.count(f"{stream}.nq", n)
        per = {}
        order = []
        for i in prog["instrs"]:
            if i[0] == "cut_wire":
                per[i[2][0]] = per.get(i[2][0], 0) + 1
                order.append(i[2][0])
        runs = len([1 for a, b in zip(order, order[1:]) if a != b]) + (1 if order else 0)
        w.count(f"{stream}.interleaved_same_qubit", bool(runs > len(per)))
        w.count(f"{stream}.max_markers_on_one_qubit", max(per.values()) if per else 0)

    # 1. exhaustive small programs (no classical bits): every interleaving of two markers kinds with gates
    for idx, prog in enumerate(gen_exhaustive(maxlen)):
        if quick and len(prog["instrs"]) == maxlen:
            # longest layer in the quick tier: alternate the two entry points (both share _transform_cut_wires)
            do("exh", prog, fns=(("moves",), ("cut_wires",))[idx % 2])
        else:
            do("exh", prog)
    # 2. every marker sequence of length <= 4 on 1..4 qubits, random gate filling, register layouts
    for _ in range(skel_rounds):
        for prog in gen_skeletons(rng):
            do("skel", prog)
    # 3. random longer programs with measure/reset/barrier/user Moves, classical registers
    for _ in range(n_random):
        prog = gen_random(rng)
        do("rand", prog)
        w.count("rand.has_measure", any(i[0] == "measure" for i in prog["instrs"]))
    # 4. edge cases
    for prog in gen_edge(rng):
        do("edge", prog)

    return w.finish(
        rule="exh: ALL programs of length <= %d over {h 0, sx 1, cx 0 1, cut 0, cut 1}; skel: every marker sequence of length 0..4 "
             "over 1..4 qubits with random gate filling and random register layouts (named registers, loose bits, classical "
             "registers); rand: random programs of length 3..14 with <= 4 markers, measure/reset/barrier/user Move; edge: hand-picked "
             "(0 qubits, only markers, overlapping registers, pre-placed QPD gates, F1 and F8 witnesses). Every program is run through "
             "_transform_cuts_to_moves and cut_wires (chk_cut: qubit identity order, registers, clbits, instruction list) and "
             "expand_observables on 3 random Paulis (chk_cut_expand). non-trivial = at least one marker." % maxlen
    )


# ----------------------------------------------------------------------------------------------
# property-level oracle: independent branch (statevector ensemble) simulator
# ----------------------------------------------------------------------------------------------

def _apply(vec, U, qs):
    k = len(qs)
    n = vec.ndim
    Ut = np.asarray(U, dtype=complex).reshape((2,) * (2 * k))
    # Qiskit matrices: first qubit argument is the least significant bit -> axes are (q_{k-1} .. q_0)
    axes = [qs[k - 1 - j] for j in range(k)]
    out = np.tensordot(Ut, vec, axes=(list(range(k, 2 * k)), axes))
    return np.moveaxis(out, list(range(k)), axes)


_P0 = np.array([[1, 0], [0, 0]], dtype=complex)
_P1 = np.array([[0, 0], [0, 1]], dtype=complex)
_X = np.array([[0, 1], [1, 0]], dtype=complex)
_Y = np.array([[0, -1j], [1j, 0]], dtype=complex)
_Z = np.array([[1, 0], [0, -1]], dtype=complex)
_SWAP = np.array([[1, 0, 0, 0], [0, 0, 1, 0], [0, 1, 0, 0], [0, 0, 0, 1]], dtype=complex)
EPS = 1e-14


def _norm2(v):
    return float(np.vdot(v, v).real)


def simulate(n, nc, ops):
    """ops: list of (kind, payload, qubits, clbits); returns list of (clbits tuple, vector)."""
    v0 = np.zeros((2,) * n, dtype=complex) if n > 0 else np.zeros((), dtype=complex)
    v0[(0,) * n] = 1.0
    branches = [((0,) * nc, v0)]

    def reset(bs, q):
        nb = []
        for cl, v in bs:
            a = _apply(v, _P0, [q])
            b = _apply(_apply(v, _P1, [q]), _X, [q])
            if _norm2(a) > EPS:
                nb.append((cl, a))
            if _norm2(b) > EPS:
                nb.append((cl, b))
        return nb

    for kind, payload, qs, cs in ops:
        if kind == "gate":
            branches = [(cl, _apply(v, payload, qs)) for cl, v in branches]
        elif kind == "measure":
            nb = []
            for cl, v in branches:
                for bit, Pm in ((0, _P0), (1, _P1)):
                    a = _apply(v, Pm, [qs[0]])
                    if _norm2(a) > EPS:
                        c2 = list(cl)
                        c2[cs[0]] = bit
                        nb.append((tuple(c2), a))
            branches = nb
        elif kind == "reset":
            branches = reset(branches, qs[0])
        elif kind == "move":  # Move.definition: reset(1); swap(0, 1)
            branches = reset(branches, qs[1])
            branches = [(cl, _apply(v, _SWAP, qs)) for cl, v in branches]
        elif kind == "skip":
            pass
        else:
            raise ValueError(kind)
    return branches


def pauli_stats(branches, phase, lets):
    """classical outcome -> (probability, unnormalised <P>) ; P = (-i)^phase * letters"""
    out = {}
    for cl, v in branches:
        pv = v
        for q, l in enumerate(lets):
            if l:
                pv = _apply(pv, (_X, _Y, _Z)[l - 1], [q])
        val = ((-1j) ** phase) * np.vdot(v, pv)
        p, e = out.get(cl, (0.0, 0.0))
        out[cl] = (p + _norm2(v), e + val)
    return out


def _ops_from_prog(prog):
    ops = []
    for name, params, qs, cs in prog["instrs"]:
        if name in ("cut_wire", "barrier"):
            ops.append(("skip", None, qs, cs))
        elif name in ("measure", "reset", "move"):
            ops.append((name, None, qs, cs))
        elif name in GATES:
            ops.append(("gate", GATES[name](*params).to_matrix(), qs, cs))
        else:
            return None
    return ops


def _ops_from_canon(data):
    ops = []
    for d in data:
        op = d["op"]
        if op[0] in ("barrier", "cut_wire"):
            ops.append(("skip", None, d["qs"], d["cs"]))
        elif op[0] in ("measure", "reset", "move"):
            ops.append((op[0], None, d["qs"], d["cs"]))
        elif op[0] == "qpd2" and d.get("as") == "move":
            ops.append(("move", None, d["qs"], d["cs"]))
        elif op[0] == "gate" and op[2] in GATES:
            ops.append(("gate", GATES[op[2]](*op[3]).to_matrix(), d["qs"], d["cs"]))
        else:
            return None
    return ops


def _opsig(op):
    if op[0] == "gate":
        return ("gate", op[2], tuple(op[3]))
    if op[0] == "barrier":
        return ("barrier",)
    return tuple(str(x) for x in op)


def judge(case):
    case = unpack(case)
    prog = case["prog"]
    n = prog_nq(prog)
    nc = prog_nc(prog)
    k = sum(1 for i in prog["instrs"] if i[0] == "cut_wire")
    impl = case["impl"]
    if impl[0] != "ok":
        return dict(violates=True, detail=f"{case['fn']} raised: {impl[1]}")
    out = impl[1]
    cin = case["input"]
    # --- structure: one more qubit per marker, originals / registers / instructions kept in order
    if len(out["qubits"]) != n + k:
        return dict(violates=True, detail=f"{len(out['qubits'])} qubits in the result, expected {n} + {k} markers")
    if [t for t in out["qubits"] if t < n] != list(range(n)):
        return dict(violates=True, detail=f"original qubits not kept in order: {out['qubits']}")
    if out["qregs"] != cin["qregs"] or out["cregs"] != cin["cregs"] or out["nc"] != cin["nc"] \
            or out["qreg_names"] != cin["qreg_names"] or out["creg_names"] != cin["creg_names"]:
        return dict(violates=True, detail=f"registers/clbits changed: {cin['qreg_names']},{cin['creg_names']} -> {out['qreg_names']},{out['creg_names']}")
    if len(out["data"]) != len(cin["data"]):
        return dict(violates=True, detail="number of instructions changed")
    kept_problem = None
    for pos, (a, b) in enumerate(zip(cin["data"], out["data"])):
        if a["op"][0] == "cut_wire":
            is_move = b["op"][0] == "move" if case["fn"] == "moves" else (b["op"][0] == "qpd2" and b.get("as") == "move")
            if not is_move or len(b["qs"]) != 2:
                return dict(violates=True, detail=f"instruction {pos}: marker not replaced by a Move: {b}")
        else:
            if _opsig(a["op"]) != _opsig(b["op"]) or len(a["qs"]) != len(b["qs"]):
                return dict(violates=True, detail=f"instruction {pos} not kept: {a['op'][:3]} qs={a['qs']} cs={a['cs']} became {b['op'][:3]} qs={b['qs']} cs={b['cs']}")
            if a["cs"] != b["cs"] and not kept_problem:
                # recorded; the simulation below shows what it does to the classical-bit statistics
                kept_problem = (f"instruction {pos} not kept: {a['op'][0]} qs={a['qs']} clbits={a['cs']} became "
                                f"{b['op'][0]} qs={b['qs']} clbits={b['cs']}")
    # --- expansion of observables must succeed
    exp = case.get("expanded")
    if case.get("paulis") is not None:
        if exp is None or exp[0] != "ok":
            return dict(violates=True, detail=f"expand_observables raised: {exp}")
    # --- semantics
    o1 = _ops_from_prog(prog)
    o2 = _ops_from_canon(out["data"])
    if o1 is None or o2 is None or case.get("paulis") is None:
        if kept_problem:
            return dict(violates=True, detail=kept_problem)
        return dict(violates=False, detail="structure holds; semantics not simulated (opaque operations / no observable)")
    b1 = simulate(n, nc, o1)
    b2 = simulate(n + k, nc, o2)
    worst = 0.0
    for (ph, lets), (ph2, lets2) in zip(case["paulis"], exp[1]):
        s1 = pauli_stats(b1, ph, lets)
        s2 = pauli_stats(b2, ph2, lets2)
        for key in set(s1) | set(s2):
            p1, e1 = s1.get(key, (0.0, 0.0))
            p2, e2 = s2.get(key, (0.0, 0.0))
            d = max(abs(p1 - p2), abs(e1 - e2))
            worst = max(worst, d)
            if d > 1e-9:
                return dict(violates=True, detail=(kept_problem + "; " if kept_problem else "") +
                            f"observable phase={ph} letters={lets} (expanded {lets2}), classical outcome {key}: "
                                                  f"original (prob, <P>)=({p1:.6g}, {complex(e1):.6g}) transformed ({p2:.6g}, {complex(e2):.6g})")
    if kept_problem:
        return dict(violates=True, detail=kept_problem + " (expectation values and outcome statistics happen to agree on this input)")
    return dict(violates=False, detail=f"structure holds; max deviation {worst:.2e} over {len(case['paulis'])} observables")


def rerun(case):
    """Re-execute the implementation on the stored program (for --replay)."""
    new, _ = run_case(case["prog"], case["fn"], case.get("paulis"))
    new["kind"] = case.get("kind", "cut")
    return new
